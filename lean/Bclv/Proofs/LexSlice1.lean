import Bclv.Model.Lexer
namespace Bclv

/-- a log of (end offset, pending text) pairs -/
abbrev CutLog := List (Nat × Bytes)

/-- the same input primitives with a ghost log: the end offset and the pending text at every
`ignore` (which is where a token's text is cut off) so far -/
def ghostL {σ : Type} (P : LexPrims σ) : LexPrims (σ × CutLog) where
  next a := ((P.next a.1).1, ((P.next a.1).2, a.2))
  backup a := (P.backup a.1, a.2)
  unbackup a := (P.unbackup a.1, a.2)
  ignore a := (P.ignore a.1, (P.endPos a.1, P.current a.1) :: a.2)
  current a := P.current a.1
  endPos a := P.endPos a.1

section
variable {σ : Type} (P : LexPrims σ)

theorem l_next {a : σ × CutLog} {r : Rune} {s : σ × CutLog} (h : (ghostL P).next a = (r, s)) : s.2 = a.2 := by
  have := congrArg (fun x => x.2.2) h; exact this.symm
theorem l_backup (a : σ × CutLog) : ((ghostL P).backup a).2 = a.2 := rfl
theorem l_unbackup (a : σ × CutLog) : ((ghostL P).unbackup a).2 = a.2 := rfl
theorem l_ignore (a : σ × CutLog) : ((ghostL P).ignore a).2 = (P.endPos a.1, P.current a.1) :: a.2 := rfl
theorem l_peekR (a : σ × CutLog) : (peekR (ghostL P) a).2.2 = a.2 := rfl
theorem l_accept (v : Rune → Bool) (a : σ × CutLog) : (accept (ghostL P) v a).2.2 = a.2 := by
  unfold accept
  rcases h : (ghostL P).next a with ⟨r, s⟩
  have hs := l_next P h
  dsimp only
  split
  · exact hs
  · exact hs

theorem l_acceptRun (pred : Rune → Bool) : ∀ (f : Nat) (acc : Bool) (a : σ × CutLog), (acceptRun (ghostL P) pred f acc a).2.2 = a.2
  | 0, _, _ => rfl
  | f+1, acc, a => by
    unfold acceptRun
    rcases h : (ghostL P).next a with ⟨r, s⟩
    have hs := l_next P h
    dsimp only
    split
    · rw [l_acceptRun pred f true s]; exact hs
    · exact hs

theorem l_identLoop : ∀ (f : Nat) (a : σ × CutLog), (identLoop (ghostL P) f a).2 = a.2
  | 0, _ => rfl
  | f+1, a => by
    unfold identLoop
    rcases h : (ghostL P).next a with ⟨r, s⟩
    have hs := l_next P h
    dsimp only
    split
    · rw [l_identLoop f s]; exact hs
    · exact hs

theorem l_quoteLoop : ∀ (f : Nat) (a : σ × CutLog), (quoteLoop (ghostL P) f a).2.2 = a.2
  | 0, _ => rfl
  | f+1, a => by
    unfold quoteLoop
    rcases h : (ghostL P).next a with ⟨r, s⟩
    have hs := l_next P h
    dsimp only
    split
    · rcases h2 : (ghostL P).next s with ⟨r2, s2⟩
      have hs2 := l_next P h2
      have e2 : (ghostL P).1 s = (r2, s2) := h2
      simp only [e2]
      split
      · rw [l_quoteLoop f s2, hs2]; exact hs
      · rw [hs2]; exact hs
    · repeat' split
      all_goals first | exact hs | (rw [l_quoteLoop f s]; exact hs)

theorem l_commentLoop : ∀ (f : Nat) (a : σ × CutLog), ∀ x ∈ a.2, x ∈ (commentLoop (ghostL P) f a).2
  | 0, _ => fun _ h => h
  | f+1, a => by
    unfold commentLoop
    rcases h : (ghostL P).next a with ⟨r, s⟩
    have hs := l_next P h
    dsimp only
    split
    · rw [l_ignore, l_backup, hs]; exact fun x hx => List.mem_cons_of_mem _ hx
    · rw [← hs]; exact l_commentLoop f s

/-- what one lexer step does to the log and the tokens: the log only grows, and every new token
has empty text or was cut off at a logged (offset, text) pair -/
def TLR (l l' : LexSt (σ × CutLog)) : Prop :=
  (∀ x ∈ l.s.2, x ∈ l'.s.2) ∧ ∀ t ∈ l'.toks, t ∈ l.toks ∨ t.val = [] ∨ (t.pos, t.val) ∈ l'.s.2

theorem TLR.setS (l : LexSt (σ × CutLog)) (s' : σ × CutLog) (h : ∀ x ∈ l.s.2, x ∈ s'.2) : TLR l { l with s := s' } :=
  ⟨h, fun t ht => .inl ht⟩
theorem TLR.refl (l : LexSt (σ × CutLog)) : TLR l l := ⟨fun _ h => h, fun t ht => .inl ht⟩
theorem TLR.emit (t : TokType) (l l1 : LexSt (σ × CutLog)) (h : TLR l l1) : TLR l (emit (ghostL P) t l1) := by
  refine ⟨fun x hx => List.mem_cons_of_mem _ (h.1 x hx), ?_⟩
  intro x hx
  rcases List.mem_cons.mp hx with rfl | hx
  · right; right; exact List.mem_cons_self
  · rcases h.2 x hx with h1 | h1 | h1
    · exact .inl h1
    · exact .inr (.inl h1)
    · exact .inr (.inr (List.mem_cons_of_mem _ h1))
theorem TLR.fail (hic : ∀ s, P.current (P.ignore s) = []) (msg : Bytes) (l l1 : LexSt (σ × CutLog)) (h : TLR l l1) :
    TLR l (failWith (ghostL P) msg l1).2 := by
  refine ⟨fun x hx => List.mem_cons_of_mem _ (h.1 x hx), ?_⟩
  intro x hx
  simp only [failWith, List.mem_cons] at hx
  rcases hx with rfl | rfl | hx
  · right; left; exact hic _
  · right; left; rfl
  · rcases h.2 x hx with h1 | h1 | h1
    · exact .inl h1
    · exact .inr (.inl h1)
    · exact .inr (.inr (List.mem_cons_of_mem _ h1))
theorem TLR.invalid (hic : ∀ s, P.current (P.ignore s) = []) (l l1 : LexSt (σ × CutLog)) (h : TLR l l1) :
    TLR l (invalidSyntax (ghostL P) l1).2 := TLR.fail P hic _ l l1 h
end
end Bclv
