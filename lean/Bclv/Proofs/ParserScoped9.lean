import Bclv.Proofs.ParserScoped8
import Bclv.Proofs.Scoped
namespace Bclv

theorem QS_stuck {p0 p' : PState} (st : Stmt) (hpi : PI p') (he : Ext p0 p') (hinit : AllInit p0) (hst : p'.stuck = true) : QS p0 st p' :=
  ⟨hpi, he.toS, by intro l hl; rw [he.locals] at hl; exact hinit l hl, fun hne => by rw [hne.2] at hst; cases hst⟩

/-- **Statements are parsed into well-scoped trees** (the four mutually recursive
functions, by induction on the fuel). -/
theorem stmts_scoped : ∀ (f : Nat),
    (∀ p, PI p → AllInit p → wp (decl f) (QS p) p)
    ∧ (∀ p, PI p → AllInit p → wp (stmt f) (QS p) p)
    ∧ (∀ p, PI p → AllInit p → wp (blockStmt f) (QS p) p)
    ∧ (∀ p, PI p → AllInit p → wp (blockLoop f) (QSs p) p)
  | 0 => by
    refine ⟨?_, ?_, ?_, ?_⟩
    · intro p hpi hinit
      unfold decl
      rw [wp_bind]
      apply wp_spec setStuck_spec hpi (Ext.refl p)
      intro _ p1 hpi1 he1 _ hst
      rw [wp_pure]; exact QS_stuck _ hpi1 he1 hinit hst
    · intro p hpi hinit
      unfold stmt
      rw [wp_bind]
      apply wp_spec setStuck_spec hpi (Ext.refl p)
      intro _ p1 hpi1 he1 _ hst
      rw [wp_pure]; exact QS_stuck _ hpi1 he1 hinit hst
    · intro p hpi hinit
      unfold blockStmt
      rw [wp_bind]
      apply wp_spec setStuck_spec hpi (Ext.refl p)
      intro _ p1 hpi1 he1 _ hst
      rw [wp_pure]; exact QS_stuck _ hpi1 he1 hinit hst
    · intro p hpi hinit
      unfold blockLoop
      rw [wp_bind]
      apply wp_spec setStuck_spec hpi (Ext.refl p)
      intro _ p1 hpi1 he1 _ hst
      rw [wp_pure]
      exact ⟨hpi1, he1.toS, by intro l hl; rw [he1.locals] at hl; exact hinit l hl, fun hne => by rw [hne.2] at hst; cases hst⟩
  | f+1 => by
    obtain ⟨ihd, ihs, ihb, ihl⟩ := stmts_scoped f
    exact ⟨fun p hpi hinit => decl_step f p hpi hinit ihs,
           fun p hpi hinit => stmt_step f p hpi hinit ihb,
           fun p hpi hinit => blockStmt_step f p hpi hinit ihl,
           fun p hpi hinit => blockLoop_step f p hpi hinit ihd ihl⟩

theorem topLoop_scoped : ∀ (f : Nat) (p : PState), PI p → AllInit p → wp (topLoop f) (QSs p) p
  | 0, p, hpi, hinit => by
    unfold topLoop
    rw [wp_bind]
    apply wp_spec setStuck_spec hpi (Ext.refl p)
    intro _ p1 hpi1 he1 _ hst
    rw [wp_pure]
    exact ⟨hpi1, he1.toS, by intro l hl; rw [he1.locals] at hl; exact hinit l hl, fun hne => by rw [hne.2] at hst; cases hst⟩
  | f+1, p, hpi, hinit => by
    unfold topLoop
    rw [wp_bind]
    apply wp_pres matchEnd_presR hpi (Ext.refl p)
    intro b p1 hpi1 he1 _
    have hinit1 : AllInit p1 := by intro l hl; rw [he1.locals] at hl; exact hinit l hl
    split
    · rw [wp_pure]; exact QSs_nil hpi1 he1 hinit
    · rw [wp_bind]
      apply wp_mono ((stmts_scoped f).1 p1 hpi1 hinit1)
      intro s p2 hq2
      have hq2' : QS p s p2 := by
        refine ⟨hq2.1, he1.toS.trans hq2.2.1, hq2.2.2.1, fun hne => ?_⟩
        have := hq2.2.2.2 hne
        rw [he1.locals, he1.depth] at this
        exact this
      rw [wp_bind]
      apply wp_pres (match_presR _) hq2.1 (Ext.refl p2)
      intro _ p3 hpi3 he23 _
      have hinit3 : AllInit p3 := by intro l hl; rw [he23.locals] at hl; exact hq2.2.2.1 l hl
      rw [wp_bind]
      apply wp_mono (topLoop_scoped f p3 hpi3 hinit3)
      intro rest p4 hq4
      rw [wp_pure]
      exact QSs_cons hq2' he23 hq4

/-- **The parser builds well-scoped programs**: whenever it accepts (and its step budget
was not exhausted), the tree it returns passes `ScP` with the constant pool it returns. -/
theorem parse_scoped (toks : List Token) (lfs : List Nat)
    (hok : (parseTokens toks lfs).ok = true) (hns : (parseTokens toks lfs).stuck = false) :
    ScP (parseTokens toks lfs).consts (parseTokens toks lfs).prog := by
  have hinit0 : PI ({ rest := toks, lfs := lfs } : PState) := by
    refine ⟨?_, ?_, ?_, ?_, ?_⟩
    · intro n i h; simp at h
    · intro h; exact Bool.noConfusion h
    · intro l h; simp at h
    · intro _ _ l h; simp at h
    · simp
  have hall0 : AllInit ({ rest := toks, lfs := lfs } : PState) := by intro l h; simp at h
  have hrun : wp (do advance; let body ← topLoop (4 * toks.length + 16); let p ← get
                     return ({ body, npop := p.locals.length, endPos := p.prev.pos } : Program))
      (fun prog p' => NE p' → ScP p'.consts.toList prog) { rest := toks, lfs := lfs } := by
    rw [wp_bind]
    apply wp_pres advance_presR hinit0 (Ext.refl _)
    intro _ p1 hpi1 he1 _
    have hinit1 : AllInit p1 := by intro l hl; rw [he1.locals] at hl; exact hall0 l hl
    rw [wp_bind]
    apply wp_mono (topLoop_scoped _ p1 hpi1 hinit1)
    intro body p2 hq2
    rw [wp_bind, wp_get, wp_pure]
    intro hne
    have := hq2.2.2.2 hne
    rw [he1.locals, he1.depth] at this
    exact this
  unfold wp at hrun
  simp only [parseTokens, StateT.run] at hok hns ⊢
  generalize ((do advance; let body ← topLoop (4 * toks.length + 16); let p ← get
                  return ({ body, npop := p.locals.length, endPos := p.prev.pos } : Program)) : PM Program)
      { rest := toks, lfs := lfs } = res at hrun hok hns ⊢
  obtain ⟨prog, pst⟩ := res
  simp only at hrun hok hns ⊢
  exact hrun ⟨by simpa using hok, hns⟩

/-- **Every accepted program runs to a result or a runtime error.**  For every input: if
the parser model accepts it (without exhausting its step budget) then, for every large
enough step budget, the VM on the compiled program ends with `ok` or with a runtime error —
it does not panic, does not end in the internal non-empty-stack error and does not run out
of steps.  (The bound on the constant pool only says the pool fits 64-bit indices.) -/
theorem every_accepted_program_runs (name input : Bytes)
    (hok : (parseTokens (lexWhole input) (newlinesFrom 0 input)).ok = true)
    (hns : (parseTokens (lexWhole input) (newlinesFrom 0 input)).stuck = false)
    (hK : (parseTokens (lexWhole input) (newlinesFrom 0 input)).consts.length < 2 ^ 64) :
    ∃ n, ∀ m, n ≤ m →
      (∃ vm', execute (parseWhole name input).prog false m = .done vm' .ok)
      ∨ (∃ vm' text, execute (parseWhole name input).prog false m = .done vm' (.rt text)) := by
  obtain ⟨hcode, hpos, hconsts⟩ := C01.parsed_is_compiled name input hok
  have hscp := parse_scoped _ _ hok hns
  have hnp : (parseTokens (lexWhole input) (newlinesFrom 0 input)).prog.npop ≤ 1024 :=
    ScSs_bound _ _ false 0 _ hscp (by omega)
  have hwf := ScSs_WF _ hK _ false 0 _ hscp (by omega)
  obtain ⟨n, hn⟩ := C01.compile_correct_prog (parseWhole name input).prog
    (parseTokens (lexWhole input) (newlinesFrom 0 input)).prog hwf (by omega) hcode hpos
  have hprog := evalP_progress (parseWhole name input).prog
    (parseTokens (lexWhole input) (newlinesFrom 0 input)).prog (by rw [hconsts]; exact hscp)
  refine ⟨n, fun m hm => ?_⟩
  have h := hn m hm
  cases hr : evalP (parseWhole name input).prog (parseTokens (lexWhole input) (newlinesFrom 0 input)).prog with
  | wrong => exact absurd hr hprog.1
  | err pos msg =>
    rw [hr] at h
    obtain ⟨vm', hrun⟩ := h
    exact .inr ⟨vm', _, hrun⟩
  | ok s =>
    rw [hr] at h
    obtain ⟨vm', _, hrun⟩ := h
    have hemp := hprog.2 s hr
    rw [hemp] at hrun
    exact .inl ⟨vm', by simpa using hrun⟩

end Bclv
