import Bclv.Model.Utf8
/-!
# Facts about the UTF-8 decoder model used by the chunk-independence proof
-/
namespace Bclv

theorem utf8First_size (b : UInt8) (sz : Nat) (lo hi : UInt8) (h : utf8First b = some (sz, lo, hi)) : sz = 2 ∨ sz = 3 ∨ sz = 4 := by
  unfold utf8First at h
  repeat' split at h
  all_goals simp at h
  all_goals omega

theorem decodeRune_width_le : ∀ (b : Bytes), (decodeRune b).2 ≤ b.length := by
  intro b
  unfold decodeRune
  repeat' split
  all_goals simp
  all_goals omega

theorem decodeRune_width_zero (b : Bytes) : (decodeRune b).2 = 0 ↔ b = [] := by
  constructor
  · intro h
    cases b with
    | nil => rfl
    | cons x xs =>
      exfalso
      unfold decodeRune at h
      repeat' split at h
      all_goals simp_all
  · intro h; subst h; rfl


theorem t2 (b0 b1 : UInt8) (b : Bytes) (hf : fullRune [b0, b1] = true) : decodeRune (b0 :: b1 :: b) = decodeRune [b0, b1] := by
    cases hu : utf8First b0 with
    | none => simp only [decodeRune, hu]
    | some p =>
      obtain ⟨sz, lo, hi⟩ := p
      have hsz := utf8First_size b0 sz lo hi hu
      simp only [fullRune, hu, List.length_cons, List.length_nil] at hf
      simp only [decodeRune, hu, List.length_cons, List.length_nil]
      rcases hsz with rfl | rfl | rfl
      · simp; intros; omega
      · simp at hf
        simp
        intro _ h2 h3
        exfalso
        rcases hf with h | h
        · exact absurd (UInt8.lt_of_lt_of_le h h2) (UInt8.lt_irrefl _)
        · exact absurd (UInt8.lt_of_lt_of_le h h3) (UInt8.lt_irrefl _)
      · simp at hf
        simp
        intro _ h2 h3
        exfalso
        rcases hf with h | h
        · exact absurd (UInt8.lt_of_lt_of_le h h2) (UInt8.lt_irrefl _)
        · exact absurd (UInt8.lt_of_lt_of_le h h3) (UInt8.lt_irrefl _)
theorem t3 (b0 b1 b2 : UInt8) (b : Bytes) (hf : fullRune [b0, b1, b2] = true) : decodeRune (b0 :: b1 :: b2 :: b) = decodeRune [b0, b1, b2] := by
    cases hu : utf8First b0 with
    | none => simp only [decodeRune, hu]
    | some p =>
      obtain ⟨sz, lo, hi⟩ := p
      have hsz := utf8First_size b0 sz lo hi hu
      simp only [fullRune, hu, List.length_cons, List.length_nil] at hf
      simp only [decodeRune, hu, List.length_cons, List.length_nil]
      rcases hsz with rfl | rfl | rfl
      · simp; intro h; omega
      · simp; intro h; omega
      · simp at hf
        simp
        intro _ h2 h3 h4
        exfalso
        rcases hf with (h | h) | h
        · exact absurd (UInt8.lt_of_lt_of_le h h2) (UInt8.lt_irrefl _)
        · exact absurd (UInt8.lt_of_lt_of_le h h3) (UInt8.lt_irrefl _)
        · rw [h4] at h; cases h

theorem t4 (b0 b1 b2 b3 : UInt8) (rest b : Bytes) : decodeRune (b0 :: b1 :: b2 :: b3 :: (rest ++ b)) = decodeRune (b0 :: b1 :: b2 :: b3 :: rest) := by
    cases hu : utf8First b0 with
    | none => simp only [decodeRune, hu]
    | some p =>
      obtain ⟨sz, lo, hi⟩ := p
      have hsz := utf8First_size b0 sz lo hi hu
      simp only [decodeRune, hu, List.length_cons, List.length_append]
      rcases hsz with rfl | rfl | rfl
      · have h1 : ¬ (rest.length + b.length + 1 + 1 + 1 + 1 < 2) := by omega
        have h2 : ¬ (rest.length + 1 + 1 + 1 + 1 < 2) := by omega
        simp [h1, h2]
      · have h1 : ¬ (rest.length + b.length + 1 + 1 + 1 + 1 < 3) := by omega
        have h2 : ¬ (rest.length + 1 + 1 + 1 + 1 < 3) := by omega
        simp [h1, h2]
      · have h1 : ¬ (rest.length + b.length + 1 + 1 + 1 + 1 < 4) := by omega
        have h2 : ¬ (rest.length + 1 + 1 + 1 + 1 < 4) := by omega
        simp [h1, h2]

theorem t1 (b0 : UInt8) (b : Bytes) (hf : fullRune [b0] = true) : decodeRune (b0 :: b) = decodeRune [b0] := by
  cases hu : utf8First b0 with
  | none => simp only [decodeRune, hu]
  | some p =>
    obtain ⟨sz, lo, hi⟩ := p
    have hsz := utf8First_size b0 sz lo hi hu
    simp only [fullRune, hu] at hf
    simp at hf
    omega

/-- **A complete rune at the front decides the decoder**: what follows is not looked at. -/
theorem decodeRune_append_full (a b : Bytes) (hf : fullRune a = true) : decodeRune (a ++ b) = decodeRune a := by
  match a, hf with
  | [], hf => simp [fullRune] at hf
  | [b0], hf => exact t1 b0 b hf
  | [b0, b1], hf => exact t2 b0 b1 b hf
  | [b0, b1, b2], hf => exact t3 b0 b1 b2 b hf
  | b0 :: b1 :: b2 :: b3 :: rest, _ => exact t4 b0 b1 b2 b3 rest b

end Bclv
