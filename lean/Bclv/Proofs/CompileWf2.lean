import Bclv.Proofs.CompileWf1
namespace Bclv

theorem ok_defblock {p : Prog} {M : Nat → Option St} {pre post : PCode} {x y pos : Nat} {s : St}
    (hpl : Placed p pre (atPos pos (Op.DEFBLOCK.toByte :: (uvEnc x ++ uvEnc y))) post)
    (hx : isStrAt p.consts x) (hy : isStrAt p.consts y) (hK : p.consts.length < 2 ^ 64)
    (hex : M (pre.length + 1 + (uvEnc x).length + (uvEnc y).length) = some { s with b := s.b + 1 }) :
    EntryOK p M pre.length s := by
  have hb := hpl.bytes.1
  have hx64 : x < 2 ^ 64 := by
    obtain ⟨v, hv⟩ := hx; have := (List.getElem?_eq_some_iff.mp hv).1; omega
  have hy64 : y < 2 ^ 64 := by
    obtain ⟨v, hv⟩ := hy; have := (List.getElem?_eq_some_iff.mp hv).1; omega
  have hd := decode2 (A := pre.map Prod.fst) (B := post.map Prod.fst) x y hx64 hy64
    (by rw [hb]; simp [atPos_fst])
  simp only [List.length_map] at hd
  refine ⟨_, [(pre.length + 1 + (uvEnc x).length + (uvEnc y).length, { s with b := s.b + 1 })], hd, ?_, ?_, ?_⟩
  · have := hpl.len; simp [atPos] at this ⊢; omega
  · simp only [flow, isStrConst_of hx, isStrConst_of hy, Bool.and_self, if_true]
  · intro e he; simp only [List.mem_singleton] at he; subst he; exact hex

theorem ok_bind {p : Prog} {M : Nat → Option St} {pre post : PCode} {x pos : Nat} {opt : UInt8} {s : St}
    (hpl : Placed p pre (atPos pos (Op.BIND.toByte :: (uvEnc x ++ [opt]))) post)
    (hx : isStrAt p.consts x) (hK : p.consts.length < 2 ^ 64)
    (hex : M (pre.length + 1 + (uvEnc x).length + 1) = some s) :
    EntryOK p M pre.length s := by
  have hb := hpl.bytes.1
  have hx64 : x < 2 ^ 64 := by
    obtain ⟨v, hv⟩ := hx; have := (List.getElem?_eq_some_iff.mp hv).1; omega
  have hd := decode4 (A := pre.map Prod.fst) (B := post.map Prod.fst) x opt hx64
    (by rw [hb]; simp [atPos_fst])
  simp only [List.length_map] at hd
  refine ⟨_, [(pre.length + 1 + (uvEnc x).length + 1, s)], hd, ?_, ?_, ?_⟩
  · have := hpl.len; simp [atPos] at this ⊢; omega
  · simp only [flow, isStrConst_of hx, if_true]
  · intro e he; simp only [List.mem_singleton] at he; subst he; exact hex

def popMap (n o : Nat) (s : St) : DepthMap := if n = 0 then [] else [(o, s)]

theorem popLen (n pos : Nat) : (popNCode n pos).length = (popNCode n 0).length := by
  rw [popNCode_length, popNCode_length]

theorem popN_ok {p : Prog} {M : Nat → Option St} {pre post : PCode} {n pos : Nat} {s : St}
    (hpl : Placed p pre (popNCode n pos) post) (hn : n ≤ s.d) (hn64 : n < 2 ^ 64)
    (hex : M (pre.length + (popNCode n 0).length) = some { s with d := s.d - n }) :
    ∀ x ∈ popMap n pre.length s, EntryOK p M x.1 x.2 := by
  intro x hx
  unfold popMap at hx
  by_cases h0 : n = 0
  · simp [h0] at hx
  · simp only [h0, if_false, List.mem_singleton] at hx
    subst hx
    by_cases h1 : n = 1
    · subst h1
      simp only [popNCode] at hpl hex
      exact ok_pop hpl hn (by simpa [opAt] using hex)
    · simp only [popNCode, h0, h1, if_false] at hpl hex
      refine ok_op1 hpl rfl hn64 (succs := [(pre.length + 1 + (uvEnc n).length, { s with d := s.d - n })]) ?_ ?_
      · simp only [flow, hn, if_true]
      · intro e he; simp only [List.mem_singleton] at he; subst he
        rw [← hex]; congr 1; simp [opArg, atPos]; omega

def exitS : Stmt → St → St
  | .var _ _, s => s.push
  | _, s => s

mutual
def mapS : Stmt → Nat → St → DepthMap
  | .var (some e) _, o, s => mapE e o s
  | .var none _, o, s => [(o, s)]
  | .print e _, o, s => mapE e o s ++ [(o + sizeE e, s.push)]
  | .eval e _, o, s => mapE e o s ++ [(o + sizeE e, s.push)]
  | .block ti ni _ body npop _, o, s =>
    (o, s) :: (mapSs body (o + 1 + (uvEnc ti).length + (uvEnc ni).length) { s with b := s.b + 1 }
      ++ (popMap npop (o + 1 + (uvEnc ti).length + (uvEnc ni).length + (compileSs body).length)
            { d := s.d + npop, b := s.b + 1 }
        ++ [(o + 1 + (uvEnc ti).length + (uvEnc ni).length + (compileSs body).length + (popNCode npop 0).length,
              { s with b := s.b + 1 })]))
  | .bind _ _ _, o, s => [(o, s)]
  | .bad, _, _ => []
def mapSs : Stmts → Nat → St → DepthMap
  | .nil, _, _ => []
  | .cons st rest, o, s => mapS st o s ++ mapSs rest (o + (compileS st).length) (exitS st s)
end

def mapP (t : Program) : DepthMap :=
  mapSs t.body 0 ⟨0, 0⟩ ++ (popMap t.npop (compileSs t.body).length ⟨t.npop, 0⟩ ++
    [((compileSs t.body).length + (popNCode t.npop 0).length, ⟨0, 0⟩)])

theorem mapS_head (K : List Value) : ∀ (st : Stmt) (B : Bool) (L L' : Nat) (o : Nat) (s : St), ScS K B L st L' →
    (o, s) ∈ mapS st o s
  | .var (some e) _, B, L, L', o, s, h => by simp only [ScS] at h; simp only [mapS]; exact mapE_head K L B e o s h.1
  | .var none _, _, _, _, o, s, _ => by simp [mapS]
  | .print e _, B, L, L', o, s, h => by
    simp only [ScS] at h; simp only [mapS]; exact List.mem_append_left _ (mapE_head K L B e o s h.1)
  | .eval e _, B, L, L', o, s, h => by
    simp only [ScS] at h; simp only [mapS]; exact List.mem_append_left _ (mapE_head K L B e o s h.1)
  | .block _ _ _ _ _ _, _, _, _, o, s, _ => by simp [mapS]
  | .bind _ _ _, _, _, _, o, s, _ => by simp [mapS]
  | .bad, _, _, _, _, _, h => by simp [ScS] at h

theorem exitS_eq (K : List Value) : ∀ (st : Stmt) (B : Bool) (L L' : Nat) (s : St), ScS K B L st L' → s.d = L →
    exitS st s = { s with d := L' }
  | .var (some e) _, _, _, _, s, h, hd => by simp only [ScS] at h; simp only [exitS, St.push]; rw [h.2.1, hd]
  | .var none _, _, _, _, s, h, hd => by simp only [ScS] at h; simp only [exitS, St.push]; rw [h.1, hd]
  | .print e _, _, _, _, s, h, hd => by simp only [ScS] at h; simp only [exitS]; rw [h.2, ← hd]
  | .eval e _, _, _, _, s, h, hd => by simp only [ScS] at h; simp only [exitS]; rw [h.2, ← hd]
  | .block _ _ _ _ _ _, _, _, _, s, h, hd => by simp only [ScS] at h; simp only [exitS]; rw [h.2.2.1, ← hd]
  | .bind _ _ _, _, _, _, s, h, hd => by simp only [ScS] at h; simp only [exitS]; rw [h.2, ← hd]
  | .bad, _, _, _, _, h, _ => by simp [ScS] at h

/-- the lookup carries the entry state of a statement list at its first byte -/
theorem entrySs (K : List Value) (M : Nat → Option St) : ∀ (ss : Stmts) (B : Bool) (L L' : Nat) (o : Nat) (s : St),
    ScSs K B L ss L' → s.d = L → (∀ x ∈ mapSs ss o s, M x.1 = some x.2) →
    M (o + (compileSs ss).length) = some { s with d := L' } → M o = some s
  | .nil, _, _, _, o, s, h, hd, _, hex => by
    simp only [ScSs] at h
    simp only [compileSs, List.length_nil, Nat.add_zero] at hex
    rw [hex, h, ← hd]
  | .cons st rest, B, L, L', o, s, h, _, hM, _ => by
    simp only [ScSs] at h
    obtain ⟨L1, h1, _⟩ := h
    exact hM (o, s) (by simp only [mapSs]; exact List.mem_append_left _ (mapS_head K st B L L1 o s h1))

theorem mem_cons3 {α} {x a : α} {l : List α} : x ∈ a :: l ↔ x = a ∨ x ∈ l := List.mem_cons

mutual
theorem mapS_ok (p : Prog) (M : Nat → Option St) (hK : p.consts.length < 2 ^ 64) :
    ∀ (st : Stmt) (B : Bool) (L L' : Nat) (pre post : PCode) (s : St),
      Placed p pre (compileS st) post → ScS p.consts B L st L' → s.d = L → L ≤ 1024 → (B = true → 1 ≤ s.b) →
      (∀ x ∈ mapS st pre.length s, M x.1 = some x.2) →
      M (pre.length + (compileS st).length) = some (exitS st s) →
      ∀ x ∈ mapS st pre.length s, EntryOK p M x.1 x.2
  | .var (some e) _, B, L, L', pre, post, s, hpl, hsc, hd, hL, hb, hM, hex => by
    simp only [compileS] at hpl hex
    simp only [ScS] at hsc
    simp only [mapS] at hM ⊢
    rw [compileE_length] at hex
    exact mapE_ok p M L B hK hL e pre post s hpl hsc.1 (by omega) hb hM hex
  | .var none pos, B, L, L', pre, post, s, hpl, hsc, hd, hL, hb, hM, hex => by
    simp only [compileS] at hpl hex
    simp only [mapS, List.mem_singleton]
    intro x hx; subst hx
    refine ok_op0 hpl rfl (succs := [(pre.length + 1, s.push)]) rfl ?_
    intro e he; simp only [List.mem_singleton] at he; subst he
    simpa [opAt, exitS] using hex
  | .print e pos, B, L, L', pre, post, s, hpl, hsc, hd, hL, hb, hM, hex => by
    simp only [compileS] at hpl hex
    simp only [ScS] at hsc
    simp only [mapS, List.mem_append, List.mem_singleton] at hM ⊢
    have hla : (pre ++ compileE e).length = pre.length + sizeE e := by simp [compileE_length]
    intro x hx
    rcases hx with hx | hx
    · exact mapE_ok p M L B hK hL e pre _ s hpl.left hsc.1 (by omega) hb (fun y hy => hM y (.inl hy))
        (hM (_, _) (.inr rfl)) x hx
    · subst hx
      rw [← hla]
      refine ok_op0 hpl.right rfl (succs := [((pre ++ compileE e).length + 1, s)]) ?_ ?_
      · have : 1 ≤ s.push.d := by rw [push_d]; omega
        simp only [flow, this, if_true, push_pop]
      · intro y hy; simp only [List.mem_singleton] at hy; subst hy
        simp only [exitS] at hex
        rw [← hex]; congr 1; simp [compileE_length, opAt]; omega
  | .eval e pos, B, L, L', pre, post, s, hpl, hsc, hd, hL, hb, hM, hex => by
    simp only [compileS] at hpl hex
    simp only [ScS] at hsc
    simp only [mapS, List.mem_append, List.mem_singleton] at hM ⊢
    have hla : (pre ++ compileE e).length = pre.length + sizeE e := by simp [compileE_length]
    intro x hx
    rcases hx with hx | hx
    · exact mapE_ok p M L B hK hL e pre _ s hpl.left hsc.1 (by omega) hb (fun y hy => hM y (.inl hy))
        (hM (_, _) (.inr rfl)) x hx
    · subst hx
      rw [← hla]
      refine ok_pop hpl.right (by rw [push_d]; omega) ?_
      rw [push_pop]
      simp only [exitS] at hex
      rw [← hex]; congr 1; simp [compileE_length, opAt]; omega
  | .block ti ni openPos body npop closePos, B, L, L', pre, post, s, hpl, hsc, hd, hL, hb, hM, hex => by
    simp only [compileS] at hpl hex
    simp only [ScS] at hsc
    obtain ⟨hti, hni, _, hbody⟩ := hsc
    simp only [mapS, List.mem_cons, List.mem_append, List.not_mem_nil, or_false] at hM ⊢
    have hnp : L + npop ≤ 1024 := ScSs_bound _ body true L (L + npop) hbody hL
    -- lengths
    have hlh : (atPos openPos (Op.DEFBLOCK.toByte :: (uvEnc ti ++ uvEnc ni))).length = 1 + (uvEnc ti).length + (uvEnc ni).length := by
      simp [atPos]; omega
    have hl1 : (pre ++ atPos openPos (Op.DEFBLOCK.toByte :: (uvEnc ti ++ uvEnc ni))).length
        = pre.length + 1 + (uvEnc ti).length + (uvEnc ni).length := by
      rw [List.length_append, hlh]; omega
    have hl2 : (pre ++ (atPos openPos (Op.DEFBLOCK.toByte :: (uvEnc ti ++ uvEnc ni)) ++ compileSs body)).length
        = pre.length + 1 + (uvEnc ti).length + (uvEnc ni).length + (compileSs body).length := by
      rw [List.length_append, List.length_append, hlh]; omega
    have hl3 : (pre ++ (atPos openPos (Op.DEFBLOCK.toByte :: (uvEnc ti ++ uvEnc ni)) ++ compileSs body ++ popNCode npop closePos)).length
        = pre.length + 1 + (uvEnc ti).length + (uvEnc ni).length + (compileSs body).length + (popNCode npop 0).length := by
      rw [List.length_append, List.length_append, List.length_append, hlh, popLen npop closePos]; omega
    -- placements
    have hph := hpl.left.left.left
    have hpb := hpl.left.left.right
    have hpp := hpl.left.right
    have hpe := hpl.right
    -- the lookups at the internal boundaries
    have hMe : M (pre.length + 1 + (uvEnc ti).length + (uvEnc ni).length + (compileSs body).length + (popNCode npop 0).length)
        = some { s with b := s.b + 1 } := hM (_, _) (.inr (.inr (.inr rfl)))
    have hMp : M (pre.length + 1 + (uvEnc ti).length + (uvEnc ni).length + (compileSs body).length)
        = some { d := s.d + npop, b := s.b + 1 } := by
      by_cases h0 : npop = 0
      · have : (popNCode npop 0).length = 0 := by rw [popNCode_length]; simp [h0]
        rw [this, Nat.add_zero] at hMe
        rw [hMe, h0]; rfl
      · exact hM (_, _) (.inr (.inr (.inl (by simp [popMap, h0]))))
    have hMb : M (pre.length + 1 + (uvEnc ti).length + (uvEnc ni).length) = some { s with b := s.b + 1 } :=
      entrySs p.consts M body true L (L + npop) _ { s with b := s.b + 1 } hbody hd
        (fun y hy => hM y (.inr (.inl hy))) (by rw [hMp, hd])
    intro x hx
    rcases hx with hx | hx | hx | hx
    · subst hx
      exact ok_defblock hph hti hni hK hMb
    · have := mapSs_ok p M hK body true L (L + npop) _ _ { s with b := s.b + 1 } hpb hbody hd hL
        (fun _ => by simp) (by rw [hl1]; exact fun y hy => hM y (.inr (.inl hy)))
        (by rw [hl1, hMp, hd]) x (by rw [hl1]; exact hx)
      exact this
    · have := popN_ok (M := M) (s := { d := s.d + npop, b := s.b + 1 }) hpp (by simp) (by omega)
        (by rw [hl2, hMe]; simp) x (by rw [hl2]; exact hx)
      exact this
    · subst hx
      rw [← hl3]
      refine ok_op0 hpe rfl (succs := [((pre ++ (atPos openPos (Op.DEFBLOCK.toByte :: (uvEnc ti ++ uvEnc ni)) ++ compileSs body ++ popNCode npop closePos)).length + 1, s)]) ?_ ?_
      · simp only [flow]; simp
      · intro y hy; simp only [List.mem_singleton] at hy; subst hy
        simp only [exitS] at hex
        rw [← hex]; congr 1
        simp only [List.length_append, hlh, popLen npop closePos, opAt, List.length_cons, List.length_nil]
        omega
  | .bind ti opt pos, B, L, L', pre, post, s, hpl, hsc, hd, hL, hb, hM, hex => by
    simp only [compileS] at hpl hex
    simp only [ScS] at hsc
    simp only [mapS, List.mem_singleton]
    intro x hx; subst hx
    refine ok_bind hpl hsc.1 hK ?_
    simp only [exitS] at hex
    rw [← hex]; congr 1; simp [atPos]; omega
  | .bad, _, _, _, _, _, _, _, hsc, _, _, _, _, _ => by simp [ScS] at hsc
theorem mapSs_ok (p : Prog) (M : Nat → Option St) (hK : p.consts.length < 2 ^ 64) :
    ∀ (ss : Stmts) (B : Bool) (L L' : Nat) (pre post : PCode) (s : St),
      Placed p pre (compileSs ss) post → ScSs p.consts B L ss L' → s.d = L → L ≤ 1024 → (B = true → 1 ≤ s.b) →
      (∀ x ∈ mapSs ss pre.length s, M x.1 = some x.2) →
      M (pre.length + (compileSs ss).length) = some { s with d := L' } →
      ∀ x ∈ mapSs ss pre.length s, EntryOK p M x.1 x.2
  | .nil, _, _, _, _, _, _, _, _, _, _, _, _, _ => by simp [mapSs]
  | .cons st rest, B, L, L', pre, post, s, hpl, hsc, hd, hL, hb, hM, hex => by
    simp only [compileSs] at hpl hex
    simp only [ScSs] at hsc
    obtain ⟨L1, h1, h2⟩ := hsc
    simp only [mapSs, List.mem_append] at hM ⊢
    have hL1 : L1 ≤ 1024 := ScS_bound _ st B L L1 h1 hL
    have hes := exitS_eq p.consts st B L L1 s h1 hd
    have hl : (pre ++ compileS st).length = pre.length + (compileS st).length := by simp
    have hex2 : M (pre.length + (compileS st).length + (compileSs rest).length) = some { (exitS st s) with d := L' } := by
      rw [hes]
      rw [← hex]; congr 1; simp; omega
    have hMr : M (pre.length + (compileS st).length) = some (exitS st s) :=
      entrySs p.consts M rest B L1 L' _ (exitS st s) h2 (by rw [hes]) (fun y hy => hM y (.inr hy)) hex2
    intro x hx
    rcases hx with hx | hx
    · exact mapS_ok p M hK st B L L1 pre _ s hpl.left h1 hd hL hb (fun y hy => hM y (.inl hy)) hMr x hx
    · have := mapSs_ok p M hK rest B L1 L' (pre ++ compileS st) post (exitS st s) hpl.right h2 (by rw [hes]) hL1
        (by rw [hes]; exact hb) (by rw [hl]; exact fun y hy => hM y (.inr hy)) (by rw [hl]; exact hex2)
        x (by rw [hl]; exact hx)
      exact this
end

end Bclv
