import Bclv.Proofs.Leaves1
import Bclv.Proofs.Group3
import Bclv.Proofs.Group4
import Bclv.Proofs.ParserErase4
import Bclv.Props.C02
/-!
# The leaves of statements and programs (C20)

`Leaves1` says what stands at the leaves of an expression tree.  Here the same for statements:
the constants chosen for block types, block names and bind statements, the number of locals a
block pops, and what declarations do to the locals.  `runS sh ts s` runs a statement of shape
`sh` over the *core tokens* `ts` — kind and text of every token other than `(`, `)` and `;` —
from the state `s`: it returns the resolved items of the statement in order, the core tokens left
over and the new state; it is written by recursion on the shape and reads nothing but kinds and
texts.  `stmts_leaves`: whatever the statement parser consumes without reporting an error, the
resolved items of the tree it returns and the state it ends in are `runS` of the tree's shape on
the core tokens consumed.  Hence two accepted texts with the same shape and the same core tokens
have the same program tree up to positions and the same constant pool.
-/
namespace Bclv

abbrev CT := TokType × Bytes

def isCore (t : TokType) : Bool := !(t == .LPAREN || t == .RPAREN || t == .SEMICOLON)

/-- kind and text of every token other than parentheses and semicolons -/
def coreOf (sk : List Token) : List CT := (sk.filter (fun t => isCore t.typ)).map (fun t => (t.typ, t.val))

@[simp] theorem coreOf_nil : coreOf [] = [] := rfl
@[simp] theorem coreOf_append (a b : List Token) : coreOf (a ++ b) = coreOf a ++ coreOf b := by simp [coreOf]
theorem coreOf_cons_no (t : Token) (r : List Token) (h : isCore t.typ = false) : coreOf (t :: r) = coreOf r := by
  simp [coreOf, h]
theorem coreOf_cons_yes (t : Token) (r : List Token) (h : isCore t.typ = true) :
    coreOf (t :: r) = (t.typ, t.val) :: coreOf r := by
  simp [coreOf, h]

def atomsCT (l : List CT) : List CT := l.filter (fun c => isAtomB c.1)

theorem atom_is_core (t : TokType) (h : isAtomB t = true) : isCore t = true := by
  cases t <;> simp [isAtomB] at h <;> rfl

theorem atomsOf_eq_atomsCT (sk : List Token) : atomsOf sk = atomsCT (coreOf sk) := by
  induction sk with
  | nil => rfl
  | cons t r ih =>
    by_cases ha : isAtomB t.typ = true
    · rw [atomsOf_cons_yes _ _ ha, coreOf_cons_yes _ _ (atom_is_core _ ha), ih]
      simp [atomsCT, ha]
    · have ha' : isAtomB t.typ = false := by simpa using ha
      rw [atomsOf_cons_no _ _ ha', ih]
      by_cases hc : isCore t.typ = true
      · rw [coreOf_cons_yes _ _ hc]; simp [atomsCT, ha']
      · have hc' : isCore t.typ = false := by simpa using hc
        rw [coreOf_cons_no _ _ hc']

/-- how many core tokens an expression of a shape has -/
def Sh.cw : Sh → Nat
  | .atom => 1
  | .un _ a => 1 + a.cw
  | .bin _ a b => a.cw + 1 + b.cw
  | .asg a => 2 + a.cw
  | .bad => 0

def coreT (ts : List TokType) : List TokType := ts.filter isCore

theorem coreOf_length (sk : List Token) : (coreOf sk).length = (coreT (typs sk)).length := by
  induction sk with
  | nil => rfl
  | cons t r ih =>
    by_cases hc : isCore t.typ = true
    · rw [coreOf_cons_yes _ _ hc]; simp [coreT, typs, hc] at ih ⊢; exact ih
    · have hc' : isCore t.typ = false := by simpa using hc
      rw [coreOf_cons_no _ _ hc']; simp [coreT, typs, hc'] at ih ⊢; exact ih

theorem infix_is_core (o : TokType) (h : isInfix o) : isCore o = true := by
  unfold isInfix at h; cases o <;> simp [getRule] at h <;> rfl
theorem preop_is_core (o : TokType) (h : isPreOp o) : isCore o = true := by
  rcases h with h | h | h <;> rw [h] <;> rfl
theorem atomT_is_core (t : TokType) (h : isAtom t) : isCore t = true := by
  rcases h with h | h | h | h | h | h | h <;> rw [h] <;> rfl

/-- a reading has as many core tokens as its shape says -/
theorem rd_cw {n : Nat} {s : Sh} {ts : List TokType} {k : Nat} (h : Rd n s ts k) : (coreT ts).length = s.cw := by
  induction h with
  | atom n t k ht => simp [coreT, atomT_is_core t ht, Sh.cw]
  | paren n s ts k _ ih =>
    have : coreT (.LPAREN :: (ts ++ [.RPAREN])) = coreT ts := by simp [coreT, isCore]
    rw [this]; exact ih
  | un n o s ts k ho _ _ ih =>
    simp [coreT, preop_is_core o ho, Sh.cw] at ih ⊢; omega
  | bin n o a b ta tb k ho _ _ _ _ iha ihb =>
    simp [coreT, infix_is_core o ho, Sh.cw, List.filter_append] at iha ihb ⊢; omega
  | asg s ts k _ _ ih =>
    simp [coreT, isCore, Sh.cw] at ih ⊢; omega

/-- an expression of shape `sh` over the core tokens `ts` -/
def runE (sh : Sh) (ts : List CT) (s : ES) : List RAtom × List CT × ES :=
  let r := atomsE (atomsCT (ts.take sh.cw)) s
  (r.1, ts.drop sh.cw, r.2)

/-- what `expr` consumes, as a run over its core tokens -/
theorem expr_runE (f : Nat) (p : PState) (hi : GInv p) :
    wp (expr f) (fun e p' => GM p p' ∧ (NE p' → ∃ sk, Skips sk p p' ∧ Rd precAssign (shape e) (typs sk) 0 ∧
      ∀ rest, runE (shape e) (coreOf sk ++ rest) p.E = (ratoms e, rest, p'.E))) p := by
  have h1 := expr_rd0 f p hi
  have h2 := expr_leaves f p hi
  refine ⟨h1.1, fun hne => ?_⟩
  obtain ⟨sk, hs, hr⟩ := h1.2 hne
  obtain ⟨sk', hs', hl⟩ := h2.2 hne
  have : sk' = sk := by
    unfold Skips at hs hs'
    rw [hs] at hs'
    exact (List.append_cancel_right hs').symm
  subst this
  refine ⟨sk', hs, hr, fun rest => ?_⟩
  have hlen : (coreOf sk').length = (shape (expr f p).1).cw := by rw [coreOf_length, rd_cw hr]
  unfold runE
  simp only
  rw [List.take_append_of_le_length (by omega), List.take_of_length_le (by omega),
      List.drop_append_of_le_length (by omega), List.drop_of_length_le (by omega), ← atomsOf_eq_atomsCT]
  unfold Leaves at hl
  rw [hl]; simp

/-! ## what declarations and scopes do to `ES` -/

def declareE (name : Bytes) (s : ES) : ES := { s with locals := { name, depth := -1 } :: s.locals }
def markInitE (s : ES) : ES :=
  match s.locals with
  | l :: ls => { s with locals := { l with depth := s.depth } :: ls }
  | [] => s
def beginE (s : ES) : ES := { s with depth := s.depth + 1 }
def endE (s : ES) : Nat × ES :=
  let d := s.depth - 1
  let gone := s.locals.takeWhile (fun l => l.depth > (d : Int))
  (gone.length, { s with depth := d, locals := s.locals.drop gone.length })

theorem markInitialized_E (p : PState) : (markInitialized p).2.E = markInitE p.E := by
  unfold markInitialized markInitE
  simp only [modify, modifyGet, MonadStateOf.modifyGet, StateT.modifyGet, pure, PState.E]
  cases h : p.locals with
  | nil => simp only [h]
  | cons l ls => simp only []

theorem beginScope_E (p : PState) : (beginScope p).2.E = beginE p.E := rfl
theorem endScope_E (p : PState) : (endScope p).1 = (endE p.E).1 ∧ (endScope p).2.E = (endE p.E).2 := ⟨rfl, rfl⟩

/-- a declaration that reports no error pushes the name, not yet initialised -/
theorem declVar_E (p : PState) (h : (declVar p).2.hadError = false) : (declVar p).2.E = declareE p.prev.val p.E := by
  have hrun := C02.declVar_run p
  simp only [StateT.run] at hrun
  rw [hrun] at h ⊢
  obtain ⟨_, herr, hsame, hex⟩ := C02.redeclFold_spec p.prev.val (C02.scopeSeg p) p
  have hfold : C02.redeclFold p.prev.val (C02.scopeSeg p) p = p := by
    apply hsame
    intro l hl hn
    have := C02.addLocal_keeps_error p.prev.val _ (hex ⟨l, hl, hn⟩)
    simp only [StateT.run] at this
    rw [this] at h; cases h
  rw [hfold] at h ⊢
  unfold addLocal at h ⊢
  by_cases hl : (p.locals.length == localsMaxSize) = true
  · exfalso
    simp [hl, error, errorAt, bind, StateT.bind, get, getThe, MonadStateOf.get, StateT.get,
      modify, modifyGet, MonadStateOf.modifyGet, StateT.modifyGet, pure] at h
  · simp [hl, bind, StateT.bind, get, getThe, MonadStateOf.get, StateT.get,
      modify, modifyGet, MonadStateOf.modifyGet, StateT.modifyGet, pure, PState.E, declareE]

/-! ## the resolved items of a statement, and running a shape over core tokens -/

inductive SAtom where
  | op (a : RAtom) | idx (i : Nat) | cnt (n : Nat) | opt (o : UInt8)
  deriving DecidableEq, Repr

mutual
def satomsS : Stmt → List SAtom
  | .var none _ => []
  | .var (some e) _ => (ratoms e).map .op
  | .print e _ => (ratoms e).map .op
  | .eval e _ => (ratoms e).map .op
  | .block ti ni _ body npop _ => .idx ti :: .idx ni :: (satomsSs body ++ [.cnt npop])
  | .bind ti o _ => [.idx ti, .opt o]
  | .bad => []
def satomsSs : Stmts → List SAtom
  | .nil => []
  | .cons s rest => satomsS s ++ satomsSs rest
end

def selOf (v : Bytes) : Nat :=
  if v == str "first" then 2 else if v == str "last" then 3 else if v == str "all" then 15 else 1
def targetOf (v : Bytes) : Nat := if v == str "struct" then 16 else if v == str "slice" then 32 else 0

def opOut (r : List RAtom × List CT × ES) : List SAtom × List CT × ES := (r.1.map .op, r.2.1, r.2.2)

mutual
def runS : ShS → List CT → ES → List SAtom × List CT × ES
  | .var0, ts, s =>
    match ts with
    | (.VAR, _) :: (.IDENT, n) :: r => ([], r, markInitE (declareE n s))
    | _ => ([], ts, s)
  | .var1 sh, ts, s =>
    match ts with
    | (.VAR, _) :: (.IDENT, n) :: (.EQ, _) :: r =>
      let x := runE sh r (declareE n s)
      (x.1.map .op, x.2.1, markInitE x.2.2)
    | _ => ([], ts, s)
  | .print sh, ts, s =>
    match ts with
    | (.PRINT, _) :: r => opOut (runE sh r s)
    | _ => ([], ts, s)
  | .eval sh, ts, s =>
    match ts with
    | (.EVAL, _) :: r => opOut (runE sh r s)
    | _ => opOut (runE sh ts s)
  | .block body, ts, s =>
    match ts with
    | (.DEF, _) :: (.IDENT, t) :: r =>
      let nmr : Bytes × List CT := match r with
        | (.STR, v) :: (.LCURLY, _) :: r2 => ((unquote v).getD [], r2)
        | (.LCURLY, _) :: r2 => ([], r2)
        | _ => ([], r)
      let a := identConstE t s
      let b := makeConstE (.str nmr.1) a.2
      let x := runSs body nmr.2 (beginE b.2)
      match x.2.1 with
      | (.RCURLY, _) :: r4 =>
        let e := endE x.2.2
        (.idx a.1 :: .idx b.1 :: (x.1 ++ [.cnt e.1]), r4, e.2)
      | _ => ([], ts, s)
    | _ => ([], ts, s)
  | .bind, ts, s =>
    match ts with
    | (.BIND, _) :: (.IDENT, t) :: r =>
      let selr : Nat × List CT := match r with
        | (.COLON, _) :: (.INT, _) :: r' => (1, r')
        | (.COLON, _) :: (.IDENT, v) :: r' => (selOf v, r')
        | _ => (1, r)
      match selr.2 with
      | (.ARROW, _) :: (.IDENT, tg) :: r2 =>
        let a := identConstE t s
        ([.idx a.1, .opt (UInt8.ofNat (targetOf tg % 256 / 16 * 16 + selr.1 % 16))], r2, a.2)
      | _ => ([], ts, s)
    | _ => ([], ts, s)
  | .bad, ts, s => ([], ts, s)
def runSs : ShSs → List CT → ES → List SAtom × List CT × ES
  | .nil, ts, s => ([], ts, s)
  | .cons sh rest, ts, s =>
    let x := runS sh ts s
    let y := runSs rest x.2.1 x.2.2
    (x.1 ++ y.1, y.2.1, y.2.2)
end

/-! ## the statement parser, run by run -/

theorem GM.noerr {a b : PState} (h : GM a b) (hb : b.hadError = false) : a.hadError = false := by
  cases ha : a.hadError with
  | false => rfl
  | true => have := h.err ha; rw [hb] at this; cases this

theorem core1 (t : Token) (h : isCore t.typ = true) : coreOf [t] = [(t.typ, t.val)] := by
  rw [coreOf_cons_yes _ _ h]; rfl

theorem varDecl_l (f : Nat) (p : PState) (hi : GInv p) :
    wp (varDecl f) (fun st p' => GM p p' ∧ (NE p' → ∃ sk, Skips sk p p' ∧
      ∀ rest kw, runS (shapeS st) ((.VAR, kw) :: (coreOf sk ++ rest)) p.E = (satomsS st, rest, p'.E))) p := by
  unfold varDecl
  rw [wp_bind]
  apply wp_mono (wp_and (consume_cons .IDENT _ (by decide) p hi) (wp_epf (consume_ep _ _) p))
  intro _ p1 hq1
  obtain ⟨⟨hg1, hc1⟩, hE1⟩ := hq1
  rw [wp_bind, wp_get]
  split
  · rename_i hpm
    rw [wp_pure]
    exact ⟨hg1, fun hne => absurd hne (ne_false_of_panic hg1.inv hpm)⟩
  · rw [wp_bind]
    apply wp_run
    have hg2 : GM p1 (declVar p1).2 := declVar_gr.h p1 hg1.inv
    have htf2 := declVar_tf.h p1
    generalize hp2 : (declVar p1).2 = p2 at hg2 htf2
    have hE2 : p2.hadError = false → p2.E = declareE p1.prev.val p1.E := by
      intro h; rw [← hp2] at h ⊢; exact declVar_E p1 h
    rw [wp_bind]
    apply wp_mono (wp_and (match_cons .EQ (by decide) p2 hg2.inv) (wp_epf (match_ep _) p2))
    intro b p3 hq3
    obtain ⟨⟨hg3, hf3, ht3⟩, hE3⟩ := hq3
    split
    · rename_i hb
      obtain ⟨heq, hprev3, hs3⟩ := ht3 hb
      rw [wp_bind]
      apply wp_mono (expr_runE f p3 hg3.inv)
      intro e p4 hq4
      rw [wp_bind, wp_pure, wp_bind]
      apply wp_run
      have hg5 : GM p4 (markInitialized p4).2 := markInitialized_gr.h p4 hq4.1.inv
      have htf5 := markInitialized_tf.h p4
      have hE5 := markInitialized_E p4
      generalize (markInitialized p4).2 = p5 at hg5 htf5 hE5
      rw [wp_pure]
      refine ⟨(((hg1.trans hg2).trans hg3).trans hq4.1).trans hg5, fun hne => ?_⟩
      have hne4 : NE p4 := hg5.ne hne
      have hne3 : NE p3 := hq4.1.ne hne4
      have hne2 : NE p2 := hg3.ne hne3
      have hne1 : NE p1 := hg2.ne hne2
      obtain ⟨ht1, hprev1, hs1⟩ := hc1 hne1.1
      obtain ⟨sk4, hs4, _, hrun4⟩ := hq4.2 hne4
      refine ⟨[p.cur] ++ [p2.cur] ++ sk4, ?_, fun rest kw => ?_⟩
      · have h23 := hs3 hne3.1
        unfold Skips at hs1 h23 hs4 ⊢
        rw [hs1, ← htf2.1, ← htf2.2.1, h23, hs4, htf5.1, htf5.2.1]; simp
      · have c1 : isCore p.cur.typ = true := by rw [ht1]; rfl
        have c2 : isCore p2.cur.typ = true := by rw [heq]; rfl
        rw [coreOf_append, coreOf_append, core1 _ c1, core1 _ c2, ht1, heq]
        simp only [shapeS, satomsS, List.cons_append, List.nil_append, List.append_assoc, runS]
        have hEe : p3.E = declareE p.cur.val p.E := by
          rw [hE3, hE2 hne2.1, hprev1, hE1]
        rw [← hEe, hrun4 rest, hE5]
    · rename_i hb
      obtain ⟨rfl, _⟩ := hf3 (by simpa using hb)
      rw [wp_bind, wp_get, wp_bind, wp_pure, wp_bind]
      apply wp_run
      have hg5 : GM p3 (markInitialized p3).2 := markInitialized_gr.h p3 hg2.inv
      have htf5 := markInitialized_tf.h p3
      have hE5 := markInitialized_E p3
      generalize (markInitialized p3).2 = p5 at hg5 htf5 hE5
      rw [wp_pure]
      refine ⟨(hg1.trans hg2).trans hg5, fun hne => ?_⟩
      have hne2 : NE p3 := hg5.ne hne
      have hne1 : NE p1 := hg2.ne hne2
      obtain ⟨ht1, hprev1, hs1⟩ := hc1 hne1.1
      refine ⟨[p.cur], ?_, fun rest kw => ?_⟩
      · unfold Skips at hs1 ⊢
        rw [hs1, htf5.1, htf5.2.1, htf2.1, htf2.2.1]
      · have c1 : isCore p.cur.typ = true := by rw [ht1]; rfl
        rw [core1 _ c1, ht1]
        simp only [shapeS, satomsS, List.cons_append, List.nil_append, runS]
        rw [hE5, hE2 hne2.1, hprev1, hE1]

/-! ### what is still to be read -/

/-- the core tokens of everything not yet consumed -/
def rem (p : PState) : List CT := coreOf (p.cur :: p.rest)

theorem rem_skips {sk : List Token} {p p' : PState} (h : Skips sk p p') : rem p = coreOf sk ++ rem p' := by
  unfold rem; unfold Skips at h; rw [h, coreOf_append]

theorem rem_tf {p p' : PState} (hc : p'.cur = p.cur) (hr : p'.rest = p.rest) : rem p' = rem p := by
  unfold rem; rw [hc, hr]

theorem rem_skip1 {p p' : PState} (h : Skips [p.cur] p p') (hc : isCore p.cur.typ = true) :
    rem p = (p.cur.typ, p.cur.val) :: rem p' := by
  rw [rem_skips h, core1 _ hc]; rfl

theorem bindSel_ep : EP bindSel := by unfold bindSel; ep
theorem bindTarget_ep (m : Bytes) : EP (bindTarget m) := by unfold bindTarget; ep

/-- the optional `:selector`, with its value -/
def SelOK (sel : Nat) (p p' : PState) : Prop :=
  (p' = p ∧ p.cur.typ ≠ .COLON ∧ sel = 1) ∨
  (∃ c t, Skips [c, t] p p' ∧ c.typ = .COLON ∧ ((t.typ = .INT ∧ sel = 1) ∨ (t.typ = .IDENT ∧ sel = selOf t.val)))

theorem bindSel_l (p : PState) (hi : GInv p) :
    wp bindSel (fun sel p' => GM p p' ∧ (NE p' → SelOK sel p p')) p := by
  unfold bindSel
  simp only [wp_bind]
  have bad : ∀ (q : PState) (n : Nat), GM p q →
      wp (do error (str "expected 1,first,last,all as a block selector"); pure n)
        (fun sel p' => GM p p' ∧ (NE p' → SelOK sel p p')) q := by
    intro q n hg
    rw [wp_bind]
    apply wp_mono (error_wp _ q hg.inv)
    intro _ q' h
    rw [wp_pure]
    exact ⟨hg.trans h.1, fun hne => absurd hne (ne_false_of_err h.2)⟩
  apply wp_mono (match_cons .COLON (by decide) p hi)
  intro b1 p1 hq1
  obtain ⟨hg1, hf1, ht1⟩ := hq1
  split
  · rename_i hb1
    obtain ⟨hc1, _, hs1⟩ := ht1 hb1
    rw [wp_bind]
    apply wp_mono (match_cons .INT (by decide) p1 hg1.inv)
    intro b2 p2 hq2
    obtain ⟨hg2, hf2, ht2⟩ := hq2
    split
    · rename_i hb2
      obtain ⟨hc2, _, hs2⟩ := ht2 hb2
      rw [wp_bind, wp_get]
      have fin : GM p p2 ∧ (NE p2 → SelOK 1 p p2) := by
        refine ⟨hg1.trans hg2, fun hne => .inr ⟨p.cur, p1.cur, (hs1 (hg2.ne hne).1).trans (hs2 hne.1), hc1, .inl ⟨hc2, rfl⟩⟩⟩
      split
      · exact bad p2 1 (hg1.trans hg2)
      · rw [wp_pure]; exact fin
    · rename_i hb2
      obtain ⟨rfl, _⟩ := hf2 (by simpa using hb2)
      rw [wp_bind]
      apply wp_mono (match_cons .IDENT (by decide) p2 hg1.inv)
      intro b3 p3 hq3
      obtain ⟨hg3, hf3, ht3⟩ := hq3
      split
      · rename_i hb3
        obtain ⟨hc3, hprev3, hs3⟩ := ht3 hb3
        rw [wp_bind, wp_get]
        have fin : ∀ sel, sel = selOf p2.cur.val → GM p p3 ∧ (NE p3 → SelOK sel p p3) := by
          intro sel hsel
          refine ⟨hg1.trans hg3, fun hne => .inr ⟨p.cur, p2.cur, (hs1 (hg3.ne hne).1).trans (hs3 hne.1), hc1, .inr ⟨hc3, hsel⟩⟩⟩
        repeat' split
        · rename_i h1
          rw [wp_pure]; apply fin; rw [← hprev3]; simp [selOf, h1]
        · rename_i h1 h2
          rw [wp_pure]; apply fin; rw [← hprev3]; simp [selOf, h1, h2]
        · rename_i h1 h2 h3
          rw [wp_pure]; apply fin; rw [← hprev3]; simp [selOf, h1, h2, h3]
        · exact bad p3 1 (hg1.trans hg3)
      · rename_i hb3
        obtain ⟨rfl, _⟩ := hf3 (by simpa using hb3)
        rw [wp_bind]
        apply wp_mono (errorAtCurrent_wp _ p3 hg1.inv)
        intro _ q' h
        rw [wp_pure]
        exact ⟨hg1.trans h.1, fun hne => absurd hne (ne_false_of_err h.2)⟩
  · rename_i hb1
    obtain ⟨rfl, hne1⟩ := hf1 (by simpa using hb1)
    rw [wp_pure]
    exact ⟨GM.refl hi, fun _ => .inl ⟨rfl, hne1, rfl⟩⟩

theorem bindTarget_l (msg : Bytes) (p : PState) (hi : GInv p) :
    wp (bindTarget msg) (fun tgt p' => GM p p' ∧ p'.cur = p.cur ∧ p'.rest = p.rest ∧ (NE p' → tgt = targetOf p.prev.val)) p := by
  have hg := (bindTarget_gr msg).h p hi
  have htf := (bindTarget_tf msg).h p
  refine ⟨hg, htf.1, htf.2.1, fun hne => ?_⟩
  have key : (bindTarget msg p).1 = targetOf p.prev.val ∨ (bindTarget msg p).2.hadError = true := by
    unfold bindTarget targetOf
    by_cases h1 : (p.prev.val == str "struct") = true
    · left
      simp [h1, bind, StateT.bind, get, getThe, MonadStateOf.get, StateT.get, pure, StateT.pure]
    · by_cases h2 : (p.prev.val == str "slice") = true
      · left
        simp [h1, h2, bind, StateT.bind, get, getThe, MonadStateOf.get, StateT.get, pure, StateT.pure]
      · right
        simp [h1, h2, error, errorAt, bind, StateT.bind, get, getThe, MonadStateOf.get, StateT.get,
          modify, modifyGet, MonadStateOf.modifyGet, StateT.modifyGet, pure, StateT.pure]
  rcases key with h | h
  · exact h
  · exact absurd hne (ne_false_of_err h)

theorem bindStmt_l (p : PState) (hi : GInv p) :
    wp bindStmt (fun st p' => GM p p' ∧ (NE p' → ∀ kw, runS (shapeS st) ((.BIND, kw) :: rem p) p.E = (satomsS st, rem p', p'.E))) p := by
  unfold bindStmt
  rw [wp_bind]
  apply wp_mono (wp_and (consume_cons .IDENT _ (by decide) p hi) (wp_epf (consume_ep _ _) p))
  intro _ p1 hq1
  obtain ⟨⟨hg1, hc1⟩, hE1⟩ := hq1
  rw [wp_bind, wp_get]
  split
  · rename_i hpm
    rw [wp_pure]
    exact ⟨hg1, fun hne => absurd hne (ne_false_of_panic hg1.inv hpm)⟩
  · rw [wp_bind, wp_get, wp_bind]
    apply wp_mono (wp_and (bindSel_l p1 hg1.inv) (wp_epf bindSel_ep p1))
    intro sel p2 hq2
    obtain ⟨⟨hg2, hsel⟩, hE2⟩ := hq2
    rw [wp_bind]
    apply wp_mono (wp_and (consume_cons .ARROW _ (by decide) p2 hg2.inv) (wp_epf (consume_ep _ _) p2))
    intro _ p3 hq3
    obtain ⟨⟨hg3, hc3⟩, hE3⟩ := hq3
    rw [wp_bind, wp_get]
    split
    · rename_i hpm
      rw [wp_pure]
      exact ⟨(hg1.trans hg2).trans hg3, fun hne => absurd hne (ne_false_of_panic hg3.inv hpm)⟩
    · rw [wp_bind]
      apply wp_mono (wp_and (consume_cons .IDENT _ (by decide) p3 hg3.inv) (wp_epf (consume_ep _ _) p3))
      intro _ p4 hq4
      obtain ⟨⟨hg4, hc4⟩, hE4⟩ := hq4
      rw [wp_bind, wp_get]
      have hg04 : GM p p4 := ((hg1.trans hg2).trans hg3).trans hg4
      split
      · rename_i hpm
        rw [wp_pure]
        exact ⟨hg04, fun hne => absurd hne (ne_false_of_panic hg4.inv hpm)⟩
      · rw [wp_bind]
        apply wp_mono (wp_and (bindTarget_l _ p4 hg4.inv) (wp_epf (bindTarget_ep _) p4))
        intro tgt p5 hq5
        obtain ⟨⟨hg5, hcur5, hrest5, htgt⟩, hE5⟩ := hq5
        have fin : ∀ q, GM p5 q → q.cur = p5.cur → q.rest = p5.rest → q.E = p5.E →
            wp (do
              if (← get).panicMode = true then return Stmt.bad
              let idx ← identConst p1.prev.val
              return Stmt.bind idx (UInt8.ofNat (tgt % 256 / 16 * 16 + sel % 16)) (← get).prev.pos)
              (fun st p' => GM p p' ∧ (NE p' → ∀ kw, runS (shapeS st) ((.BIND, kw) :: rem p) p.E = (satomsS st, rem p', p'.E))) q := by
          intro q hgq hcq hrq hEq
          rw [wp_bind, wp_get]
          split
          · rename_i hpm
            rw [wp_pure]
            exact ⟨(hg04.trans hg5).trans hgq, fun hne => absurd hne (ne_false_of_panic hgq.inv hpm)⟩
          · rw [wp_bind]
            apply wp_run
            obtain ⟨e1, e2⟩ := identConst_E p1.prev.val q
            have hgq2 : GM q (identConst p1.prev.val q).2 := (identConst_gr _).h q hgq.inv
            have htf2 := (identConst_tf p1.prev.val).h q
            generalize (identConst p1.prev.val q).2 = q2 at e2 hgq2 htf2
            generalize (identConst p1.prev.val q).1 = idx at e1
            rw [wp_bind, wp_get, wp_pure]
            refine ⟨((hg04.trans hg5).trans hgq).trans hgq2, fun hne kw => ?_⟩
            have hneq : NE q := hgq2.ne hne
            have hne5 : NE p5 := hgq.ne hneq
            have hne4 : NE p4 := hg5.ne hne5
            have hne3 : NE p3 := hg4.ne hne4
            have hne2 : NE p2 := hg3.ne hne3
            have hne1 : NE p1 := hg2.ne hne2
            obtain ⟨ht1, hprev1, hs1⟩ := hc1 hne1.1
            obtain ⟨ht3, _, hs3⟩ := hc3 hne3.1
            obtain ⟨ht4, hprev4, hs4⟩ := hc4 hne4.1
            have htg := htgt hne5
            have hr1 : rem p = (.IDENT, p.cur.val) :: rem p1 := by
              rw [rem_skip1 hs1 (by rw [ht1]; rfl), ht1]
            have hr2 : rem p2 = (.ARROW, p2.cur.val) :: (.IDENT, p3.cur.val) :: rem p4 := by
              rw [rem_skip1 hs3 (by rw [ht3]; rfl), rem_skip1 hs4 (by rw [ht4]; rfl), ht3, ht4]
            have hr4 : rem q2 = rem p4 := by
              rw [rem_tf htf2.1 htf2.2.1, rem_tf hcq hrq, rem_tf hcur5 hrest5]
            have hEq0 : q.E = p.E := by rw [hEq, hE5, hE4, hE3, hE2, hE1]
            have hidx : idx = (identConstE p.cur.val p.E).1 := by rw [e1, hEq0, hprev1]
            have hE' : q2.E = (identConstE p.cur.val p.E).2 := by rw [e2, hEq0, hprev1]
            have htg' : tgt = targetOf p3.cur.val := by rw [htg, hprev4]
            simp only [shapeS, satomsS]
            rw [hr1]
            rcases hsel hne2 with ⟨h21, hnc, hs1'⟩ | ⟨c, t, hsk, hct, hsel'⟩
            · subst h21
              rw [hr2]
              simp only [runS]
              rw [hr4, hidx, hE', htg', hs1']
            · have hr12 : rem p1 = (c.typ, c.val) :: (t.typ, t.val) :: rem p2 := by
                rw [rem_skips hsk]
                have cc : isCore c.typ = true := by rw [hct]; rfl
                have ct : isCore t.typ = true := by
                  rcases hsel' with ⟨h, _⟩ | ⟨h, _⟩ <;> rw [h] <;> rfl
                rw [coreOf_cons_yes _ _ cc, core1 _ ct]; rfl
              rw [hr12, hr2, hct]
              rcases hsel' with ⟨hti, hs1'⟩ | ⟨hti, hs1'⟩
              · rw [hti]
                simp only [runS]
                rw [hr4, hidx, hE', htg', hs1']
              · rw [hti]
                simp only [runS]
                rw [hr4, hidx, hE', htg', hs1']
        split
        · rw [wp_bind]
          apply wp_run
          exact fin _ ((error_gr _).h p5 hg5.inv) ((error_tf _).h p5).1 ((error_tf _).h p5).2.1 ((error_ep _).h p5)
        · exact fin p5 (GM.refl hg5.inv) rfl rfl rfl

/-! ### statements -/

def SPostL (p : PState) : Stmt → PState → Prop := fun st p' =>
  GM p p' ∧ (NE p' → runS (shapeS st) (rem p) p.E = (satomsS st, rem p', p'.E))

def BPostL (p : PState) : Stmt → PState → Prop := fun st p' =>
  GM p p' ∧ (NE p' → ∀ kw, runS (shapeS st) ((.DEF, kw) :: rem p) p.E = (satomsS st, rem p', p'.E))

def LPostL (p : PState) : Stmts → PState → Prop := fun sts p' =>
  GM p p' ∧ (NE p' → runSs (shapeSs sts) (rem p) p.E = (satomsSs sts, rem p', p'.E))

/-- an expression, as a run over everything still to be read -/
theorem expr_rem (f : Nat) (p : PState) (hi : GInv p) :
    wp (expr f) (fun e p' => GM p p' ∧ (NE p' → runE (shape e) (rem p) p.E = (ratoms e, rem p', p'.E) ∧
      ∃ sk, Skips sk p p' ∧ Rd precAssign (shape e) (typs sk) 0)) p := by
  apply wp_mono (expr_runE f p hi)
  intro e p' hq
  refine ⟨hq.1, fun hne => ?_⟩
  obtain ⟨sk, hs, hr, hrun⟩ := hq.2 hne
  exact ⟨by rw [rem_skips hs]; exact hrun _, sk, hs, hr⟩

theorem rd_no_eval {n : Nat} {s : Sh} {ts : List TokType} {k : Nat} (h : Rd n s ts k) : ∀ t ∈ ts, t ≠ .EVAL := by
  induction h with
  | atom n t k ht =>
    intro x hx; simp at hx; subst hx
    rcases ht with h | h | h | h | h | h | h <;> rw [h] <;> decide
  | paren n s ts k _ ih =>
    intro x hx
    simp at hx
    rcases hx with rfl | hx | rfl
    · decide
    · exact ih x hx
    · decide
  | un n o s ts k ho _ _ ih =>
    intro x hx
    simp at hx
    rcases hx with rfl | hx
    · rcases ho with h | h | h <;> rw [h] <;> decide
    · exact ih x hx
  | bin n o a b ta tb k ho _ _ _ _ iha ihb =>
    intro x hx
    simp at hx
    rcases hx with hx | rfl | hx
    · exact iha x hx
    · intro h; rw [h] at ho; unfold isInfix at ho; simp [getRule] at ho
    · exact ihb x hx
  | asg s ts k _ _ ih =>
    intro x hx
    simp at hx
    rcases hx with rfl | rfl | hx
    · decide
    · decide
    · exact ih x hx

theorem rd_cw_pos {n : Nat} {s : Sh} {ts : List TokType} {k : Nat} (h : Rd n s ts k) : 0 < s.cw := by
  induction h with
  | atom => simp [Sh.cw]
  | paren _ _ _ _ _ ih => exact ih
  | un => simp [Sh.cw]; omega
  | bin => simp [Sh.cw]; omega
  | asg => simp [Sh.cw]; omega

/-- a bare expression does not begin with the keyword `eval` -/
theorem rem_head_not_eval {sk : List Token} {p p' : PState} {s : Sh} (hs : Skips sk p p')
    (hr : Rd precAssign s (typs sk) 0) : ∃ c r, rem p = c :: r ∧ c.1 ≠ .EVAL := by
  have hlen : 0 < (coreOf sk).length := by rw [coreOf_length, rd_cw hr]; exact rd_cw_pos hr
  have hall : ∀ c ∈ coreOf sk, c.1 ≠ .EVAL := by
    intro c hc
    unfold coreOf at hc
    simp only [List.mem_map, List.mem_filter] at hc
    obtain ⟨t, ⟨ht, _⟩, rfl⟩ := hc
    exact rd_no_eval hr t.typ (by unfold typs; exact List.mem_map_of_mem ht)
  rw [rem_skips hs]
  cases hco : coreOf sk with
  | nil => rw [hco] at hlen; simp at hlen
  | cons c r => exact ⟨c, r ++ rem p', rfl, hall c (by rw [hco]; simp)⟩

theorem runS_eval_bare (sh : Sh) (c : CT) (r : List CT) (s : ES) (h : c.1 ≠ .EVAL) :
    runS (.eval sh) (c :: r) s = opOut (runE sh (c :: r) s) := by
  obtain ⟨t, v⟩ := c
  cases t <;> first | (exact absurd rfl h) | (simp only [runS])

theorem stmt_l_step (f : Nat)
    (ihB : ∀ p, GInv p → wp (blockStmt f) (BPostL p) p)
    (p : PState) (hi : GInv p) : wp (stmt (f+1)) (SPostL p) p := by
  unfold stmt
  rw [wp_bind]
  apply wp_mono (wp_and (match_cons .PRINT (by decide) p hi) (wp_epf (match_ep _) p))
  intro b1 p1 hq1
  obtain ⟨⟨hg1, hf1, ht1⟩, hE1⟩ := hq1
  -- `kw expr`
  have kwexpr : ∀ (kw : TokType) (mk : Expr → Nat → Stmt) (q : PState), GM p q → q.E = p.E → isCore kw = true →
      p.cur.typ = kw → (q.hadError = false → Skips [p.cur] p q) →
      (∀ e n, satomsS (mk e n) = (ratoms e).map .op) →
      (∀ e n v r s, runS (shapeS (mk e n)) ((kw, v) :: r) s = opOut (runE (shape e) r s)) →
      wp (do let e ← expr f; return mk e (← get).prev.pos) (SPostL p) q := by
    intro kw mk q hgq hEq hck hkw hsq hsat hrun
    rw [wp_bind]
    apply wp_mono (expr_rem f q hgq.inv)
    intro e p2 hq2
    rw [wp_bind, wp_get, wp_pure]
    refine ⟨hgq.trans hq2.1, fun hne => ?_⟩
    have hneq : NE q := hq2.1.ne hne
    obtain ⟨hr, _⟩ := hq2.2 hne
    rw [rem_skip1 (hsq hneq.1) (by rw [hkw]; exact hck), hkw, hrun, hsat, ← hEq, hr]
    rfl
  split
  · rename_i hb
    obtain ⟨hc, _, hs⟩ := ht1 hb
    exact kwexpr .PRINT _ p1 hg1 hE1 rfl hc hs (fun _ _ => rfl) (fun _ _ _ _ _ => rfl)
  · rename_i hb
    obtain ⟨rfl, _⟩ := hf1 (by simpa using hb)
    rw [wp_bind]
    apply wp_mono (wp_and (match_cons .EVAL (by decide) p1 hi) (wp_epf (match_ep _) p1))
    intro b2 p2 hq2
    obtain ⟨⟨hg2, hf2, ht2⟩, hE2⟩ := hq2
    split
    · rename_i hb
      obtain ⟨hc, _, hs⟩ := ht2 hb
      exact kwexpr .EVAL _ p2 hg2 hE2 rfl hc hs (fun _ _ => rfl) (fun _ _ _ _ _ => rfl)
    · rename_i hb
      obtain ⟨rfl, _⟩ := hf2 (by simpa using hb)
      rw [wp_bind]
      apply wp_mono (wp_and (match_cons .DEF (by decide) p2 hi) (wp_epf (match_ep _) p2))
      intro b3 p3 hq3
      obtain ⟨⟨hg3, hf3, ht3⟩, hE3⟩ := hq3
      split
      · rename_i hb
        obtain ⟨hc, _, hs⟩ := ht3 hb
        apply wp_mono (ihB p3 hg3.inv)
        intro st p4 hq4
        refine ⟨hg3.trans hq4.1, fun hne => ?_⟩
        have hne3 : NE p3 := hq4.1.ne hne
        rw [rem_skip1 (hs hne3.1) (by rw [hc]; rfl), hc, ← hE3]
        exact hq4.2 hne _
      · rename_i hb
        obtain ⟨rfl, _⟩ := hf3 (by simpa using hb)
        rw [wp_bind]
        apply wp_mono (wp_and (match_cons .BIND (by decide) p3 hi) (wp_epf (match_ep _) p3))
        intro b4 p4 hq4
        obtain ⟨⟨hg4, hf4, ht4⟩, hE4⟩ := hq4
        split
        · rename_i hb
          obtain ⟨hc, _, hs⟩ := ht4 hb
          apply wp_mono (bindStmt_l p4 hg4.inv)
          intro st p5 hq5
          refine ⟨hg4.trans hq5.1, fun hne => ?_⟩
          have hne4 : NE p4 := hq5.1.ne hne
          rw [rem_skip1 (hs hne4.1) (by rw [hc]; rfl), hc, ← hE4]
          exact hq5.2 hne _
        · rename_i hb
          obtain ⟨rfl, _⟩ := hf4 (by simpa using hb)
          rw [wp_bind, wp_get]
          split
          · rw [wp_bind]
            apply wp_mono (expr_rem f p4 hi)
            intro e p5 hq5
            rw [wp_bind, wp_get, wp_pure]
            refine ⟨hq5.1, fun hne => ?_⟩
            obtain ⟨hr, sk, hs, hrd⟩ := hq5.2 hne
            obtain ⟨c, r, hrem, hc⟩ := rem_head_not_eval hs hrd
            simp only [shapeS, satomsS]
            rw [hrem, runS_eval_bare _ _ _ _ hc, ← hrem, hr]
            rfl
          · rw [wp_bind]
            apply wp_mono (errorAtCurrent_wp _ p4 hi)
            intro _ p5 hq5
            rw [wp_pure]
            exact ⟨hq5.1, fun hne => absurd hne (ne_false_of_err hq5.2)⟩

theorem decl_l_step (f : Nat)
    (ihS : ∀ p, GInv p → wp (stmt f) (SPostL p) p)
    (p : PState) (hi : GInv p) : wp (decl (f+1)) (SPostL p) p := by
  have fin : ∀ (st : Stmt) (p2 : PState), SPostL p st p2 →
      wp (do
        let q ← get
        if (q.panicMode && q.depth == 0) = true then sync f
        return st : PM Stmt) (SPostL p) p2 := by
    intro st p2 hq
    rw [wp_bind, wp_get]
    dsimp only
    split
    · rename_i hc
      have hpm : p2.panicMode = true := by
        cases h : p2.panicMode
        · rw [h] at hc; simp at hc
        · rfl
      rw [wp_bind]
      apply wp_mono (show wp (sync f) (fun _ p' => GM p2 p') p2 from (sync_gr f).h p2 hq.1.inv)
      intro _ p3 hq3
      rw [wp_pure]
      exact ⟨hq.1.trans hq3, fun hne => absurd (hq3.ne hne) (ne_false_of_panic hq.1.inv hpm)⟩
    · rw [wp_pure]; exact hq
  unfold decl
  rw [wp_bind]
  apply wp_mono (wp_and (match_cons .VAR (by decide) p hi) (wp_epf (match_ep _) p))
  intro b1 p1 hq1
  obtain ⟨⟨hg1, hf1, ht1⟩, hE1⟩ := hq1
  dsimp only
  split
  · rename_i hb
    obtain ⟨hc, _, hs⟩ := ht1 hb
    rw [wp_bind]
    apply wp_mono (varDecl_l f p1 hg1.inv)
    intro st p2 hq2
    apply fin
    refine ⟨hg1.trans hq2.1, fun hne => ?_⟩
    obtain ⟨sk, hs2, hrun⟩ := hq2.2 hne
    have hne1 : NE p1 := hq2.1.ne hne
    rw [rem_skip1 (hs hne1.1) (by rw [hc]; rfl), hc, rem_skips hs2, ← hE1]
    exact hrun _ _
  · rename_i hb
    obtain ⟨rfl, _⟩ := hf1 (by simpa using hb)
    rw [wp_bind]
    apply wp_mono (ihS p1 hi)
    intro st p2 hq2
    exact fin st p2 hq2

theorem semi_rem {p p' : PState} (h : Skips [p.cur] p p') (hc : p.cur.typ = .SEMICOLON) : rem p = rem p' := by
  rw [rem_skips h, coreOf_cons_no _ _ (by rw [hc]; rfl)]; rfl

theorem blockLoop_l_step (f : Nat)
    (ihD : ∀ p, GInv p → wp (decl f) (SPostL p) p)
    (ihL : ∀ p, GInv p → wp (blockLoop f) (LPostL p) p)
    (p : PState) (hi : GInv p) : wp (blockLoop (f+1)) (LPostL p) p := by
  unfold blockLoop check checkEnd
  rw [wp_bind, wp_bind, wp_get, wp_pure, wp_bind, wp_bind, wp_get, wp_pure]
  split
  · rw [wp_pure]
    exact ⟨GM.refl hi, fun _ => rfl⟩
  · rw [wp_bind]
    apply wp_mono (ihD p hi)
    intro s p3 hq3
    obtain ⟨hg3, hs3⟩ := hq3
    have tail : ∀ p4, GM p3 p4 → (NE p4 → p4 = p3) →
        wp (do let _ ← «match» .SEMICOLON; let rest ← blockLoop f; return Stmts.cons s rest) (LPostL p) p4 := by
      intro p4 hg4 heq4
      rw [wp_bind]
      apply wp_mono (wp_and (match_cons .SEMICOLON (by decide) p4 hg4.inv) (wp_epf (match_ep _) p4))
      intro b p5 hq5
      obtain ⟨⟨hg5, hf5, ht5⟩, hE5⟩ := hq5
      rw [wp_bind]
      apply wp_mono (ihL p5 hg5.inv)
      intro rest p6 hq6
      rw [wp_pure]
      refine ⟨((hg3.trans hg4).trans hg5).trans hq6.1, fun hne => ?_⟩
      have hne5 : NE p5 := hq6.1.ne hne
      have hne4 : NE p4 := hg5.ne hne5
      have h43 := heq4 hne4
      subst h43
      have h1 := hs3 hne4
      have h2 := hq6.2 hne
      have hrem : rem p5 = rem p4 := by
        cases b with
        | true =>
          obtain ⟨hc5, _, hs5⟩ := ht5 rfl
          exact (semi_rem (hs5 hne5.1) hc5).symm
        | false => obtain ⟨rfl, _⟩ := hf5 rfl; rfl
      simp only [shapeSs, satomsSs, runSs]
      rw [h1]
      simp only
      rw [← hrem, ← hE5, h2]
    rw [wp_bind, wp_get]
    dsimp only
    split
    · rename_i hpm
      rw [wp_bind]
      apply wp_mono (show wp advance (fun _ p' => GM p3 p') p3 from advance_gr.h p3 hg3.inv)
      intro _ p4 hq4
      exact tail p4 hq4 (fun hne => absurd (hq4.ne hne) (ne_false_of_panic hg3.inv hpm))
    · exact tail p3 (GM.refl hg3.inv) (fun _ => rfl)

theorem blockStmt_l_step (f : Nat)
    (ihL : ∀ p, GInv p → wp (blockLoop f) (LPostL p) p)
    (p : PState) (hi : GInv p) : wp (blockStmt (f+1)) (BPostL p) p := by
  unfold blockStmt
  rw [wp_bind]
  apply wp_mono (wp_and (consume_cons .IDENT _ (by decide) p hi) (wp_epf (consume_ep _ _) p))
  intro _ p1 hq1
  obtain ⟨⟨hg1, hc1⟩, hE1⟩ := hq1
  rw [wp_bind, wp_get]
  split
  · rename_i hpm
    rw [wp_pure]
    exact ⟨hg1, fun hne => absurd hne (ne_false_of_panic hg1.inv hpm)⟩
  · rw [wp_bind, wp_get]
    -- everything from the opening brace on; `nmr` is what the name part of the core tokens gives
    have tail : ∀ (blockName : Bytes) (p2 : PState), GM p1 p2 → p2.E = p1.E →
        (NE p2 → ∀ (r2 : List CT) (v : Bytes),
          (match rem p1 with
            | (.STR, v) :: (.LCURLY, _) :: r2 => ((unquote v).getD [], r2)
            | (.LCURLY, _) :: r2 => ([], r2)
            | _ => (([] : Bytes), rem p1)) = (blockName, r2) ∨ rem p2 ≠ (.LCURLY, v) :: r2) →
        wp (do
          consume .LCURLY (str "expected '{'")
          let ti ← identConst p1.prev.val
          let ni ← makeConst (.str blockName)
          let openPos := (← get).prev.pos
          beginScope
          let body ← blockLoop f
          if !(← get).hadLexFail then consume .RCURLY (str "expected '}'")
          let closePos := (← get).prev.pos
          let npop ← endScope
          return Stmt.block ti ni openPos body npop closePos) (BPostL p) p2 := by
      intro blockName p2 hg2 hE2 hnm
      rw [wp_bind]
      apply wp_mono (wp_and (consume_cons .LCURLY _ (by decide) p2 hg2.inv) (wp_epf (consume_ep _ _) p2))
      intro _ p3 hq3
      obtain ⟨⟨hg3, hc3⟩, hE3⟩ := hq3
      rw [wp_bind]
      apply wp_run
      obtain ⟨ei1, ei2⟩ := identConst_E p1.prev.val p3
      have hg4 : GM p3 (identConst p1.prev.val p3).2 := (identConst_gr _).h p3 hg3.inv
      have htf4 := (identConst_tf p1.prev.val).h p3
      generalize (identConst p1.prev.val p3).2 = p4 at ei2 hg4 htf4
      generalize (identConst p1.prev.val p3).1 = ti at ei1
      rw [wp_bind]
      apply wp_run
      obtain ⟨em1, em2⟩ := makeConst_E (.str blockName) p4
      have hg5 : GM p4 (makeConst (.str blockName) p4).2 := (makeConst_gr _).h p4 hg4.inv
      have htf5 := (makeConst_tf (.str blockName)).h p4
      generalize (makeConst (.str blockName) p4).2 = p5 at em2 hg5 htf5
      generalize (makeConst (.str blockName) p4).1 = ni at em1
      rw [wp_bind, wp_get, wp_bind]
      apply wp_run
      have hg6 : GM p5 (beginScope p5).2 := beginScope_gr.h p5 hg5.inv
      have htf6 := beginScope_tf.h p5
      have hE6 := beginScope_E p5
      generalize (beginScope p5).2 = q0 at hg6 htf6 hE6
      rw [wp_bind]
      apply wp_mono (ihL q0 hg6.inv)
      intro body q1 hq1
      obtain ⟨hg7, hbody⟩ := hq1
      have hg07 : GM p q1 := (((((hg1.trans hg2).trans hg3).trans hg4).trans hg5).trans hg6).trans hg7
      rw [wp_bind, wp_get]
      have hlf : q1.hadLexFail = false := hg7.inv.lf
      simp only [hlf, Bool.not_false, if_true]
      rw [wp_bind]
      apply wp_mono (wp_and (consume_cons .RCURLY _ (by decide) q1 hg7.inv) (wp_epf (consume_ep _ _) q1))
      intro _ q2 hq2
      obtain ⟨⟨hg8, hc8⟩, hE8⟩ := hq2
      rw [wp_bind, wp_get, wp_bind]
      apply wp_run
      obtain ⟨ee1, ee2⟩ := endScope_E q2
      have hg9 : GM q2 (endScope q2).2 := endScope_gr.h q2 hg8.inv
      have htf9 := endScope_tf.h q2
      generalize (endScope q2).2 = q3 at ee2 hg9 htf9
      generalize (endScope q2).1 = npop at ee1
      rw [wp_pure]
      refine ⟨(hg07.trans hg8).trans hg9, fun hne kw => ?_⟩
      have hne8 : NE q2 := hg9.ne hne
      have hne7 : NE q1 := hg8.ne hne8
      have hne3 : NE p3 := hg4.ne (hg5.ne (hg6.ne (hg7.ne hne7)))
      have hne2 : NE p2 := hg3.ne hne3
      have hne1 : NE p1 := hg2.ne hne2
      obtain ⟨ht1, hprev1, hs1⟩ := hc1 hne1.1
      obtain ⟨ht3, _, hs3⟩ := hc3 hne3.1
      obtain ⟨ht8, _, hs8⟩ := hc8 hne8.1
      have hb := hbody hne7
      have hr1 : rem p = (.IDENT, p.cur.val) :: rem p1 := by
        rw [rem_skip1 hs1 (by rw [ht1]; rfl), ht1]
      have hr2 : rem p2 = (.LCURLY, p2.cur.val) :: rem p3 := by
        rw [rem_skip1 hs3 (by rw [ht3]; rfl), ht3]
      have hr3 : rem q0 = rem p3 := by rw [rem_tf htf6.1 htf6.2.1, rem_tf htf5.1 htf5.2.1, rem_tf htf4.1 htf4.2.1]
      have hr8 : rem q1 = (.RCURLY, q1.cur.val) :: rem q3 := by
        rw [rem_skip1 hs8 (by rw [ht8]; rfl), ht8, rem_tf htf9.1 htf9.2.1]
      have hnm' := hnm hne2 (rem p3) p2.cur.val
      have hnmr : (match rem p1 with
            | (.STR, v) :: (.LCURLY, _) :: r2 => ((unquote v).getD [], r2)
            | (.LCURLY, _) :: r2 => ([], r2)
            | _ => (([] : Bytes), rem p1)) = (blockName, rem p3) := by
        rcases hnm' with h | h
        · exact h
        · exact absurd hr2 h
      have hEp3 : p3.E = p.E := by rw [hE3, hE2, hE1]
      simp only [shapeS, satomsS]
      rw [hr1]
      simp only [runS]
      rw [hnmr]
      simp only
      have hti : ti = (identConstE p.cur.val p.E).1 := by rw [ei1, hEp3, hprev1]
      have hE4 : p4.E = (identConstE p.cur.val p.E).2 := by rw [ei2, hEp3, hprev1]
      have hni : ni = (makeConstE (.str blockName) (identConstE p.cur.val p.E).2).1 := by rw [em1, hE4]
      have hE5 : p5.E = (makeConstE (.str blockName) (identConstE p.cur.val p.E).2).2 := by rw [em2, hE4]
      have hE0 : q0.E = beginE (makeConstE (.str blockName) (identConstE p.cur.val p.E).2).2 := by rw [hE6, hE5]
      rw [← hE0, ← hr3, hb]
      simp only
      rw [hr8]
      simp only
      rw [← hE8, ← ee1, ← ee2, hti, hni]
    rw [wp_bind]
    apply wp_mono (wp_and (match_cons .STR (by decide) p1 hg1.inv) (wp_epf (match_ep _) p1))
    intro b p2 hq2
    obtain ⟨⟨hg2, hf2, ht2⟩, hE2⟩ := hq2
    dsimp only
    split
    · rename_i hb
      obtain ⟨hct, hprev2, hs2⟩ := ht2 hb
      rw [wp_bind, wp_get]
      split
      · rename_i s hs
        refine tail _ p2 hg2 hE2 (fun hne r2 v => ?_)
        by_cases h : rem p2 = (.LCURLY, v) :: r2
        · left
          rw [rem_skip1 (hs2 hne.1) (by rw [hct]; rfl), hct, h]
          simp only
          rw [← hprev2, hs]; rfl
        · right; exact h
      · rw [wp_bind]
        apply wp_mono (wp_and (error_wp _ p2 hg2.inv) (wp_epf (error_ep _) p2))
        intro _ p3 hq3
        exact tail _ p3 (hg2.trans hq3.1.1) (hq3.2.trans hE2) (fun hne => absurd hne (ne_false_of_err hq3.1.2))
    · rename_i hb
      obtain ⟨rfl, hnstr⟩ := hf2 (by simpa using hb)
      refine tail _ p2 hg2 rfl (fun hne r2 v => ?_)
      by_cases h : rem p2 = (.LCURLY, v) :: r2
      · left; rw [h]
      · right; exact h

/-- **Statements, run by run.** -/
theorem stmts_leaves : ∀ (f : Nat),
    (∀ p, GInv p → wp (decl f) (SPostL p) p) ∧
    (∀ p, GInv p → wp (stmt f) (SPostL p) p) ∧
    (∀ p, GInv p → wp (blockStmt f) (BPostL p) p) ∧
    (∀ p, GInv p → wp (blockLoop f) (LPostL p) p)
  | 0 => by
    refine ⟨?_, ?_, ?_, ?_⟩
    · intro p hi; unfold decl; rw [wp_bind]
      apply wp_mono (stuck_wp p hi); intro _ p1 h; rw [wp_pure]
      exact ⟨h.1, fun hne => absurd hne (ne_false_of_stuck h.2.2)⟩
    · intro p hi; unfold stmt; rw [wp_bind]
      apply wp_mono (stuck_wp p hi); intro _ p1 h; rw [wp_pure]
      exact ⟨h.1, fun hne => absurd hne (ne_false_of_stuck h.2.2)⟩
    · intro p hi; unfold blockStmt; rw [wp_bind]
      apply wp_mono (stuck_wp p hi); intro _ p1 h; rw [wp_pure]
      exact ⟨h.1, fun hne => absurd hne (ne_false_of_stuck h.2.2)⟩
    · intro p hi; unfold blockLoop; rw [wp_bind]
      apply wp_mono (stuck_wp p hi); intro _ p1 h; rw [wp_pure]
      exact ⟨h.1, fun hne => absurd hne (ne_false_of_stuck h.2.2)⟩
  | f+1 => by
    obtain ⟨ihD, ihS, ihB, ihL⟩ := stmts_leaves f
    exact ⟨decl_l_step f ihS, stmt_l_step f ihB, blockStmt_l_step f ihL, blockLoop_l_step f ihD ihL⟩

/-! ### programs -/

def TPostL (p : PState) : Stmts → PState → Prop := fun sts p' =>
  GM p p' ∧ (NE p' → ∃ tl, runSs (shapeSs sts) (rem p) p.E = (satomsSs sts, tl, p'.E))

theorem topLoop_l : ∀ (f : Nat) (p : PState), GInv p → wp (topLoop f) (TPostL p) p
  | 0, p, hi => by
    unfold topLoop; rw [wp_bind]
    apply wp_mono (stuck_wp p hi); intro _ p1 h; rw [wp_pure]
    exact ⟨h.1, fun hne => absurd hne (ne_false_of_stuck h.2.2)⟩
  | f+1, p, hi => by
    unfold topLoop matchEnd checkEnd
    rw [wp_bind, wp_bind, wp_bind, wp_get, wp_pure]
    split
    · rw [wp_bind]
      apply wp_mono (wp_and (show wp advance (fun _ p' => GM p p') p from advance_gr.h p hi) (wp_epf advance_ep p))
      intro _ p1 hq1
      rw [wp_pure]
      simp only [if_true]
      rw [wp_pure]
      exact ⟨hq1.1, fun _ => ⟨rem p, by rw [hq1.2]; rfl⟩⟩
    · rw [wp_pure]
      simp only [Bool.false_eq_true, if_false]
      rw [wp_bind]
      apply wp_mono ((stmts_leaves f).1 p hi)
      intro s p2 hq2
      obtain ⟨hg2, hs2⟩ := hq2
      rw [wp_bind]
      apply wp_mono (wp_and (match_cons .SEMICOLON (by decide) p2 hg2.inv) (wp_epf (match_ep _) p2))
      intro b p3 hq3
      obtain ⟨⟨hg3, hf3, ht3⟩, hE3⟩ := hq3
      rw [wp_bind]
      apply wp_mono (topLoop_l f p3 hg3.inv)
      intro rest p4 hq4
      rw [wp_pure]
      refine ⟨(hg2.trans hg3).trans hq4.1, fun hne => ?_⟩
      obtain ⟨tl, h4⟩ := hq4.2 hne
      have hne3 : NE p3 := hq4.1.ne hne
      have hne2 : NE p2 := hg3.ne hne3
      have h2 := hs2 hne2
      have hrem : rem p3 = rem p2 := by
        cases b with
        | true =>
          obtain ⟨hc3, _, hs3⟩ := ht3 rfl
          exact (semi_rem (hs3 hne3.1) hc3).symm
        | false => obtain ⟨rfl, _⟩ := hf3 rfl; rfl
      refine ⟨tl, ?_⟩
      simp only [shapeSs, satomsSs, runSs]
      rw [h2]
      simp only
      rw [← hrem, ← hE3, h4]

/-- the state the parser starts from, as far as resolution and the pool go -/
def E0 : ES := ⟨#[], [], [], 0⟩

/-- **The resolved items of an accepted program are a run of its shape over the core tokens**:
constants, slots, block-type and block-name constants, the numbers of locals popped, the bind
options — and the final constant pool — are what `runSs` makes of kinds and texts of the tokens
other than parentheses and semicolons. -/
theorem parse_leaves (toks : List Token) (lfs : List Nat) (hend : lastEnd toks = true)
    (hnf : ∀ t ∈ toks, t.typ ≠ .FAIL) (hok : (parseTokens toks lfs).ok = true) :
    ∃ tl Ef, runSs (shapeSs (parseTokens toks lfs).prog.body) (coreOf toks) E0
        = (satomsSs (parseTokens toks lfs).prog.body, tl, Ef)
      ∧ (parseTokens toks lfs).consts = Ef.consts.toList
      ∧ (parseTokens toks lfs).prog.npop = Ef.locals.length := by
  have hns := parse_not_stuck toks lfs hend
  have hi0 : GInv ({ rest := toks, lfs := lfs } : PState) :=
    ⟨TE_init toks lfs hend, fun h => Bool.noConfusion h, rfl, hnf⟩
  have hne0 : toks ≠ [] := by intro h; rw [h] at hend; cases hend
  have hrun : wp (do advance; let body ← topLoop (4 * toks.length + 16); let p ← get
                     return ({ body, npop := p.locals.length, endPos := p.prev.pos } : Program))
      (fun prog p' => NE p' → ∃ tl, runSs (shapeSs prog.body) (coreOf toks) E0 = (satomsSs prog.body, tl, p'.E)
        ∧ prog.npop = p'.locals.length)
      ({ rest := toks, lfs := lfs } : PState) := by
    rw [wp_bind]
    have h1 : wp advance (fun _ p1 => (GM ({ rest := toks, lfs := lfs } : PState) p1 ∧
        (p1.hadError = false → toks = p1.cur :: p1.rest)) ∧ p1.E = E0) ({ rest := toks, lfs := lfs } : PState) := by
      refine ⟨⟨advance_gr.h _ hi0, ?_⟩, advance_ep.h _⟩
      have : wp advance (fun _ p' => p'.hadError = false → toks ≠ [] → toks = p'.cur :: p'.rest)
          ({ rest := toks, lfs := lfs } : PState) := by
        unfold advance
        rw [wp_bind, wp_modify, wp_bind, wp_get]
        exact advanceLoop_noerr toks _
      intro h; exact this h hne0
    apply wp_mono h1
    intro _ p1 hq1
    obtain ⟨⟨hg1, ht1⟩, hE1⟩ := hq1
    rw [wp_bind]
    apply wp_mono (topLoop_l _ p1 hg1.inv)
    intro body p2 hq2
    rw [wp_bind, wp_get, wp_pure]
    intro hne
    obtain ⟨tl, h2⟩ := hq2.2 hne
    have hne1 : NE p1 := hq2.1.ne hne
    refine ⟨tl, ?_, rfl⟩
    have : rem p1 = coreOf toks := by unfold rem; rw [← ht1 hne1.1]
    rw [← this, ← hE1]; exact h2
  unfold parseTokens at hok hns ⊢
  simp only [StateT.run] at hok hns ⊢
  unfold wp at hrun
  revert hok hns hrun
  generalize ((advance >>= fun _ => do
    let body ← topLoop (4 * toks.length + 16)
    let p ← get
    pure ({ body := body, npop := p.locals.length, endPos := p.prev.pos } : Program) : PM Program)
    { rest := toks, lfs := lfs }) = r
  obtain ⟨a, q⟩ := r
  intro hok hns hrun
  simp only at hok hns hrun ⊢
  have hne : NE q := ⟨by simpa using hok, by simpa using hns⟩
  obtain ⟨tl, h, hn⟩ := hrun hne
  exact ⟨tl, q.E, h, rfl, hn⟩

/-! ## a program is its shape and its resolved items -/

theorem stripE_eq_erE : ∀ (e : Expr), stripE e = erE e := by
  intro e
  induction e with
  | lit | const | getLocal | getField | bad => rfl
  | setLocal s e p ih => simp [stripE, erE, ih]
  | setField i e p ih => simp [stripE, erE, ih]
  | un op e p ih => simp [stripE, erE, ih]
  | bin op a b p iha ihb => simp [stripE, erE, iha, ihb]
  | and a b p iha ihb => simp [stripE, erE, iha, ihb]
  | or a b p iha ihb => simp [stripE, erE, iha, ihb]

theorem erE_eq_of (a b : Expr) (hs : shape a = shape b) (hr : (ratoms a).map SAtom.op = (ratoms b).map SAtom.op) :
    erE a = erE b := by
  rw [← stripE_eq_erE, ← stripE_eq_erE]
  apply strip_eq_of_shape_ratoms _ _ hs
  have inj : ∀ (x y : List RAtom), x.map SAtom.op = y.map SAtom.op → x = y := by
    intro x
    induction x with
    | nil => intro y h; cases y <;> simp at h ⊢
    | cons a as ih =>
      intro y h
      cases y with
      | nil => simp at h
      | cons b bs =>
        simp only [List.map_cons, List.cons.injEq, SAtom.op.injEq] at h
        rw [h.1, ih bs h.2]
  exact inj _ _ hr

mutual
def ShS.sw : ShS → Nat
  | .var0 => 0
  | .var1 s => s.width
  | .print s => s.width
  | .eval s => s.width
  | .block b => 3 + b.sw
  | .bind => 2
  | .bad => 0
def ShSs.sw : ShSs → Nat
  | .nil => 0
  | .cons s r => s.sw + r.sw
end

mutual
theorem satomsS_length : ∀ (a : Stmt), (satomsS a).length = (shapeS a).sw
  | .var none _ => rfl
  | .var (some e) _ => by simp [satomsS, shapeS, ShS.sw, ratoms_length]
  | .print e _ => by simp [satomsS, shapeS, ShS.sw, ratoms_length]
  | .eval e _ => by simp [satomsS, shapeS, ShS.sw, ratoms_length]
  | .block _ _ _ body _ _ => by
    have := satomsSs_length body
    simp [satomsS, shapeS, ShS.sw, this]; omega
  | .bind .. => rfl
  | .bad => rfl
theorem satomsSs_length : ∀ (a : Stmts), (satomsSs a).length = (shapeSs a).sw
  | .nil => rfl
  | .cons s r => by
    have h1 := satomsS_length s
    have h2 := satomsSs_length r
    simp [satomsSs, shapeSs, ShSs.sw, h1, h2]
end

mutual
theorem erS_eq_of : ∀ (a b : Stmt), shapeS a = shapeS b → satomsS a = satomsS b → erS a = erS b
  | .var none _, b, hs, _ => by
    cases b with
    | var init _ => cases init <;> simp [shapeS] at hs <;> rfl
    | _ => simp [shapeS] at hs
  | .var (some e) _, b, hs, hr => by
    cases b with
    | var init _ =>
      cases init with
      | none => simp [shapeS] at hs
      | some e' =>
        simp only [shapeS, ShS.var1.injEq] at hs
        simp only [satomsS] at hr
        simp [erS, erE_eq_of e e' hs hr]
    | _ => simp [shapeS] at hs
  | .print e _, b, hs, hr => by
    cases b with
    | print e' _ =>
      simp only [shapeS, ShS.print.injEq] at hs
      simp only [satomsS] at hr
      simp [erS, erE_eq_of e e' hs hr]
    | var init _ => cases init <;> simp [shapeS] at hs
    | _ => simp [shapeS] at hs
  | .eval e _, b, hs, hr => by
    cases b with
    | eval e' _ =>
      simp only [shapeS, ShS.eval.injEq] at hs
      simp only [satomsS] at hr
      simp [erS, erE_eq_of e e' hs hr]
    | var init _ => cases init <;> simp [shapeS] at hs
    | _ => simp [shapeS] at hs
  | .block ti ni _ body npop _, b, hs, hr => by
    cases b with
    | block ti' ni' _ body' npop' _ =>
      simp only [shapeS, ShS.block.injEq] at hs
      simp only [satomsS, List.cons.injEq, SAtom.idx.injEq] at hr
      obtain ⟨h1, h2, h3⟩ := hr
      have hl : (satomsSs body).length = (satomsSs body').length := by
        rw [satomsSs_length, satomsSs_length, hs]
      obtain ⟨h4, h5⟩ := List.append_inj h3 hl
      simp only [List.cons.injEq, SAtom.cnt.injEq, and_true] at h5
      simp [erS, h1, h2, h5, erSs_eq_of body body' hs h4]
    | var init _ => cases init <;> simp [shapeS] at hs
    | _ => simp [shapeS] at hs
  | .bind ti o _, b, hs, hr => by
    cases b with
    | bind ti' o' _ =>
      simp only [satomsS, List.cons.injEq, SAtom.idx.injEq, SAtom.opt.injEq, and_true] at hr
      simp [erS, hr.1, hr.2]
    | var init _ => cases init <;> simp [shapeS] at hs
    | _ => simp [shapeS] at hs
  | .bad, b, hs, _ => by
    cases b with
    | bad => rfl
    | var init _ => cases init <;> simp [shapeS] at hs
    | _ => simp [shapeS] at hs
theorem erSs_eq_of : ∀ (a b : Stmts), shapeSs a = shapeSs b → satomsSs a = satomsSs b → erSs a = erSs b
  | .nil, b, hs, _ => by
    cases b with
    | nil => rfl
    | cons _ _ => simp [shapeSs] at hs
  | .cons s r, b, hs, hr => by
    cases b with
    | nil => simp [shapeSs] at hs
    | cons s' r' =>
      simp only [shapeSs, ShSs.cons.injEq] at hs
      simp only [satomsSs] at hr
      have hl : (satomsS s).length = (satomsS s').length := by
        rw [satomsS_length, satomsS_length, hs.1]
      obtain ⟨h1, h2⟩ := List.append_inj hr hl
      simp [erSs, erS_eq_of s s' hs.1 h1, erSs_eq_of r r' hs.2 h2]
end

/-- **Same shape, same core tokens: the same program.**  Two accepted token lists whose program
trees have the same shape and which agree, kind and text, on every token other than `(`, `)` and
`;` give the same program tree up to the recorded positions, the same constant pool and the same
instruction bytes. -/
theorem same_core_same_program (ta tb : List Token) (la lb : List Nat)
    (henda : lastEnd ta = true) (hendb : lastEnd tb = true)
    (hnfa : ∀ t ∈ ta, t.typ ≠ .FAIL) (hnfb : ∀ t ∈ tb, t.typ ≠ .FAIL)
    (hoka : (parseTokens ta la).ok = true) (hokb : (parseTokens tb lb).ok = true)
    (hsh : shapeSs (parseTokens ta la).prog.body = shapeSs (parseTokens tb lb).prog.body)
    (hcore : coreOf ta = coreOf tb) :
    erP (parseTokens ta la).prog = erP (parseTokens tb lb).prog
    ∧ (parseTokens ta la).consts = (parseTokens tb lb).consts
    ∧ (compileP (parseTokens ta la).prog).map Prod.fst = (compileP (parseTokens tb lb).prog).map Prod.fst := by
  obtain ⟨tla, Ea, hra, hca, hna⟩ := parse_leaves ta la henda hnfa hoka
  obtain ⟨tlb, Eb, hrb, hcb, hnb⟩ := parse_leaves tb lb hendb hnfb hokb
  rw [hsh, hcore, hrb] at hra
  have hsat : satomsSs (parseTokens tb lb).prog.body = satomsSs (parseTokens ta la).prog.body := congrArg Prod.fst hra
  have hE : Eb = Ea := congrArg (fun x => x.2.2) hra
  have hbody := erSs_eq_of _ _ hsh hsat.symm
  have hP : erP (parseTokens ta la).prog = erP (parseTokens tb lb).prog := by
    unfold erP
    rw [hbody, hna, hnb, hE]
  refine ⟨hP, by rw [hca, hcb, hE], ?_⟩
  rw [code_erP, code_erP (parseTokens tb lb).prog, hP]

end Bclv
