import Bclv.Model.Parser
namespace Bclv

theorem toList_loop_len (bs : ByteArray) (i : Nat) (r : List UInt8) :
    (ByteArray.toList.loop bs i r).length = r.length + (bs.size - i) := by
  fun_induction ByteArray.toList.loop bs i r with
  | case1 i r h ih => rw [ih]; simp; omega
  | case2 i r h => simp; omega

theorem str_length (s : String) : (str s).length = s.utf8ByteSize := by
  unfold str ByteArray.toList
  rw [toList_loop_len]; simp

theorem str_line_ne (x : Bytes) : str "line " ++ x ≠ [] := by
  intro h
  have := congrArg List.length h
  rw [List.length_append, str_length] at this
  have h5 : "line ".utf8ByteSize = 5 := by decide
  rw [h5] at this
  simp at this

/-- The error flag is set exactly when something has been logged, and every logged
entry is a non-empty line. -/
def IsDiag (e : Bytes) : Prop := ∃ (lc tail : Bytes), e = str "line " ++ lc ++ str ": error" ++ tail

theorem IsDiag.ne_nil {e : Bytes} (h : IsDiag e) : e ≠ [] := by
  obtain ⟨lc, tail, rfl⟩ := h
  simp only [List.append_assoc]; exact str_line_ne _

def DInv (p : PState) : Prop := (p.hadError = true ↔ p.log ≠ []) ∧ ∀ e ∈ p.log, IsDiag e

/-- `m` keeps the invariant. -/
structure PPres {α : Type} (m : PM α) : Prop where
  h : ∀ p, DInv p → DInv (m p).2

theorem PPres.pure {α} (a : α) : PPres (pure a : PM α) := ⟨fun _ h => h⟩
theorem PPres.bind {α β} {m : PM α} {f : α → PM β} (hm : PPres m) (hf : ∀ a, PPres (f a)) : PPres (m >>= f) :=
  ⟨fun p hp => (hf _).h _ (hm.h p hp)⟩
theorem PPres.get : PPres (get : PM PState) := ⟨fun _ h => h⟩
theorem PPres.modify {g : PState → PState} (hg : ∀ p, DInv p → DInv (g p)) : PPres (_root_.modify g : PM Unit) := ⟨fun p hp => hg p hp⟩
theorem PPres.ite {α} {c : Prop} [Decidable c] {x y : PM α} (hx : PPres x) (hy : PPres y) : PPres (if c then x else y) := by
  split <;> assumption

theorem errorAt_pres (t : Token) (msg : Bytes) : PPres (errorAt t msg) := by
  apply PPres.modify
  intro p hp
  refine ⟨by simp, ?_⟩
  intro e he
  simp only [List.mem_cons] at he
  rcases he with rfl | he
  · exact ⟨fmtPos p.lfs t.pos, _, by simp only [List.append_assoc]; rfl⟩
  · exact hp.2 e he

theorem errorAtCurrent_pres (msg : Bytes) : PPres (errorAtCurrent msg) := by
  unfold errorAtCurrent
  exact PPres.bind PPres.get (fun _ => errorAt_pres _ _)

theorem error_pres (msg : Bytes) : PPres (error msg) := by
  unfold error
  exact PPres.bind PPres.get (fun _ => errorAt_pres _ _)

theorem advanceLoop_pres : ∀ (ts : List Token), PPres (advanceLoop ts)
  | [] => by unfold advanceLoop; exact PPres.modify (fun p h => h)
  | t :: ts => by
    unfold advanceLoop
    refine PPres.bind (PPres.modify (fun p h => h)) (fun _ => ?_)
    split
    · exact PPres.bind (errorAtCurrent_pres _) (fun _ => advanceLoop_pres ts)
    · exact PPres.pure _

theorem advance_pres : PPres advance := by
  unfold advance
  exact PPres.bind (PPres.modify (fun p h => h)) (fun _ => PPres.bind PPres.get (fun _ => advanceLoop_pres _))

/-- lemmas about already-treated functions are registered here -/
syntax "pres_known" : tactic
macro_rules | `(tactic| pres_known) => `(tactic| exact PPres.pure _)
macro_rules | `(tactic| pres_known) => `(tactic| exact PPres.get)
macro_rules | `(tactic| pres_known) => `(tactic| exact errorAt_pres _ _)
macro_rules | `(tactic| pres_known) => `(tactic| exact errorAtCurrent_pres _)
macro_rules | `(tactic| pres_known) => `(tactic| exact error_pres _)
macro_rules | `(tactic| pres_known) => `(tactic| exact advanceLoop_pres _)
macro_rules | `(tactic| pres_known) => `(tactic| exact advance_pres)

theorem PPres.modify_frame {g : PState → PState} (h1 : ∀ p, (g p).hadError = p.hadError) (h2 : ∀ p, (g p).log = p.log) :
    PPres (_root_.modify g : PM Unit) := by
  refine ⟨fun p hp => ?_⟩
  show DInv (g p)
  unfold DInv at *
  rw [h1, h2]; exact hp

theorem PPres.forIn {α β : Type} (l : List α) (f : α → β → PM (ForInStep β)) (hf : ∀ a b, PPres (f a b)) :
    ∀ (init : β), PPres (forIn l init f) := by
  induction l with
  | nil => intro init; simp only [List.forIn_nil]; exact PPres.pure _
  | cons x xs ih =>
    intro init
    simp only [List.forIn_cons]
    apply PPres.bind (hf x init)
    intro r
    cases r with
    | done b => exact PPres.pure _
    | yield b => exact ih b

macro "pres" : tactic => `(tactic| repeat' (first
  | assumption
  | pres_known
  | apply PPres.bind
  | apply PPres.ite
  | apply PPres.forIn
  | (apply PPres.modify_frame <;> intro _ <;> rfl)
  | intro _
  | split
  | dsimp only))

theorem check_pres (t : TokType) : PPres (check t) := by unfold check; pres
macro_rules | `(tactic| pres_known) => `(tactic| exact check_pres _)
theorem checkEnd_pres : PPres checkEnd := by unfold checkEnd; pres
macro_rules | `(tactic| pres_known) => `(tactic| exact checkEnd_pres)
theorem consume_pres (t : TokType) (msg : Bytes) : PPres (consume t msg) := by unfold consume; pres
macro_rules | `(tactic| pres_known) => `(tactic| exact consume_pres _ _)
theorem match_pres (t : TokType) : PPres («match» t) := by unfold «match»; pres
macro_rules | `(tactic| pres_known) => `(tactic| exact match_pres _)
theorem matchEnd_pres : PPres matchEnd := by unfold matchEnd; pres
macro_rules | `(tactic| pres_known) => `(tactic| exact matchEnd_pres)

theorem syncLoop_pres : ∀ (f : Nat), PPres (syncLoop f)
  | 0 => by unfold syncLoop; pres
  | f+1 => by
    unfold syncLoop
    have := syncLoop_pres f
    pres
macro_rules | `(tactic| pres_known) => `(tactic| exact syncLoop_pres _)
theorem sync_pres (f : Nat) : PPres (sync f) := by unfold sync; pres
macro_rules | `(tactic| pres_known) => `(tactic| exact sync_pres _)

theorem addConst_pres (v : Value) : PPres (addConst v) :=
  ⟨fun p hp => by
    simp only [addConst, bind, StateT.bind, get, getThe, MonadStateOf.get, StateT.get, set, StateT.set, pure, StateT.pure]
    exact hp⟩
macro_rules | `(tactic| pres_known) => `(tactic| exact addConst_pres _)

theorem makeConst_pres (v : Value) : PPres (makeConst v) := by unfold makeConst; pres
macro_rules | `(tactic| pres_known) => `(tactic| exact makeConst_pres _)
theorem identConst_pres (n : Bytes) : PPres (identConst n) := by unfold identConst; pres
macro_rules | `(tactic| pres_known) => `(tactic| exact identConst_pres _)
theorem beginScope_pres : PPres beginScope := by unfold beginScope; pres
macro_rules | `(tactic| pres_known) => `(tactic| exact beginScope_pres)
theorem endScope_pres : PPres endScope :=
  ⟨fun p hp => by
    simp only [endScope, bind, StateT.bind, get, getThe, MonadStateOf.get, StateT.get, set, StateT.set, pure, StateT.pure]
    exact hp⟩
macro_rules | `(tactic| pres_known) => `(tactic| exact endScope_pres)
theorem addLocal_pres (n : Bytes) : PPres (addLocal n) := by unfold addLocal; pres
macro_rules | `(tactic| pres_known) => `(tactic| exact addLocal_pres _)
theorem markInitialized_pres : PPres markInitialized := by
  unfold markInitialized
  apply PPres.modify
  intro p hp
  split <;> exact hp
macro_rules | `(tactic| pres_known) => `(tactic| exact markInitialized_pres)
theorem setStuck_pres : PPres setStuck := by unfold setStuck; pres
macro_rules | `(tactic| pres_known) => `(tactic| exact setStuck_pres)

theorem declVar_pres : PPres declVar := by
  unfold declVar
  pres
macro_rules | `(tactic| pres_known) => `(tactic| exact declVar_pres)

set_option maxHeartbeats 2000000 in
theorem bindSel_pres : PPres bindSel := by
  unfold bindSel
  pres
macro_rules | `(tactic| pres_known) => `(tactic| exact bindSel_pres)
theorem bindTarget_pres (m : Bytes) : PPres (bindTarget m) := by
  unfold bindTarget
  pres
macro_rules | `(tactic| pres_known) => `(tactic| exact bindTarget_pres _)
set_option maxHeartbeats 2000000 in
theorem bindStmt_pres : PPres bindStmt := by
  unfold bindStmt
  pres

macro_rules | `(tactic| pres_known) => `(tactic| exact bindStmt_pres)

set_option maxHeartbeats 8000000 in
/-- expressions: the three mutually recursive functions, by induction on the fuel -/
theorem expr_pres_all : ∀ (f : Nat),
    (∀ prec, PPres (parsePrecedence prec f)) ∧ (∀ prec left, PPres (infixLoop prec left f))
    ∧ (∀ rule ca, PPres (prefixRule rule ca f))
  | 0 => by
    refine ⟨fun prec => ?_, fun prec left => ?_, fun rule ca => ?_⟩
    · unfold parsePrecedence; pres
    · unfold infixLoop; pres
    · unfold prefixRule; pres
  | f+1 => by
    obtain ⟨ih1, ih2, ih3⟩ := expr_pres_all f
    refine ⟨fun prec => ?_, fun prec left => ?_, fun rule ca => ?_⟩
    · unfold parsePrecedence
      pres
      all_goals first | exact ih1 _ | exact ih2 _ _ | exact ih3 _ _ | skip
    · unfold infixLoop
      pres
      all_goals first | exact ih1 _ | exact ih2 _ _ | exact ih3 _ _ | skip
    · unfold prefixRule
      cases rule <;> (pres <;> first | exact ih1 _ | exact ih2 _ _ | exact ih3 _ _ | skip)

theorem expr_pres (f : Nat) : PPres (expr f) := by unfold expr; exact (expr_pres_all f).1 _
macro_rules | `(tactic| pres_known) => `(tactic| exact expr_pres _)

set_option maxHeartbeats 2000000 in
theorem varDecl_pres (f : Nat) : PPres (varDecl f) := by unfold varDecl; pres
macro_rules | `(tactic| pres_known) => `(tactic| exact varDecl_pres _)

set_option maxHeartbeats 8000000 in
theorem stmt_pres_all : ∀ (f : Nat),
    PPres (decl f) ∧ PPres (stmt f) ∧ PPres (blockStmt f) ∧ PPres (blockLoop f)
  | 0 => by
    refine ⟨?_, ?_, ?_, ?_⟩
    · unfold decl; pres
    · unfold stmt; pres
    · unfold blockStmt; pres
    · unfold blockLoop; pres
  | f+1 => by
    obtain ⟨ih1, ih2, ih3, ih4⟩ := stmt_pres_all f
    refine ⟨?_, ?_, ?_, ?_⟩
    · unfold decl; pres
    · unfold stmt; pres
    · unfold blockStmt; pres
    · unfold blockLoop; pres

theorem decl_pres (f : Nat) : PPres (decl f) := (stmt_pres_all f).1
macro_rules | `(tactic| pres_known) => `(tactic| exact decl_pres _)

theorem topLoop_pres : ∀ (f : Nat), PPres (topLoop f)
  | 0 => by unfold topLoop; pres
  | f+1 => by
    have := topLoop_pres f
    unfold topLoop; pres

/-- **Rejected iff diagnosed.**  The parser reports failure exactly when it has written at
least one diagnostic: every rejection comes with a `line L:C: error…` line, every
acceptance is silent. -/
theorem reject_iff_diagnostic (toks : List Token) (lfs : List Nat) :
    (parseTokens toks lfs).ok = false ↔ (parseTokens toks lfs).log ≠ [] := by
  have hrun : PPres (do advance; let body ← topLoop (4 * toks.length + 16); let p ← get
                        return ({ body, npop := p.locals.length, endPos := p.prev.pos } : Program)) := by
    have := topLoop_pres (4 * toks.length + 16)
    pres
  have hinv := hrun.h { rest := toks, lfs := lfs } (by simp [DInv])
  simp only [parseTokens, StateT.run]
  obtain ⟨h1, h2⟩ := hinv
  generalize ((do advance; let body ← topLoop (4 * toks.length + 16); let p ← get
                  return ({ body, npop := p.locals.length, endPos := p.prev.pos } : Program)) : PM Program)
      { rest := toks, lfs := lfs } = res at h1 h2 ⊢
  have hflat : res.2.log.reverse.flatten ≠ [] ↔ res.2.log ≠ [] := by
    constructor
    · intro h hnil; rw [hnil] at h; simp at h
    · intro h hf
      cases hl : res.2.log with
      | nil => exact h hl
      | cons e es =>
        rw [hl] at hf h2
        have hne := (h2 e (by simp)).ne_nil
        simp only [List.reverse_cons, List.flatten_append, List.flatten_cons, List.flatten_nil, List.append_nil,
          List.append_eq_nil_iff] at hf
        exact hne hf.2
  obtain ⟨prog, pst⟩ := res
  simp only at h1 h2 hflat ⊢
  rw [hflat, ← h1]
  simp

/-- **Every diagnostic has the documented form**: the log is a sequence of lines, each
`line L:C: error…`. -/
theorem diagnostics_form (toks : List Token) (lfs : List Nat) :
    ∃ entries : List Bytes, (parseTokens toks lfs).log = entries.flatten ∧ ∀ e ∈ entries, IsDiag e := by
  have hrun : PPres (do advance; let body ← topLoop (4 * toks.length + 16); let p ← get
                        return ({ body, npop := p.locals.length, endPos := p.prev.pos } : Program)) := by
    have := topLoop_pres (4 * toks.length + 16)
    pres
  have hinv := hrun.h { rest := toks, lfs := lfs } (by simp [DInv])
  simp only [parseTokens, StateT.run]
  generalize ((do advance; let body ← topLoop (4 * toks.length + 16); let p ← get
                  return ({ body, npop := p.locals.length, endPos := p.prev.pos } : Program)) : PM Program)
      { rest := toks, lfs := lfs } = res at hinv ⊢
  obtain ⟨prog, pst⟩ := res
  exact ⟨pst.log.reverse, rfl, fun e he => hinv.2 e (by simpa using he)⟩

end Bclv
