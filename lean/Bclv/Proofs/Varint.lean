import Bclv.Model.Varint
/-!
# Round trip and prefix-freeness of the sqlite4 varint
-/
namespace Bclv

theorem beBytes_length (n x : Nat) : (beBytes n x).length = n := by
  induction n with
  | zero => rfl
  | succ n ih => simp [beBytes, ih]

theorem beFold_acc (acc : Nat) (bs : Bytes) :
    bs.foldl (fun a b => a * 256 + b.toNat) acc
      = acc * 256 ^ bs.length + bs.foldl (fun a b => a * 256 + b.toNat) 0 := by
  induction bs generalizing acc with
  | nil => simp
  | cons x xs ih =>
    simp only [List.foldl_cons, List.length_cons]
    rw [ih (acc * 256 + x.toNat), ih (0 * 256 + x.toNat)]
    rw [Nat.pow_succ]
    generalize 256 ^ xs.length = p
    generalize List.foldl (fun a b => a * 256 + b.toNat) 0 xs = F
    have : acc * 256 * p = acc * (p * 256) := by rw [Nat.mul_assoc, Nat.mul_comm 256 p]
    simp only [Nat.add_mul, Nat.zero_mul, Nat.zero_add]
    omega

theorem beVal_cons (b : UInt8) (bs : Bytes) : beVal (b :: bs) = b.toNat * 256 ^ bs.length + beVal bs := by
  unfold beVal
  simp only [List.foldl_cons]
  rw [beFold_acc]
  simp

theorem beBytes_mod (m y : Nat) : beBytes m y = beBytes m (y % 256 ^ m) := by
  induction m generalizing y with
  | zero => rfl
  | succ m ihm =>
    simp only [beBytes]
    have h1 : y % 256 ^ (m + 1) / 256 ^ m % 256 = y / 256 ^ m % 256 := by
      rw [Nat.pow_succ, Nat.mod_mul_right_div_self]
      exact Nat.mod_mod _ _
    rw [h1, ihm y, ihm (y % 256 ^ (m + 1))]
    congr 2
    rw [Nat.pow_succ]
    exact (Nat.mod_mul_right_mod _ _ _).symm

theorem beVal_beBytes (n x : Nat) (h : x < 256 ^ n) : beVal (beBytes n x) = x := by
  induction n generalizing x with
  | zero => simp [beBytes, beVal] at *; omega
  | succ n ih =>
    simp only [beBytes]
    rw [beVal_cons, beBytes_length]
    have hx : x / 256 ^ n < 256 := by
      rw [Nat.div_lt_iff_lt_mul (Nat.pow_pos (by decide))]
      rw [Nat.pow_succ] at h; rw [Nat.mul_comm]; exact h
    have hb : (UInt8.ofNat (x / 256 ^ n % 256)).toNat = x / 256 ^ n := by
      rw [Nat.mod_eq_of_lt hx]; simp [UInt8.toNat_ofNat']; exact hx
    rw [hb, beBytes_mod n x, ih _ (Nat.mod_lt _ (Nat.pow_pos (by decide)))]
    exact Nat.div_add_mod' x (256 ^ n)

end Bclv

namespace Bclv

theorem u8_toNat_ofNat (n : Nat) (h : n < 256) : (UInt8.ofNat n).toNat = n := by
  simp [UInt8.toNat_ofNat']; omega

theorem u8_le_iff (a b : UInt8) : a ≤ b ↔ a.toNat ≤ b.toNat := UInt8.le_iff_toNat_le

theorem u8_eq_iff (a b : UInt8) : a = b ↔ a.toNat = b.toNat := by
  constructor
  · intro h; rw [h]
  · intro h; exact UInt8.toNat_inj.mp h

/-- Decoding a big-endian form `tag :: beBytes k x ++ rest` with `tag = 246 + k + 1`. -/
theorem uvDec_be (k x : Nat) (rest : Bytes) (hk : 3 ≤ k ∧ k ≤ 8) (hx : x < 256 ^ k) :
    uvDec (UInt8.ofNat (247 + k) :: (beBytes k x ++ rest)) = some (x, rest) := by
  have ht : (UInt8.ofNat (247 + k)).toNat = 247 + k := u8_toNat_ofNat _ (by omega)
  unfold uvDec
  simp only [uvLen, u8_le_iff, u8_eq_iff, ht]
  have e240 : (240 : UInt8).toNat = 240 := rfl
  have e248 : (248 : UInt8).toNat = 248 := rfl
  have e249 : (249 : UInt8).toNat = 249 := rfl
  simp only [e240, e248, e249]
  have h1 : ¬ (247 + k ≤ 240) := by omega
  have h2 : ¬ (247 + k ≤ 248) := by omega
  have h3 : ¬ (247 + k = 249) := by omega
  simp only [h1, h2, h3, if_false]
  have hl : ¬ ((beBytes k x ++ rest).length + 1 < 247 + k - 246) := by
    simp [beBytes_length]; omega
  simp only [hl, if_false]
  have hn : 247 + k - 246 - 1 = k := by omega
  rw [hn]
  have : (beBytes k x ++ rest).take k = beBytes k x := by
    rw [List.take_append_of_le_length (by simp [beBytes_length])]
    exact List.take_of_length_le (by simp [beBytes_length])
  rw [this, beVal_beBytes k x hx]
  have : (beBytes k x ++ rest).drop k = rest := by
    rw [List.drop_append_of_le_length (by simp [beBytes_length])]
    simp [List.drop_of_length_le, beBytes_length]
  rw [this]

theorem uvDec_uvEnc (x : Nat) (hx : x < 2 ^ 64) (rest : Bytes) :
    uvDec (uvEnc x ++ rest) = some (x, rest) := by
  unfold uvEnc
  split
  · -- one byte
    rename_i h
    have ht : (UInt8.ofNat x).toNat = x := u8_toNat_ofNat _ (by omega)
    simp only [List.singleton_append, uvDec, uvLen, u8_le_iff, ht]
    have e240 : (240 : UInt8).toNat = 240 := rfl
    simp only [e240]
    have : x ≤ 240 := by omega
    simp [this]
  split
  · rename_i h0 h
    have hb : (x - 240) / 256 + 241 < 256 := by omega
    have ht : (UInt8.ofNat ((x - 240) / 256 + 241)).toNat = (x - 240) / 256 + 241 := u8_toNat_ofNat _ hb
    have ht2 : (UInt8.ofNat ((x - 240) % 256)).toNat = (x - 240) % 256 := u8_toNat_ofNat _ (by omega)
    simp only [List.cons_append, List.nil_append, uvDec, uvLen, u8_le_iff, ht]
    have e240 : (240 : UInt8).toNat = 240 := rfl
    have e248 : (248 : UInt8).toNat = 248 := rfl
    simp only [e240, e248]
    have h1 : ¬ ((x - 240) / 256 + 241 ≤ 240) := by omega
    have h2 : (x - 240) / 256 + 241 ≤ 248 := by omega
    simp only [h1, h2, if_false, if_true, List.length_cons, ht2]
    have : ¬ (rest.length + 1 + 1 < 2) := by omega
    simp only [this, if_false, Option.some.injEq, Prod.mk.injEq, and_true]
    omega
  split
  · rename_i h0 h1 h
    have ht1 : (UInt8.ofNat ((x - 2288) / 256)).toNat = (x - 2288) / 256 := u8_toNat_ofNat _ (by omega)
    have ht2 : (UInt8.ofNat ((x - 2288) % 256)).toNat = (x - 2288) % 256 := u8_toNat_ofNat _ (by omega)
    simp only [List.cons_append, List.nil_append, uvDec, uvLen, u8_le_iff]
    have e240 : (240 : UInt8).toNat = 240 := rfl
    have e248 : (248 : UInt8).toNat = 248 := rfl
    have e249 : (249 : UInt8).toNat = 249 := rfl
    simp only [e240, e248, e249, List.length_cons, ht1, ht2]
    have : ¬ (rest.length + 1 + 1 + 1 < 249 - 246) := by omega
    simp [this]
    omega
  split
  · rename_i h
    exact uvDec_be 3 x rest (by omega) (by omega)
  split
  · exact uvDec_be 4 x rest (by omega) (by omega)
  split
  · exact uvDec_be 5 x rest (by omega) (by omega)
  split
  · exact uvDec_be 6 x rest (by omega) (by omega)
  split
  · exact uvDec_be 7 x rest (by omega) (by omega)
  · exact uvDec_be 8 x rest (by omega) (by omega)

end Bclv

namespace Bclv

/-- The first byte of an encoding announces its length. -/
theorem uvEnc_shape (x : Nat) (hx : x < 2 ^ 64) :
    ∃ b0 tl, uvEnc x = b0 :: tl ∧ uvLen b0 = tl.length + 1 := by
  have e240 : (240 : UInt8).toNat = 240 := rfl
  have e248 : (248 : UInt8).toNat = 248 := rfl
  have be : ∀ k, 3 ≤ k ∧ k ≤ 8 → uvLen (UInt8.ofNat (247 + k)) = (beBytes k x).length + 1 := by
    intro k hk
    have ht : (UInt8.ofNat (247 + k)).toNat = 247 + k := u8_toNat_ofNat _ (by omega)
    simp only [uvLen, u8_le_iff, ht, e240, e248, beBytes_length]
    have h1 : ¬ (247 + k ≤ 240) := by omega
    have h2 : ¬ (247 + k ≤ 248) := by omega
    simp only [h1, h2, if_false]; omega
  unfold uvEnc
  split
  · refine ⟨_, [], rfl, ?_⟩
    have ht : (UInt8.ofNat x).toNat = x := u8_toNat_ofNat _ (by omega)
    simp only [uvLen, u8_le_iff, ht, e240]
    have : x ≤ 240 := by omega
    simp [this]
  split
  · refine ⟨_, _, rfl, ?_⟩
    have ht : (UInt8.ofNat ((x - 240) / 256 + 241)).toNat = (x - 240) / 256 + 241 := u8_toNat_ofNat _ (by omega)
    simp only [uvLen, u8_le_iff, ht, e240, e248]
    have h1 : ¬ ((x - 240) / 256 + 241 ≤ 240) := by omega
    have h2 : (x - 240) / 256 + 241 ≤ 248 := by omega
    simp [h1, h2]
  split
  · exact ⟨_, _, rfl, by simp [uvLen]⟩
  split
  · exact ⟨_, _, rfl, be 3 (by omega)⟩
  split
  · exact ⟨_, _, rfl, be 4 (by omega)⟩
  split
  · exact ⟨_, _, rfl, be 5 (by omega)⟩
  split
  · exact ⟨_, _, rfl, be 6 (by omega)⟩
  split
  · exact ⟨_, _, rfl, be 7 (by omega)⟩
  · exact ⟨_, _, rfl, be 8 (by omega)⟩

/-- Every proper prefix of an encoding is rejected as too short. -/
theorem uvDec_prefix (x : Nat) (hx : x < 2 ^ 64) (t u : Bytes) (h : uvEnc x = t ++ u) (hu : u ≠ []) :
    uvDec t = none := by
  obtain ⟨b0, tl, he, hl⟩ := uvEnc_shape x hx
  cases t with
  | nil => rfl
  | cons c t' =>
    rw [he] at h
    simp only [List.cons_append, List.cons.injEq] at h
    obtain ⟨hc, ht⟩ := h
    subst hc
    have hlen : t'.length < tl.length := by
      rw [ht, List.length_append]
      have : u.length > 0 := List.length_pos_iff.mpr hu
      omega
    unfold uvDec
    simp only
    have : t'.length + 1 < uvLen b0 := by omega
    simp [this]

end Bclv
