import Bclv.Model.Vm
/-!
# The trace option only observes

`exec` never reads the output list except to prepend to it (`exec_out`); the trace
option only prepends a trace record before each instruction.  Hence a traced run and
an untraced run go through the same machine states up to trace records in the output.
-/
namespace Bclv

def Step.mapOut (f : List OutEv → List OutEv) : Step → Step
  | .next vm => .next { vm with out := f vm.out }
  | .halt vm h => .halt { vm with out := f vm.out } h
  | .panic vm => .panic { vm with out := f vm.out }

theorem rtError_out (p : Prog) (pc : Nat) (st : List Value) (bl res : List Block) (bd : Option Binding)
    (o : List OutEv) (lg : List Bytes) (a b c : Nat) (msg : Bytes) :
    rtError p ⟨pc, st, bl, res, bd, o, lg, a, b, c⟩ msg = (rtError p ⟨pc, st, bl, res, bd, [], lg, a, b, c⟩ msg).mapOut (· ++ o) := by
  unfold rtError
  simp only
  split <;> simp [Step.mapOut]

theorem push_out (p : Prog) (pc : Nat) (st : List Value) (bl res : List Block) (bd : Option Binding)
    (o : List OutEv) (lg : List Bytes) (a b c : Nat) (v : Value) :
    push p ⟨pc, st, bl, res, bd, o, lg, a, b, c⟩ v = (push p ⟨pc, st, bl, res, bd, [], lg, a, b, c⟩ v).mapOut (· ++ o) := by
  unfold push
  simp only
  split
  · exact rtError_out p pc st bl res bd o lg a b c _
  · simp [Step.mapOut]

theorem bindStep_out (p : Prog) (idx opt : Nat) (pc : Nat) (st : List Value) (bl res : List Block) (bd : Option Binding)
    (o : List OutEv) (lg : List Bytes) (a b c : Nat) :
    bindStep p idx opt ⟨pc, st, bl, res, bd, o, lg, a, b, c⟩
      = (bindStep p idx opt ⟨pc, st, bl, res, bd, [], lg, a, b, c⟩).mapOut (· ++ o) := by
  unfold bindStep
  cases constStr p idx with
  | none => simp [Step.mapOut]
  | some bt =>
    simp only
    repeat' split
    all_goals first
      | exact rtError_out p _ _ _ _ _ o _ _ _ _ _
      | (simp [Step.mapOut]; done)

theorem exec_out (p : Prog) (i : Instr) (vm : VM) (o : List OutEv) :
    exec p i { vm with out := o } = (exec p i { vm with out := [] }).mapOut (· ++ o) := by
  unfold exec
  cases hop : i.op <;> simp only
  case BIND =>
    cases hb : vm.binding with
    | none => simp only; exact bindStep_out p _ _ _ _ _ _ _ o _ _ _ _
    | some bnd =>
      simp only
      cases p.positions[vm.pc + 1 - 1]? with
      | none => simp [Step.mapOut]
      | some pos => simp only; exact bindStep_out p _ _ _ _ _ _ _ o _ _ _ _
  all_goals (repeat' split)
  all_goals first
    | exact push_out p _ _ _ _ _ o _ _ _ _ _
    | exact rtError_out p _ _ _ _ _ o _ _ _ _ _
    | (simp [Step.mapOut]; done)


theorem vmStep_out (p : Prog) (vm : VM) (o : List OutEv) :
    vmStep p false { vm with out := o } = (vmStep p false { vm with out := [] }).mapOut (· ++ o) := by
  unfold vmStep
  simp only [Bool.false_eq_true, if_false]
  cases p.code[vm.pc]? with
  | none => simp [Step.mapOut]
  | some b =>
    simp only
    cases Op.ofByte b with
    | none => simp [Step.mapOut]
    | some _ =>
      simp only
      cases decodeAt p vm.pc with
      | none => simp [Step.mapOut]
      | some i => exact exec_out p i vm o

/-- With the trace option a step is the untraced step on a machine whose output has
one more (trace) record. -/
theorem vmStep_trace (p : Prog) (vm : VM) (t : Bytes) (ht : traceText p vm = some t) :
    vmStep p true vm = vmStep p false { vm with out := .trace t :: vm.out } := by
  unfold vmStep
  simp [ht]

def isPrint : OutEv → Bool
  | .print _ => true
  | .trace _ => false

/-- A machine state with the trace records removed from its output. -/
def VM.erase (vm : VM) : VM := { vm with out := vm.out.filter isPrint }

def Step.erase : Step → Step
  | .next vm => .next vm.erase
  | .halt vm h => .halt vm.erase h
  | .panic vm => .panic vm.erase

theorem erase_mapOut (s : Step) (o : List OutEv) :
    (s.mapOut (· ++ o)).erase = (s.mapOut (· ++ o.filter isPrint)).erase := by
  cases s <;> simp [Step.mapOut, Step.erase, VM.erase, List.filter_append]

/-- Two machines that differ only in trace records take steps that differ only in
trace records, whether or not the second one is traced. -/
theorem step_noninterference (p : Prog) (a b : VM) (hab : a.erase = b.erase) (t : Bytes)
    (ht : traceText p a = some t) :
    (vmStep p true a).erase = (vmStep p false b).erase := by
  rw [vmStep_trace p a t ht]
  have ha := vmStep_out p a (.trace t :: a.out)
  have hb := vmStep_out p b b.out
  have hb' : ({ b with out := b.out } : VM) = b := rfl
  rw [hb'] at hb
  rw [ha, hb, erase_mapOut, erase_mapOut (o := b.out)]
  have hz : ({ a with out := [] } : VM) = { b with out := [] } := by
    have := congrArg (fun v : VM => ({ v with out := [] } : VM)) hab
    simpa [VM.erase] using this
  have ho : (OutEv.trace t :: a.out).filter isPrint = b.out.filter isPrint := by
    have := congrArg VM.out hab
    simpa [VM.erase, isPrint] using this
  rw [hz, ho]

/-- `traceText` does not look at the output. -/
theorem traceText_erase (p : Prog) (a b : VM) (hab : a.erase = b.erase) : traceText p a = traceText p b := by
  have h1 : a.pc = b.pc := by have := congrArg VM.pc hab; simpa [VM.erase] using this
  have h2 : a.stack = b.stack := by have := congrArg VM.stack hab; simpa [VM.erase] using this
  simp [traceText, h1, h2]

def RunRes.erase : RunRes → RunRes
  | .done vm h => .done vm.erase h
  | .panic vm => .panic vm.erase
  | .timeout vm => .timeout vm.erase

/-- The tracer can print every instruction the run reaches. -/
def TraceOK (p : Prog) : Nat → VM → Prop
  | 0, _ => True
  | n+1, vm => (traceText p vm).isSome ∧ ∀ vm', vmStep p true vm = .next vm' → TraceOK p n vm'

/-- **Tracing does not interfere.**  As long as the tracer can print the instructions
reached, the traced run ends exactly like the untraced one — same halt reason (same
error), same machine state — up to the trace records in the output. -/
theorem run_noninterference (p : Prog) : ∀ (n : Nat) (a b : VM), a.erase = b.erase → TraceOK p n a →
    (vmRun p true n a).erase = (vmRun p false n b).erase := by
  intro n
  induction n with
  | zero => intro a b hab _; simp [vmRun, RunRes.erase, hab]
  | succ n ih =>
    intro a b hab hok
    obtain ⟨hsome, hnext⟩ := hok
    obtain ⟨t, ht⟩ := Option.isSome_iff_exists.mp hsome
    have hs := step_noninterference p a b hab t ht
    simp only [vmRun]
    cases h1 : vmStep p true a with
    | next a' =>
      cases h2 : vmStep p false b with
      | next b' =>
        rw [h1, h2] at hs
        simp only [Step.erase, Step.next.injEq] at hs
        exact ih a' b' hs (hnext a' h1)
      | halt b' h => rw [h1, h2] at hs; simp [Step.erase] at hs
      | panic b' => rw [h1, h2] at hs; simp [Step.erase] at hs
    | halt a' h =>
      cases h2 : vmStep p false b with
      | next b' => rw [h1, h2] at hs; simp [Step.erase] at hs
      | halt b' h' =>
        rw [h1, h2] at hs
        simp only [Step.erase, Step.halt.injEq] at hs
        simp [RunRes.erase, hs.1, hs.2]
      | panic b' => rw [h1, h2] at hs; simp [Step.erase] at hs
    | panic a' =>
      cases h2 : vmStep p false b with
      | next b' => rw [h1, h2] at hs; simp [Step.erase] at hs
      | halt b' h' => rw [h1, h2] at hs; simp [Step.erase] at hs
      | panic b' =>
        rw [h1, h2] at hs
        simp only [Step.erase, Step.panic.injEq] at hs
        simp [RunRes.erase, hs]


/-! ## the trace lists exactly the instructions executed -/

def Step.vm : Step → VM
  | .next vm => vm
  | .halt vm _ => vm
  | .panic vm => vm

@[simp] theorem rtError_vm (p : Prog) (vm : VM) (msg : Bytes) : (rtError p vm msg).vm = vm := by
  unfold rtError; split <;> rfl

@[simp] theorem push_opsRead (p : Prog) (vm : VM) (v : Value) : (push p vm v).vm.opsRead = vm.opsRead := by
  unfold push; split <;> first | (simp only [rtError_vm]; done) | simp [Step.vm]

@[simp] theorem push_out' (p : Prog) (vm : VM) (v : Value) : (push p vm v).vm.out = vm.out := by
  unfold push; split <;> first | (simp only [rtError_vm]; done) | simp [Step.vm]

@[simp] theorem bindStep_opsRead (p : Prog) (idx opt : Nat) (vm : VM) :
    (bindStep p idx opt vm).vm.opsRead = vm.opsRead := by
  unfold bindStep
  cases constStr p idx with
  | none => rfl
  | some bt => simp only; (repeat' split) <;> first | (simp only [rtError_vm]; done) | simp [Step.vm]

@[simp] theorem bindStep_outf (p : Prog) (idx opt : Nat) (vm : VM) :
    (bindStep p idx opt vm).vm.out = vm.out := by
  unfold bindStep
  cases constStr p idx with
  | none => rfl
  | some bt => simp only; (repeat' split) <;> first | (simp only [rtError_vm]; done) | simp [Step.vm]

def traces (o : List OutEv) : Nat := (o.filter (fun e => !isPrint e)).length

/-- Every instruction counts once in `opsRead` and writes no trace record itself. -/
theorem exec_fields (p : Prog) (i : Instr) (vm : VM) :
    (exec p i vm).vm.opsRead = vm.opsRead + 1 ∧ traces (exec p i vm).vm.out = traces vm.out := by
  unfold exec
  cases hop : i.op <;> simp only
  case BIND =>
    cases hb : vm.binding with
    | none => simp only [bindStep_opsRead, bindStep_outf]; simp [traces]
    | some bnd =>
      simp only
      cases p.positions[vm.pc + 1 - 1]? with
      | none => simp [Step.vm, traces]
      | some pos => simp only [bindStep_opsRead, bindStep_outf]; simp [traces]
  all_goals (repeat' split)
  all_goals first
    | (simp only [rtError_vm, push_opsRead, push_out', bindStep_opsRead, bindStep_outf]; simp [Step.vm, traces, isPrint]; done)
    | (simp [Step.vm, traces, isPrint]; done)

/-- One traced step: `opsRead` grows by one and exactly one trace record is written
(for an instruction that decodes; an undecodable one faults after its trace record). -/
theorem traced_step_counts (p : Prog) (vm : VM) (t : Bytes) (ht : traceText p vm = some t)
    (i : Instr) (hd : decodeAt p vm.pc = some i) (b : UInt8) (hb : p.code[vm.pc]? = some b) (o : Op) (ho : Op.ofByte b = some o) :
    (vmStep p true vm).vm.opsRead = vm.opsRead + 1
    ∧ traces (vmStep p true vm).vm.out = traces vm.out + 1 := by
  rw [vmStep_trace p vm t ht]
  unfold vmStep
  simp only [Bool.false_eq_true, if_false, hb, ho, hd]
  have := exec_fields p i { vm with out := .trace t :: vm.out }
  simp only at this
  exact ⟨this.1, by rw [this.2]; simp [traces, isPrint]⟩

end Bclv
