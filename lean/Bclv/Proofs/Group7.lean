import Bclv.Proofs.Group3
import Bclv.Proofs.Group6
/-!
# Statements and programs read as the tree the parser returns — with the token that follows

The relations of `Group3` with one more index, the token that follows: a statement that ends
with an expression is followed by a token that is no operator and not `=` (else the expression
would go on), `var x` is not followed by `=`, a statement not followed by `;` is followed by the
first token of the next one (or the closing token), a body ends before `}` or the end of input.
With these side conditions — all of them facts about the parser, proved here — a token list
reads as at most one program shape (`Group8`).
-/
namespace Bclv

/-- the token after `ts` in `ts ++ [c]` -/
def followOf (ts : List TokType) (c : TokType) : TokType := match ts with | [] => c | t :: _ => t

/-- a token after which an expression cannot go on: no operator, not `=` -/
def endsExpr (c : TokType) : Prop := opPrec c = 0 ∧ c ≠ .EQ

mutual
inductive RdSF : Bool → ShS → List TokType → TokType → Prop
  | var0 (b : Bool) (c : TokType) : c ≠ .EQ → RdSF b .var0 [.VAR, .IDENT] c
  | var1 (b : Bool) (s : Sh) (e : List TokType) (c : TokType) : Rd precAssign s e 0 → endsExpr c →
      RdSF b (.var1 s) (.VAR :: .IDENT :: .EQ :: e) c
  | print (b : Bool) (s : Sh) (e : List TokType) (c : TokType) : Rd precAssign s e 0 → endsExpr c → RdSF b (.print s) (.PRINT :: e) c
  | eval (b : Bool) (s : Sh) (e : List TokType) (c : TokType) : Rd precAssign s e 0 → endsExpr c → RdSF b (.eval s) (.EVAL :: e) c
  | block (b : Bool) (ss : ShSs) (nm body : List TokType) (c : TokType) : (nm = [] ∨ nm = [.STR]) → RdBF ss body .RCURLY →
      RdSF b (.block ss) (.DEF :: .IDENT :: (nm ++ .LCURLY :: (body ++ [.RCURLY]))) c
  | bind (b : Bool) (sel : List TokType) (c : TokType) : (sel = [] ∨ sel = [.COLON, .INT] ∨ sel = [.COLON, .IDENT]) →
      RdSF b .bind (.BIND :: .IDENT :: (sel ++ [.ARROW, .IDENT])) c
  | expr (s : Sh) (e : List TokType) (c : TokType) : Rd precAssign s e 0 → endsExpr c → RdSF true (.eval s) e c
inductive RdBF : ShSs → List TokType → TokType → Prop
  | nil (c : TokType) : (c = .RCURLY ∨ c.isEnd = true) → RdBF .nil [] c
  | cons (s : ShS) (ss : ShSs) (ts rest : List TokType) (c : TokType) : RdSF true s ts (followOf rest c) →
      followOf rest c ≠ .SEMICOLON → RdBF ss rest c → RdBF (.cons s ss) (ts ++ rest) c
  | consSemi (s : ShS) (ss : ShSs) (ts rest : List TokType) (c : TokType) : RdSF true s ts .SEMICOLON → RdBF ss rest c →
      RdBF (.cons s ss) (ts ++ .SEMICOLON :: rest) c
end

/-- a whole program, up to the finalizer `c` -/
inductive RdProgF : ShSs → List TokType → TokType → Prop
  | nil (c : TokType) : c.isEnd = true → RdProgF .nil [] c
  | cons (s : ShS) (ss : ShSs) (ts rest : List TokType) (c : TokType) : RdSF false s ts (followOf rest c) →
      followOf rest c ≠ .SEMICOLON → RdProgF ss rest c → RdProgF (.cons s ss) (ts ++ rest) c
  | consSemi (s : ShS) (ss : ShSs) (ts rest : List TokType) (c : TokType) : RdSF false s ts .SEMICOLON → RdProgF ss rest c →
      RdProgF (.cons s ss) (ts ++ .SEMICOLON :: rest) c

theorem skips_follow {sk : List Token} {p q : PState} (h : Skips sk p q) : followOf (typs sk) q.cur.typ = p.cur.typ := by
  unfold Skips at h
  cases sk with
  | nil => simp at h; simp [followOf, h.1]
  | cons t r => simp at h; simp [followOf, typs, h.1]

/-- an expression where the statement parser asks for one, with what follows it -/
theorem expr_rdf (f : Nat) (p : PState) (hi : GInv p) :
    wp (expr f) (fun e p' => GM p p' ∧ (NE p' → ∃ sk, Skips sk p p' ∧ Rd precAssign (shape e) (typs sk) 0 ∧ endsExpr p'.cur.typ)) p := by
  have h1 := expr_rd f p hi
  have h2 : wp (expr f) (fun _ p' => NE p' → p'.cur.typ ≠ .EQ) p := pp_follow_ne_eq precAssign (Nat.le_refl _) f p
  refine ⟨h1.1, fun hne => ?_⟩
  obtain ⟨sk, hs, hr, hlt⟩ := h1.2 hne
  have hz : fprec (expr f p).2 = 0 := by unfold precAssign at hlt; omega
  rw [hz] at hr
  exact ⟨sk, hs, hr, hz, h2 hne⟩

theorem varDecl_rdf (f : Nat) (p : PState) (hi : GInv p) :
    wp (varDecl f) (fun st p' => GM p p' ∧ (NE p' → ∃ sk, Skips sk p p' ∧
      ((typs sk = [.IDENT] ∧ shapeS st = .var0 ∧ p'.cur.typ ≠ .EQ) ∨
       ∃ e s, typs sk = .IDENT :: .EQ :: e ∧ shapeS st = .var1 s ∧ Rd precAssign s e 0 ∧ endsExpr p'.cur.typ))) p := by
  unfold varDecl
  rw [wp_bind]
  apply wp_mono (consume_cons .IDENT _ (by decide) p hi)
  intro _ p1 hq1
  obtain ⟨hg1, hc1⟩ := hq1
  rw [wp_bind, wp_get]
  split
  · rename_i hpm
    rw [wp_pure]
    exact ⟨hg1, fun hne => absurd hne (ne_false_of_panic hg1.inv hpm)⟩
  · rw [wp_bind]
    apply wp_tf declVar_gr declVar_tf hg1.inv
    intro _ p2 hg2 hcur2 hrest2 _
    rw [wp_bind]
    apply wp_mono (match_cons .EQ (by decide) p2 hg2.inv)
    intro b p3 hq3
    obtain ⟨hg3, hf3, ht3⟩ := hq3
    split
    · rename_i hb
      obtain ⟨heq, _, hs3⟩ := ht3 hb
      rw [wp_bind]
      apply wp_mono (expr_rdf f p3 hg3.inv)
      intro e p4 hq4
      rw [wp_bind, wp_pure, wp_bind]
      apply wp_tf markInitialized_gr markInitialized_tf hq4.1.inv
      intro _ p5 hg5 hcur5 hrest5 _
      rw [wp_pure]
      refine ⟨(((hg1.trans hg2).trans hg3).trans hq4.1).trans hg5, fun hne => ?_⟩
      have hne4 : NE p4 := hg5.ne hne
      have hne3 : NE p3 := hq4.1.ne hne4
      have hne1 : NE p1 := hg2.ne (hg3.ne hne3)
      obtain ⟨ht1, _, hs1⟩ := hc1 hne1.1
      obtain ⟨sk4, hs4, hk4, hend4⟩ := hq4.2 hne4
      refine ⟨[p.cur] ++ [p2.cur] ++ sk4, ?_, .inr ⟨typs sk4, shape e, by simp [ht1, heq], rfl, hk4, by rw [hcur5]; exact hend4⟩⟩
      have h23 := hs3 hne3.1
      unfold Skips at hs1 h23 hs4 ⊢
      rw [hs1, ← hcur2, ← hrest2, h23, hs4, hcur5, hrest5]; simp
    · rename_i hb
      obtain ⟨rfl, _⟩ := hf3 (by simpa using hb)
      rw [wp_bind, wp_get, wp_bind, wp_pure, wp_bind]
      apply wp_tf markInitialized_gr markInitialized_tf hg2.inv
      intro _ p5 hg5 hcur5 hrest5 _
      rw [wp_pure]
      refine ⟨(hg1.trans hg2).trans hg5, fun hne => ?_⟩
      have hne1 : NE p1 := hg2.ne (hg5.ne hne)
      obtain ⟨ht1, _, hs1⟩ := hc1 hne1.1
      refine ⟨[p.cur], ?_, .inl ⟨by simp [ht1], rfl, by rw [hcur5]; exact (hf3 (by simpa using hb)).2⟩⟩
      unfold Skips at hs1 ⊢
      rw [hs1, hcur5, hrest5, hcur2, hrest2]

def SPostF (p : PState) : Stmt → PState → Prop := fun st p' =>
  GM p p' ∧ p'.depth = p.depth ∧ (NE p' → ∃ sk, Skips sk p p' ∧ RdSF (inBlk p) (shapeS st) (typs sk) p'.cur.typ)

/-- tokens of a block definition after the `def` keyword, with the body's shape -/
def isDefTailF (ss : ShSs) (ts : List TokType) : Prop :=
  ∃ nm body, (nm = [] ∨ nm = [.STR]) ∧ RdBF ss body .RCURLY ∧ ts = .IDENT :: (nm ++ .LCURLY :: (body ++ [.RCURLY]))

def BPostF (p : PState) : Stmt → PState → Prop := fun st p' =>
  GM p p' ∧ p'.depth = p.depth ∧ (NE p' → ∃ sk ss, Skips sk p p' ∧ shapeS st = .block ss ∧ isDefTailF ss (typs sk))

def LPostF (p : PState) : Stmts → PState → Prop := fun sts p' =>
  GM p p' ∧ p'.depth = p.depth ∧ (NE p' → ∃ sk, Skips sk p p' ∧ RdBF (shapeSs sts) (typs sk) p'.cur.typ)

theorem stmt_f_step (f : Nat)
    (ihB : ∀ p, GInv p → wp (blockStmt f) (BPostF p) p)
    (p : PState) (hi : GInv p) : wp (stmt (f+1)) (SPostF p) p := by
  unfold stmt
  rw [wp_bind]
  apply wp_mono (wp_dp (match_cons .PRINT (by decide) p hi) (match_dp _))
  intro b1 p1 hq1
  obtain ⟨⟨hg1, hf1, ht1⟩, hd1⟩ := hq1
  -- `kw expr`
  have kwexpr : ∀ (kw : TokType) (mk : Expr → Nat → Stmt) (q : PState), GM p q → q.depth = p.depth →
      p.cur.typ = kw → (q.hadError = false → Skips [p.cur] p q) →
      (∀ e n ts c, Rd precAssign (shape e) ts 0 → endsExpr c → RdSF (inBlk p) (shapeS (mk e n)) (kw :: ts) c) →
      wp (do let e ← expr f; return mk e (← get).prev.pos) (SPostF p) q := by
    intro kw mk q hgq hdq hkw hsq hG
    rw [wp_bind]
    have hd := (expr_dp f).h q
    apply wp_mono (show wp (expr f) (fun e p' => (GM q p' ∧ (NE p' → ∃ sk, Skips sk q p' ∧ Rd precAssign (shape e) (typs sk) 0 ∧ endsExpr p'.cur.typ)) ∧ p'.depth = q.depth) q from ⟨expr_rdf f q hgq.inv, hd⟩)
    intro e p2 hq2
    rw [wp_bind, wp_get, wp_pure]
    refine ⟨hgq.trans hq2.1.1, hq2.2.trans hdq, fun hne => ?_⟩
    obtain ⟨sk, hs, hk, hend⟩ := hq2.1.2 hne
    have hneq : NE q := hq2.1.1.ne hne
    refine ⟨[p.cur] ++ sk, (hsq hneq.1).trans hs, ?_⟩
    simpa [hkw] using hG e _ _ _ hk hend
  split
  · rename_i hb
    obtain ⟨hc, _, hs⟩ := ht1 hb
    exact kwexpr .PRINT _ p1 hg1 hd1 hc hs (fun e n ts c he hc => RdSF.print _ _ ts c he hc)
  · rename_i hb
    obtain ⟨rfl, _⟩ := hf1 (by simpa using hb)
    rw [wp_bind]
    apply wp_mono (wp_dp (match_cons .EVAL (by decide) p1 hi) (match_dp _))
    intro b2 p2 hq2
    obtain ⟨⟨hg2, hf2, ht2⟩, hd2⟩ := hq2
    split
    · rename_i hb
      obtain ⟨hc, _, hs⟩ := ht2 hb
      exact kwexpr .EVAL _ p2 hg2 hd2 hc hs (fun e n ts c he hc => RdSF.eval _ _ ts c he hc)
    · rename_i hb
      obtain ⟨rfl, _⟩ := hf2 (by simpa using hb)
      rw [wp_bind]
      apply wp_mono (wp_dp (match_cons .DEF (by decide) p2 hi) (match_dp _))
      intro b3 p3 hq3
      obtain ⟨⟨hg3, hf3, ht3⟩, hd3⟩ := hq3
      split
      · rename_i hb
        obtain ⟨hc, _, hs⟩ := ht3 hb
        apply wp_mono (ihB p3 hg3.inv)
        intro st p4 hq4
        refine ⟨hg3.trans hq4.1, hq4.2.1.trans hd3, fun hne => ?_⟩
        obtain ⟨sk, ss, hs4, hsh, nm, body, hnm, hbody, htoks⟩ := hq4.2.2 hne
        have hne3 : NE p3 := hq4.1.ne hne
        refine ⟨[p2.cur] ++ sk, (hs hne3.1).trans hs4, ?_⟩
        rw [hsh]
        have := RdSF.block (inBlk p2) ss nm body p4.cur.typ hnm hbody
        simpa [hc, htoks] using this
      · rename_i hb
        obtain ⟨rfl, _⟩ := hf3 (by simpa using hb)
        rw [wp_bind]
        apply wp_mono (wp_dp (match_cons .BIND (by decide) p3 hi) (match_dp _))
        intro b4 p4 hq4
        obtain ⟨⟨hg4, hf4, ht4⟩, hd4⟩ := hq4
        split
        · rename_i hb
          obtain ⟨hc, _, hs⟩ := ht4 hb
          have hd := bindStmt_dp.h p4
          apply wp_mono (show wp bindStmt (fun st p' => (GM p4 p' ∧ (NE p' → ∃ sk, Skips sk p4 p' ∧ isBindTail (typs sk) ∧ shapeS st = .bind)) ∧ p'.depth = p4.depth) p4 from ⟨bindStmt_sh p4 hg4.inv, hd⟩)
          intro st p5 hq5
          refine ⟨hg4.trans hq5.1.1, hq5.2.trans hd4, fun hne => ?_⟩
          obtain ⟨sk, hs5, ⟨sel, hsel, htoks⟩, hsh⟩ := hq5.1.2 hne
          have hne4 : NE p4 := hq5.1.1.ne hne
          refine ⟨[p3.cur] ++ sk, (hs hne4.1).trans hs5, ?_⟩
          rw [hsh]
          have := RdSF.bind (inBlk p3) sel p5.cur.typ hsel
          simpa [hc, htoks] using this
        · rename_i hb
          obtain ⟨rfl, _⟩ := hf4 (by simpa using hb)
          rw [wp_bind, wp_get]
          split
          · rename_i hdepth
            rw [wp_bind]
            have hd := (expr_dp f).h p4
            apply wp_mono (show wp (expr f) (fun e p' => (GM p4 p' ∧ (NE p' → ∃ sk, Skips sk p4 p' ∧ Rd precAssign (shape e) (typs sk) 0 ∧ endsExpr p'.cur.typ)) ∧ p'.depth = p4.depth) p4 from ⟨expr_rdf f p4 hi, hd⟩)
            intro e p5 hq5
            rw [wp_bind, wp_get, wp_pure]
            refine ⟨hq5.1.1, hq5.2, fun hne => ?_⟩
            obtain ⟨sk, hs, hk, hend⟩ := hq5.1.2 hne
            refine ⟨sk, hs, ?_⟩
            have hin : inBlk p4 = true := by unfold inBlk; simpa using hdepth
            rw [hin]
            exact RdSF.expr _ _ _ hk hend
          · rw [wp_bind]
            apply wp_mono (wp_dp (errorAtCurrent_wp _ p4 hi) (errorAtCurrent_dp _))
            intro _ p5 hq5
            rw [wp_pure]
            exact ⟨hq5.1.1, hq5.2, fun hne => absurd hne (ne_false_of_err hq5.1.2)⟩

theorem decl_f_step (f : Nat)
    (ihS : ∀ p, GInv p → wp (stmt f) (SPostF p) p)
    (p : PState) (hi : GInv p) : wp (decl (f+1)) (SPostF p) p := by
  have fin : ∀ (st : Stmt) (p2 : PState), SPostF p st p2 →
      wp (do
        let q ← get
        if (q.panicMode && q.depth == 0) = true then sync f
        return st : PM Stmt) (SPostF p) p2 := by
    intro st p2 hq
    rw [wp_bind, wp_get]
    dsimp only
    split
    · rename_i hc
      have hpm : p2.panicMode = true := by
        cases h : p2.panicMode
        · rw [h] at hc; simp at hc
        · rfl
      rw [wp_bind]
      apply wp_mono (wp_dp (show wp (sync f) (fun _ p' => GM p2 p') p2 from (sync_gr f).h p2 hq.1.inv) (sync_dp f))
      intro _ p3 hq3
      rw [wp_pure]
      exact ⟨hq.1.trans hq3.1, hq3.2.trans hq.2.1, fun hne =>
        absurd (hq3.1.ne hne) (ne_false_of_panic hq.1.inv hpm)⟩
    · rw [wp_pure]; exact hq
  unfold decl
  rw [wp_bind]
  apply wp_mono (wp_dp (match_cons .VAR (by decide) p hi) (match_dp _))
  intro b1 p1 hq1
  obtain ⟨⟨hg1, hf1, ht1⟩, hd1⟩ := hq1
  dsimp only
  split
  · rename_i hb
    obtain ⟨hc, _, hs⟩ := ht1 hb
    rw [wp_bind]
    apply wp_mono (wp_dp (varDecl_rdf f p1 hg1.inv) (varDecl_dp f))
    intro st p2 hq2
    apply fin
    refine ⟨hg1.trans hq2.1.1, hq2.2.trans hd1, fun hne => ?_⟩
    obtain ⟨sk, hs2, hk⟩ := hq2.1.2 hne
    have hne1 : NE p1 := hq2.1.1.ne hne
    refine ⟨[p.cur] ++ sk, (hs hne1.1).trans hs2, ?_⟩
    rcases hk with ⟨hk, hsh, hne2⟩ | ⟨e, s', hk, hsh, he, hend⟩
    · rw [hsh]; simpa [hc, hk] using RdSF.var0 (inBlk p) p2.cur.typ hne2
    · rw [hsh]; simpa [hc, hk] using RdSF.var1 (inBlk p) s' e p2.cur.typ he hend
  · rename_i hb
    obtain ⟨rfl, _⟩ := hf1 (by simpa using hb)
    rw [wp_bind]
    apply wp_mono (ihS p1 hi)
    intro st p2 hq2
    exact fin st p2 hq2

theorem blockLoop_f_step (f : Nat)
    (ihD : ∀ p, GInv p → wp (decl f) (SPostF p) p)
    (ihL : ∀ p, GInv p → 0 < p.depth → wp (blockLoop f) (LPostF p) p)
    (p : PState) (hi : GInv p) (hdep : 0 < p.depth) : wp (blockLoop (f+1)) (LPostF p) p := by
  unfold blockLoop check checkEnd
  rw [wp_bind, wp_bind, wp_get, wp_pure, wp_bind, wp_bind, wp_get, wp_pure]
  split
  · rename_i hc
    rw [wp_pure]
    refine ⟨GM.refl hi, rfl, fun _ => ⟨[], rfl, RdBF.nil _ ?_⟩⟩
    simp only [Bool.or_eq_true, beq_iff_eq] at hc
    exact hc
  · rw [wp_bind]
    apply wp_mono (ihD p hi)
    intro s p3 hq3
    obtain ⟨hg3, hd3, hs3⟩ := hq3
    have hin : inBlk p = true := by unfold inBlk; simpa using hdep
    have tail : ∀ p4, GM p3 p4 → p4.depth = p3.depth → (NE p4 → p4 = p3) →
        wp (do let _ ← «match» .SEMICOLON; let rest ← blockLoop f; return Stmts.cons s rest) (LPostF p) p4 := by
      intro p4 hg4 hd4 heq4
      rw [wp_bind]
      apply wp_mono (wp_dp (match_cons .SEMICOLON (by decide) p4 hg4.inv) (match_dp _))
      intro b p5 hq5
      obtain ⟨⟨hg5, hf5, ht5⟩, hd5⟩ := hq5
      rw [wp_bind]
      apply wp_mono (ihL p5 hg5.inv (by rw [hd5, hd4, hd3]; exact hdep))
      intro rest p6 hq6
      rw [wp_pure]
      refine ⟨((hg3.trans hg4).trans hg5).trans hq6.1, by rw [hq6.2.1, hd5, hd4, hd3], fun hne => ?_⟩
      obtain ⟨sk6, hs6, hb6⟩ := hq6.2.2 hne
      have hne5 : NE p5 := hq6.1.ne hne
      have hne4 : NE p4 := hg5.ne hne5
      have h43 := heq4 hne4
      subst h43
      obtain ⟨sk3, hsk3, hst3⟩ := hs3 hne4
      rw [hin] at hst3
      cases b with
      | true =>
        obtain ⟨hc5, _, hs5⟩ := ht5 rfl
        refine ⟨sk3 ++ [p4.cur] ++ sk6, (hsk3.trans (hs5 hne5.1)).trans hs6, ?_⟩
        rw [hc5] at hst3
        have := RdBF.consSemi _ _ _ _ _ hst3 hb6
        simpa [hc5, shapeSs] using this
      | false =>
        obtain ⟨rfl, hnsemi⟩ := hf5 rfl
        refine ⟨sk3 ++ sk6, hsk3.trans hs6, ?_⟩
        have hfol := skips_follow hs6
        rw [← hfol] at hst3 hnsemi
        have := RdBF.cons _ _ _ _ _ hst3 hnsemi hb6
        simpa [shapeSs] using this
    rw [wp_bind, wp_get]
    dsimp only
    split
    · rename_i hpm
      rw [wp_bind]
      apply wp_mono (wp_dp (show wp advance (fun _ p' => GM p3 p') p3 from advance_gr.h p3 hg3.inv) advance_dp)
      intro _ p4 hq4
      exact tail p4 hq4.1 hq4.2 (fun hne => absurd (hq4.1.ne hne) (ne_false_of_panic hg3.inv hpm))
    · exact tail p3 (GM.refl hg3.inv) rfl (fun _ => rfl)

theorem blockStmt_f_step (f : Nat)
    (ihL : ∀ p, GInv p → 0 < p.depth → wp (blockLoop f) (LPostF p) p)
    (p : PState) (hi : GInv p) : wp (blockStmt (f+1)) (BPostF p) p := by
  unfold blockStmt
  rw [wp_bind]
  apply wp_mono (wp_dp (consume_cons .IDENT _ (by decide) p hi) (consume_dp _ _))
  intro _ p1 hq1
  obtain ⟨⟨hg1, hc1⟩, hd1⟩ := hq1
  rw [wp_bind, wp_get]
  split
  · rename_i hpm
    rw [wp_pure]
    exact ⟨hg1, hd1, fun hne => absurd hne (ne_false_of_panic hg1.inv hpm)⟩
  · rw [wp_bind, wp_get]
    -- everything from the opening brace on; `nm` is what the optional name consumed
    have tail : ∀ (blockName : Bytes) (nm : List Token) (p2 : PState), GM p1 p2 → p2.depth = p1.depth →
        (NE p2 → Skips nm p1 p2 ∧ (typs nm = [] ∨ typs nm = [.STR])) →
        wp (do
          consume .LCURLY (str "expected '{'")
          let ti ← identConst p1.prev.val
          let ni ← makeConst (.str blockName)
          let openPos := (← get).prev.pos
          beginScope
          let body ← blockLoop f
          if !(← get).hadLexFail then consume .RCURLY (str "expected '}'")
          let closePos := (← get).prev.pos
          let npop ← endScope
          return Stmt.block ti ni openPos body npop closePos) (BPostF p) p2 := by
      intro blockName nm p2 hg2 hd2 hnm
      rw [wp_bind]
      apply wp_mono (wp_dp (consume_cons .LCURLY _ (by decide) p2 hg2.inv) (consume_dp _ _))
      intro _ p3 hq3
      obtain ⟨⟨hg3, hc3⟩, hd3⟩ := hq3
      rw [wp_bind]
      apply wp_mono (wp_dp (show wp (identConst p1.prev.val) (fun _ p' => GM p3 p' ∧ p'.cur = p3.cur ∧ p'.rest = p3.rest) p3 from
        ⟨(identConst_gr _).h p3 hg3.inv, ((identConst_tf _).h p3).1, ((identConst_tf _).h p3).2.1⟩) (identConst_dp _))
      intro ti p4 hq4
      obtain ⟨⟨hg4, hcur4, hrest4⟩, hd4⟩ := hq4
      rw [wp_bind]
      apply wp_mono (wp_dp (show wp (makeConst (.str blockName)) (fun _ p' => GM p4 p' ∧ p'.cur = p4.cur ∧ p'.rest = p4.rest) p4 from
        ⟨(makeConst_gr _).h p4 hg4.inv, ((makeConst_tf _).h p4).1, ((makeConst_tf _).h p4).2.1⟩) (makeConst_dp _))
      intro ni p5 hq5
      obtain ⟨⟨hg5, hcur5, hrest5⟩, hd5⟩ := hq5
      rw [wp_bind, wp_get, wp_bind]
      -- enter the scope
      have hbs : wp beginScope (fun _ q0 => GM p5 q0 ∧ q0.cur = p5.cur ∧ q0.rest = p5.rest ∧ q0.depth = p5.depth + 1) p5 :=
        ⟨beginScope_gr.h p5 hg5.inv, rfl, rfl, rfl⟩
      apply wp_mono hbs
      intro _ q0 hq0
      obtain ⟨hg6, hcur6, hrest6, hd6⟩ := hq0
      rw [wp_bind]
      apply wp_mono (ihL q0 hg6.inv (by omega))
      intro body q1 hq1
      obtain ⟨hg7, hd7, hbody⟩ := hq1
      have hg07 : GM p q1 := (((((hg1.trans hg2).trans hg3).trans hg4).trans hg5).trans hg6).trans hg7
      rw [wp_bind, wp_get]
      have hlf : q1.hadLexFail = false := hg7.inv.lf
      simp only [hlf, Bool.not_false, if_true]
      rw [wp_bind]
      apply wp_mono (wp_dp (consume_cons .RCURLY _ (by decide) q1 hg7.inv) (consume_dp _ _))
      intro _ q2 hq2
      obtain ⟨⟨hg8, hc8⟩, hd8⟩ := hq2
      rw [wp_bind, wp_get, wp_bind]
      have hes : wp endScope (fun _ q3 => GM q2 q3 ∧ q3.cur = q2.cur ∧ q3.rest = q2.rest ∧ q3.depth = q2.depth - 1) q2 :=
        ⟨endScope_gr.h q2 hg8.inv, rfl, rfl, rfl⟩
      apply wp_mono hes
      intro npop q3 hq3'
      obtain ⟨hg9, hcur9, hrest9, hd9⟩ := hq3'
      rw [wp_pure]
      refine ⟨(hg07.trans hg8).trans hg9, by rw [hd9, hd8, hd7, hd6, hd5, hd4, hd3, hd2, hd1]; omega, fun hne => ?_⟩
      have hne8 : NE q2 := hg9.ne hne
      have hne7 : NE q1 := hg8.ne hne8
      have hne3 : NE p3 := hg4.ne (hg5.ne (hg6.ne (hg7.ne hne7)))
      have hne2 : NE p2 := hg3.ne hne3
      have hne1 : NE p1 := hg2.ne hne2
      obtain ⟨ht1, _, hs1⟩ := hc1 hne1.1
      obtain ⟨hsnm, htnm⟩ := hnm hne2
      obtain ⟨ht3, _, hs3⟩ := hc3 hne3.1
      obtain ⟨skb, hsb, hgb⟩ := hbody hne7
      obtain ⟨ht8, _, hs8⟩ := hc8 hne8.1
      rw [ht8] at hgb
      refine ⟨[p.cur] ++ nm ++ [p2.cur] ++ skb ++ [q1.cur], shapeSs body, ?_, rfl, typs nm, typs skb, htnm, hgb, ?_⟩
      · unfold Skips at hs1 hsnm hs3 hsb hs8 ⊢
        rw [hs1, hsnm, hs3, ← hcur4, ← hrest4, ← hcur5, ← hrest5, ← hcur6, ← hrest6, hsb, hs8, hcur9, hrest9]
        simp
      · simp [ht1, ht3, ht8]
    rw [wp_bind]
    apply wp_mono (wp_dp (match_cons .STR (by decide) p1 hg1.inv) (match_dp _))
    intro b p2 hq2
    obtain ⟨⟨hg2, hf2, ht2⟩, hd2⟩ := hq2
    dsimp only
    split
    · rename_i hb
      obtain ⟨hct, _, hs2⟩ := ht2 hb
      have hnm : NE p2 → Skips [p1.cur] p1 p2 ∧ (typs [p1.cur] = [] ∨ typs [p1.cur] = [.STR]) :=
        fun hne => ⟨hs2 hne.1, .inr (by simp [hct])⟩
      rw [wp_bind, wp_get]
      split
      · exact tail _ [p1.cur] p2 hg2 hd2 hnm
      · rw [wp_bind]
        apply wp_mono (wp_dp (error_wp _ p2 hg2.inv) (error_dp _))
        intro _ p3 hq3
        exact tail _ [] p3 (hg2.trans hq3.1.1) (hq3.2.trans hd2) (fun hne => absurd hne (ne_false_of_err hq3.1.2))
    · rename_i hb
      obtain ⟨rfl, _⟩ := hf2 (by simpa using hb)
      exact tail _ [] p2 hg2 hd2 (fun _ => ⟨rfl, .inl rfl⟩)

/-- **Statements are sentences of the statement grammar.** -/
theorem stmts_rdf : ∀ (f : Nat),
    (∀ p, GInv p → wp (decl f) (SPostF p) p) ∧
    (∀ p, GInv p → wp (stmt f) (SPostF p) p) ∧
    (∀ p, GInv p → wp (blockStmt f) (BPostF p) p) ∧
    (∀ p, GInv p → 0 < p.depth → wp (blockLoop f) (LPostF p) p)
  | 0 => by
    refine ⟨?_, ?_, ?_, ?_⟩
    · intro p hi; unfold decl; rw [wp_bind]
      apply wp_mono (stuck_wp p hi); intro _ p1 h; rw [wp_pure]
      exact ⟨h.1, h.2.1, fun hne => absurd hne (ne_false_of_stuck h.2.2)⟩
    · intro p hi; unfold stmt; rw [wp_bind]
      apply wp_mono (stuck_wp p hi); intro _ p1 h; rw [wp_pure]
      exact ⟨h.1, h.2.1, fun hne => absurd hne (ne_false_of_stuck h.2.2)⟩
    · intro p hi; unfold blockStmt; rw [wp_bind]
      apply wp_mono (stuck_wp p hi); intro _ p1 h; rw [wp_pure]
      exact ⟨h.1, h.2.1, fun hne => absurd hne (ne_false_of_stuck h.2.2)⟩
    · intro p hi _; unfold blockLoop; rw [wp_bind]
      apply wp_mono (stuck_wp p hi); intro _ p1 h; rw [wp_pure]
      exact ⟨h.1, h.2.1, fun hne => absurd hne (ne_false_of_stuck h.2.2)⟩
  | f+1 => by
    obtain ⟨ihD, ihS, ihB, ihL⟩ := stmts_rdf f
    exact ⟨decl_f_step f ihS, stmt_f_step f ihB, blockStmt_f_step f ihL, blockLoop_f_step f ihD ihL⟩

def TPostF (p : PState) : Stmts → PState → Prop := fun sts p' =>
  GM p p' ∧ (NE p' → ∃ body e rest, p.cur :: p.rest = body ++ e :: rest ∧ e.typ.isEnd = true ∧ RdProgF (shapeSs sts) (typs body) e.typ)

theorem topLoop_rdf : ∀ (f : Nat) (p : PState), GInv p → p.depth = 0 → wp (topLoop f) (TPostF p) p
  | 0, p, hi, _ => by
    unfold topLoop; rw [wp_bind]
    apply wp_mono (stuck_wp p hi); intro _ p1 h; rw [wp_pure]
    exact ⟨h.1, fun hne => absurd hne (ne_false_of_stuck h.2.2)⟩
  | f+1, p, hi, hd0 => by
    unfold topLoop matchEnd checkEnd
    rw [wp_bind, wp_bind, wp_bind, wp_get, wp_pure]
    split
    · rename_i hend
      rw [wp_bind]
      apply wp_mono (show wp advance (fun _ p' => GM p p') p from advance_gr.h p hi)
      intro _ p1 hg1
      rw [wp_pure]
      simp only [if_true]
      rw [wp_pure]
      exact ⟨hg1, fun _ => ⟨[], p.cur, p.rest, rfl, hend, RdProgF.nil _ hend⟩⟩
    · rename_i hend
      rw [wp_pure]
      simp only [Bool.false_eq_true, if_false]
      rw [wp_bind]
      apply wp_mono ((stmts_rdf f).1 p hi)
      intro s p2 hq2
      obtain ⟨hg2, hd2, hs2⟩ := hq2
      rw [wp_bind]
      apply wp_mono (wp_dp (match_cons .SEMICOLON (by decide) p2 hg2.inv) (match_dp _))
      intro b p3 hq3
      obtain ⟨⟨hg3, hf3, ht3⟩, hd3⟩ := hq3
      rw [wp_bind]
      apply wp_mono (topLoop_rdf f p3 hg3.inv (by rw [hd3, hd2, hd0]))
      intro rest p4 hq4
      rw [wp_pure]
      refine ⟨(hg2.trans hg3).trans hq4.1, fun hne => ?_⟩
      obtain ⟨body, e, rest', htoks, he, hprog⟩ := hq4.2 hne
      have hne3 : NE p3 := hq4.1.ne hne
      have hne2 : NE p2 := hg3.ne hne3
      obtain ⟨sk2, hsk2, hst2⟩ := hs2 hne2
      have hin : inBlk p = false := by unfold inBlk; simp [hd0]
      rw [hin] at hst2
      cases b with
      | true =>
        obtain ⟨hc3, _, hs3⟩ := ht3 rfl
        have h23 := hs3 hne3.1
        refine ⟨sk2 ++ [p2.cur] ++ body, e, rest', ?_, he, ?_⟩
        · unfold Skips at hsk2 h23
          rw [hsk2, h23, htoks]; simp
        · rw [hc3] at hst2
          have := RdProgF.consSemi _ _ _ _ _ hst2 hprog
          simpa [hc3, shapeSs] using this
      | false =>
        obtain ⟨rfl, hnsemi⟩ := hf3 rfl
        refine ⟨sk2 ++ body, e, rest', ?_, he, ?_⟩
        · unfold Skips at hsk2
          rw [hsk2, htoks]; simp
        · have hfol : followOf (typs body) e.typ = p3.cur.typ := by
            cases body with
            | nil => simp at htoks; simp [followOf, htoks.1]
            | cons t r => simp at htoks; simp [followOf, typs, htoks.1]
          rw [← hfol] at hst2 hnsemi
          have := RdProgF.cons _ _ _ _ _ hst2 hnsemi hprog
          simpa [shapeSs] using this


end Bclv
