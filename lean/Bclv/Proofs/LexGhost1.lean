import Bclv.Model.Lexer
namespace Bclv

/-- the same input primitives with a ghost counter: the largest offset at which a token text was
cut off (`ignore`) so far -/
def ghost {σ : Type} (P : LexPrims σ) : LexPrims (σ × Nat) where
  next a := ((P.next a.1).1, ((P.next a.1).2, a.2))
  backup a := (P.backup a.1, a.2)
  unbackup a := (P.unbackup a.1, a.2)
  ignore a := (P.ignore a.1, max a.2 (P.endPos a.1))
  current a := P.current a.1
  endPos a := P.endPos a.1

section
variable {σ : Type} (P : LexPrims σ)

theorem g_next {a : σ × Nat} {r : Rune} {s : σ × Nat} (h : (ghost P).next a = (r, s)) : s.2 = a.2 := by
  have := congrArg (fun x => x.2.2) h; exact this.symm
theorem g_backup (a : σ × Nat) : ((ghost P).backup a).2 = a.2 := rfl
theorem g_unbackup (a : σ × Nat) : ((ghost P).unbackup a).2 = a.2 := rfl
theorem g_ignore (a : σ × Nat) : ((ghost P).ignore a).2 = max a.2 (P.endPos a.1) := rfl
theorem g_peekR (a : σ × Nat) : (peekR (ghost P) a).2.2 = a.2 := rfl
theorem g_accept (v : Rune → Bool) (a : σ × Nat) : (accept (ghost P) v a).2.2 = a.2 := by
  unfold accept
  rcases h : (ghost P).next a with ⟨r, s⟩
  have hs := g_next P h
  dsimp only
  split
  · exact hs
  · exact hs

theorem g_acceptRun (pred : Rune → Bool) : ∀ (f : Nat) (acc : Bool) (a : σ × Nat), (acceptRun (ghost P) pred f acc a).2.2 = a.2
  | 0, _, _ => rfl
  | f+1, acc, a => by
    unfold acceptRun
    rcases h : (ghost P).next a with ⟨r, s⟩
    have hs := g_next P h
    dsimp only
    split
    · rw [g_acceptRun pred f true s]; exact hs
    · exact hs

theorem g_identLoop : ∀ (f : Nat) (a : σ × Nat), (identLoop (ghost P) f a).2 = a.2
  | 0, _ => rfl
  | f+1, a => by
    unfold identLoop
    rcases h : (ghost P).next a with ⟨r, s⟩
    have hs := g_next P h
    dsimp only
    split
    · rw [g_identLoop f s]; exact hs
    · exact hs

theorem g_quoteLoop : ∀ (f : Nat) (a : σ × Nat), (quoteLoop (ghost P) f a).2.2 = a.2
  | 0, _ => rfl
  | f+1, a => by
    unfold quoteLoop
    rcases h : (ghost P).next a with ⟨r, s⟩
    have hs := g_next P h
    dsimp only
    split
    · rcases h2 : (ghost P).next s with ⟨r2, s2⟩
      have hs2 := g_next P h2
      have e2 : (ghost P).1 s = (r2, s2) := h2
      simp only [e2]
      split
      · rw [g_quoteLoop f s2, hs2]; exact hs
      · rw [hs2]; exact hs
    · repeat' split
      all_goals first | exact hs | (rw [g_quoteLoop f s]; exact hs)

theorem g_commentLoop : ∀ (f : Nat) (a : σ × Nat), a.2 ≤ (commentLoop (ghost P) f a).2
  | 0, _ => Nat.le_refl _
  | f+1, a => by
    unfold commentLoop
    rcases h : (ghost P).next a with ⟨r, s⟩
    have hs := g_next P h
    dsimp only
    split
    · rw [g_ignore, g_backup, hs]; exact Nat.le_max_left _ _
    · rw [← hs]; exact g_commentLoop f s

/-- what one lexer step does to the ghost counter and the tokens: the counter does not go down,
and every new token lies at or below the new counter -/
def TGR (l l' : LexSt (σ × Nat)) : Prop :=
  l.s.2 ≤ l'.s.2 ∧ ∀ t ∈ l'.toks, t ∈ l.toks ∨ t.pos ≤ l'.s.2

theorem TGR.setS (l : LexSt (σ × Nat)) (s' : σ × Nat) (h : l.s.2 ≤ s'.2) : TGR l { l with s := s' } :=
  ⟨h, fun t ht => .inl ht⟩
theorem TGR.refl (l : LexSt (σ × Nat)) : TGR l l := ⟨Nat.le_refl _, fun t ht => .inl ht⟩
theorem TGR.emit (t : TokType) (l l1 : LexSt (σ × Nat)) (h : TGR l l1) : TGR l (emit (ghost P) t l1) := by
  refine ⟨Nat.le_trans h.1 (Nat.le_max_left _ _), ?_⟩
  intro x hx
  rcases List.mem_cons.mp hx with rfl | hx
  · right; exact Nat.le_max_right _ _
  · rcases h.2 x hx with h1 | h1
    · exact .inl h1
    · right; exact Nat.le_trans h1 (Nat.le_max_left _ _)
theorem TGR.fail (hig : ∀ s, P.endPos (P.ignore s) = P.endPos s) (msg : Bytes) (l l1 : LexSt (σ × Nat)) (h : TGR l l1) :
    TGR l (failWith (ghost P) msg l1).2 := by
  refine ⟨Nat.le_trans h.1 (Nat.le_max_left _ _), ?_⟩
  intro x hx
  simp only [failWith, List.mem_cons] at hx
  rcases hx with rfl | rfl | hx
  · right; show P.endPos (P.ignore l1.s.1) ≤ max l1.s.2 (P.endPos l1.s.1); rw [hig]; exact Nat.le_max_right _ _
  · right; exact Nat.le_max_right _ _
  · rcases h.2 x hx with h1 | h1
    · exact .inl h1
    · right; exact Nat.le_trans h1 (Nat.le_max_left _ _)
theorem TGR.invalid (hig : ∀ s, P.endPos (P.ignore s) = P.endPos s) (l l1 : LexSt (σ × Nat)) (h : TGR l l1) :
    TGR l (invalidSyntax (ghost P) l1).2 := TGR.fail P hig _ l l1 h
end
end Bclv
