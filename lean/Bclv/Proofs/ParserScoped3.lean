import Bclv.Proofs.ParserScoped2
namespace Bclv

/-! ## a weakest-precondition calculus for the parser monad -/

def wp {α : Type} (m : PM α) (Q : α → PState → Prop) (p : PState) : Prop := Q (m p).1 (m p).2

theorem wp_pure {α} (a : α) (Q : α → PState → Prop) (p : PState) : wp (pure a : PM α) Q p = Q a p := rfl
theorem wp_bind {α β} (m : PM α) (f : α → PM β) (Q : β → PState → Prop) (p : PState) :
    wp (m >>= f) Q p = wp m (fun a p' => wp (f a) Q p') p := rfl
theorem wp_get (Q : PState → PState → Prop) (p : PState) : wp (get : PM PState) Q p = Q p p := rfl
theorem wp_modify (g : PState → PState) (Q : Unit → PState → Prop) (p : PState) :
    wp (modify g : PM Unit) Q p = Q () (g p) := rfl
theorem wp_mono {α} {m : PM α} {Q Q' : α → PState → Prop} {p : PState} (h : wp m Q p) (hq : ∀ a p', Q a p' → Q' a p') :
    wp m Q' p := hq _ _ h

/-- using the specification of a helper: the continuation gets the invariant, the
extension facts (cumulative from `p0`) and the helper's result fact -/
theorem wp_spec {α} {m : PM α} {R : PState → α → PState → Prop} (hs : SpecR m R) {p0 p : PState}
    {Q : α → PState → Prop} (hpi : PI p) (he : Ext p0 p)
    (k : ∀ a p', PI p' → Ext p0 p' → Ext p p' → R p a p' → Q a p') : wp m Q p := by
  obtain ⟨h1, h2, h3⟩ := hs.h p hpi
  exact k _ _ h1 (he.trans h2) h2 h3

theorem wp_pres {α} {m : PM α} (hs : PresR m) {p0 p : PState}
    {Q : α → PState → Prop} (hpi : PI p) (he : Ext p0 p)
    (k : ∀ a p', PI p' → Ext p0 p' → Ext p p' → Q a p') : wp m Q p := by
  obtain ⟨h1, h2⟩ := hs.h p hpi
  exact k _ _ h1 (he.trans h2) h2

/-! ## scoping is monotone in the constant pool -/

theorem isStrAt_mono {K K' : List Value} (h : K <+: K') {i : Nat} (hs : isStrAt K i) : isStrAt K' i := by
  obtain ⟨s, hs⟩ := hs
  obtain ⟨t, rfl⟩ := h
  exact ⟨s, by rw [List.getElem?_append_left (List.getElem?_eq_some_iff.mp hs).1]; exact hs⟩

theorem ScE_mono {K K' : List Value} (h : K <+: K') (L : Nat) (B : Bool) : ∀ (e : Expr), ScE K L B e → ScE K' L B e := by
  intro e
  induction e with
  | lit l p => intro _; trivial
  | const i p => intro hs; simp only [ScE] at hs ⊢; have := h.length_le; omega
  | getLocal s p => intro hs; exact hs
  | getField i p => intro hs; exact ⟨isStrAt_mono h hs.1, hs.2⟩
  | setLocal s e p ih => intro hs; exact ⟨hs.1, ih hs.2⟩
  | setField i e p ih => intro hs; exact ⟨isStrAt_mono h hs.1, hs.2.1, ih hs.2.2⟩
  | un op e p ih => intro hs; exact ih hs
  | bin op a b p iha ihb => intro hs; exact ⟨iha hs.1, ihb hs.2⟩
  | and a b p iha ihb => intro hs; exact ⟨iha hs.1, ihb hs.2.1, hs.2.2⟩
  | or a b p iha ihb => intro hs; exact ⟨iha hs.1, ihb hs.2.1, hs.2.2⟩
  | bad => intro hs; exact hs.elim

/-- What the expression parsers promise, relative to the state `p0` at the start of the
expression (whose locals and depth do not change while it is parsed). -/
def QE (p0 : PState) : Expr → PState → Prop := fun e p' =>
  PI p' ∧ Ext p0 p' ∧ (NE p' → ScE p'.consts.toList (initCount p0.locals) (decide (p0.depth > 0)) e)

/-- a failed parse: the flag is up, nothing is claimed about the tree -/
theorem QE_of_err {p0 p' : PState} (e : Expr) (hpi : PI p') (he : Ext p0 p') (herr : p'.hadError = true) : QE p0 e p' :=
  ⟨hpi, he, fun hne => by rw [hne.1] at herr; cases herr⟩

theorem QE_of_stuck {p0 p' : PState} (e : Expr) (hpi : PI p') (he : Ext p0 p') (hst : p'.stuck = true) : QE p0 e p' :=
  ⟨hpi, he, fun hne => by rw [hne.2] at hst; cases hst⟩

/-- the slot `resolveLocal` returns is below the number of locals in scope -/
theorem resolveLocal_lt : ∀ (ls : List Local) (name : Bytes) (slot : Nat), (∀ l ∈ ls.tail, l.depth ≠ -1) →
    resolveLocal ls name = some slot → slot < initCount ls
  | [], _, _, _, h => by simp [resolveLocal] at h
  | l :: rest, name, slot, hti, h => by
    unfold resolveLocal at h
    split at h
    · rename_i hc
      simp only [Bool.and_eq_true, bne_iff_ne, ne_eq] at hc
      simp only [Option.some.injEq] at h
      subst h
      simp [initCount, hc.2]
    · -- found deeper: every deeper local has a slot
      have : ∀ (ls : List Local) (slot : Nat), resolveLocal ls name = some slot → slot < ls.length := by
        intro ls
        induction ls with
        | nil => intro s hs; simp [resolveLocal] at hs
        | cons x xs ih =>
          intro s hs
          unfold resolveLocal at hs
          split at hs
          · simp only [Option.some.injEq] at hs; subst hs; simp
          · have := ih s hs; simp; omega
      have hlt := this rest slot h
      show slot < (if l.depth = -1 then rest.length else rest.length + 1)
      split <;> omega

end Bclv
