import Bclv.Proofs.LexGhost1
set_option linter.unusedSectionVars false
set_option linter.unusedVariables false
namespace Bclv
section
variable {σ : Type} (P : LexPrims σ) (hig : ∀ s, P.endPos (P.ignore s) = P.endPos s)

macro "gle" : tactic => `(tactic| first
  | omega
  | (simp only [g_backup, g_unbackup, g_ignore, g_peekR, g_accept, g_acceptRun, g_identLoop, g_quoteLoop] <;> omega))

set_option hygiene false in
macro "tgr" : tactic => `(tactic| first
  | exact TGR.emit P _ l _ (TGR.setS l _ (by gle))
  | exact TGR.fail P hig _ l _ (TGR.setS l _ (by gle))
  | exact TGR.invalid P hig l _ (TGR.setS l _ (by gle))
  | exact TGR.setS l _ (by gle))

include hig

theorem tgr_start (f : Nat) (l : LexSt (σ × Nat)) : TGR l (lexStep (ghost P) f .start l).2 := by
  simp only [lexStep]
  rcases h : (ghost P).next l.s with ⟨r, s⟩
  have hs := g_next P h
  have e1 : (ghost P).1 l.s = (r, s) := h
  simp only [e1]
  split
  · tgr
  · split
    · rcases h2 : (ghost P).next s with ⟨r2, s2⟩
      have hs2 := g_next P h2
      have e2 : (ghost P).1 s = (r2, s2) := h2
      simp only [e2]
      repeat' split
      all_goals tgr
    · repeat' split
      all_goals tgr

theorem tgr_space (f : Nat) (l : LexSt (σ × Nat)) : TGR l (lexStep (ghost P) f .space l).2 := by
  simp only [lexStep]
  have := g_acceptRun P isSpaceR f false l.s
  rcases h : acceptRun (ghost P) isSpaceR f false l.s with ⟨a, s⟩
  rw [h] at this
  dsimp only at this ⊢
  exact TGR.setS l _ (by rw [g_ignore]; omega)

theorem tgr_comment (f : Nat) (l : LexSt (σ × Nat)) : TGR l (lexStep (ghost P) f .comment l).2 := by
  simp only [lexStep]
  exact TGR.setS l _ (g_commentLoop P f l.s)

theorem tgr_ident (f : Nat) (l : LexSt (σ × Nat)) : TGR l (lexStep (ghost P) f .ident l).2 := by
  simp only [lexStep]
  have h1 := g_identLoop P f l.s
  have h2 := g_peekR P (identLoop (ghost P) f l.s)
  rcases h : peekR (ghost P) (identLoop (ghost P) f l.s) with ⟨r, s⟩
  rw [h] at h2
  dsimp only at h2 ⊢
  repeat' split
  all_goals tgr

theorem tgr_hex (f : Nat) (l : LexSt (σ × Nat)) : TGR l (lexStep (ghost P) f .hex l).2 := by
  simp only [lexStep]
  have h1 := g_acceptRun P isHexDigitR f false l.s
  rcases h : acceptRun (ghost P) isHexDigitR f false l.s with ⟨a, s⟩
  rw [h] at h1
  have h2 := g_peekR P s
  rcases hh : peekR (ghost P) s with ⟨r, s'⟩
  rw [hh] at h2
  dsimp only at h1 h2 ⊢
  repeat' split
  all_goals tgr

theorem tgr_quote (f : Nat) (l : LexSt (σ × Nat)) : TGR l (lexStep (ghost P) f .quote l).2 := by
  simp only [lexStep]
  have h1 := g_quoteLoop P f l.s
  rcases h : quoteLoop (ghost P) f l.s with ⟨a, s⟩
  rw [h] at h1
  have h2 := g_peekR P s
  rcases hh : peekR (ghost P) s with ⟨r, s'⟩
  rw [hh] at h2
  dsimp only at h1 h2 ⊢
  repeat' split
  all_goals tgr
end
end Bclv
namespace Bclv
section
variable {σ : Type} (P : LexPrims σ) (hig : ∀ s, P.endPos (P.ignore s) = P.endPos s)
include hig

theorem tgr_number (f : Nat) (l : LexSt (σ × Nat)) : TGR l (lexStep (ghost P) f .number l).2 := by
  simp only [lexStep]
  have h0 := g_backup P l.s
  have h1 := g_accept P (· == 48) ((ghost P).backup l.s)
  rcases h : accept (ghost P) (· == 48) ((ghost P).backup l.s) with ⟨z, s1⟩
  rw [h] at h1
  dsimp only at h1 ⊢
  have hx : ((if z = true then accept (ghost P) (fun r => r == 120 || r == 88) s1 else (false, s1)) : Bool × σ × Nat).2.2 = s1.2 := by
    split
    · exact g_accept P _ s1
    · rfl
  rcases hh : (if z = true then accept (ghost P) (fun r => r == 120 || r == 88) s1 else (false, s1) : Bool × σ × Nat) with ⟨x, s2⟩
  rw [hh] at hx
  dsimp only at hx ⊢
  split
  · tgr
  · have h3 := g_acceptRun P isDigitR f false s2
    rcases h3' : acceptRun (ghost P) isDigitR f false s2 with ⟨a, s3⟩
    rw [h3'] at h3
    have h4 := g_peekR P s3
    rcases h4' : peekR (ghost P) s3 with ⟨r, s4⟩
    rw [h4'] at h4
    dsimp only at h3 h4 ⊢
    repeat' split
    all_goals tgr

theorem tgr_float (f : Nat) (l : LexSt (σ × Nat)) : TGR l (lexStep (ghost P) f .float l).2 := by
  simp only [lexStep]
  have h1 := g_accept P (· == 46) l.s
  rcases h : accept (ghost P) (· == 46) l.s with ⟨dot, s1⟩
  rw [h] at h1
  dsimp only at h1 ⊢
  have hx : ((if dot = true then acceptRun (ghost P) isDigitR f false s1 else (true, s1)) : Bool × σ × Nat).2.2 = s1.2 := by
    split
    · exact g_acceptRun P _ _ _ s1
    · rfl
  rcases hh : (if dot = true then acceptRun (ghost P) isDigitR f false s1 else (true, s1) : Bool × σ × Nat) with ⟨ok1, s2⟩
  rw [hh] at hx
  dsimp only at hx ⊢
  split
  · tgr
  · have h3 := g_accept P (fun r => r == 101 || r == 69) s2
    rcases h3' : accept (ghost P) (fun r => r == 101 || r == 69) s2 with ⟨e, s3⟩
    rw [h3'] at h3
    dsimp only at h3 ⊢
    have hy : ((if e = true then
        (match accept (ghost P) (fun r => r == 43 || r == 45) s3 with
          | (_, s) => acceptRun (ghost P) isDigitR f false s)
        else (true, s3)) : Bool × σ × Nat).2.2 = s3.2 := by
      split
      · have := g_accept P (fun r => r == 43 || r == 45) s3
        rcases hq : accept (ghost P) (fun r => r == 43 || r == 45) s3 with ⟨q, s'⟩
        rw [hq] at this
        dsimp only at this ⊢
        rw [g_acceptRun]; exact this
      · rfl
    rcases hh2 : (if e = true then
        (match accept (ghost P) (fun r => r == 43 || r == 45) s3 with
          | (_, s) => acceptRun (ghost P) isDigitR f false s)
        else (true, s3) : Bool × σ × Nat) with ⟨ok2, s4⟩
    rw [hh2] at hy
    dsimp only at hy ⊢
    split
    · tgr
    · have h5 := g_peekR P s4
      rcases h5' : peekR (ghost P) s4 with ⟨r, s5⟩
      rw [h5'] at h5
      dsimp only at h5 ⊢
      repeat' split
      all_goals tgr
end
end Bclv
namespace Bclv
section
variable {σ : Type} (P : LexPrims σ) (hig : ∀ s, P.endPos (P.ignore s) = P.endPos s)
include hig

theorem lexStep_tgr (f : Nat) (st : LState) (l : LexSt (σ × Nat)) : TGR l (lexStep (ghost P) f st l).2 := by
  cases st with
  | done => simp only [lexStep]; exact TGR.refl l
  | start => exact tgr_start P hig f l
  | space => exact tgr_space P hig f l
  | comment => exact tgr_comment P hig f l
  | ident => exact tgr_ident P hig f l
  | number => exact tgr_number P hig f l
  | hex => exact tgr_hex P hig f l
  | float => exact tgr_float P hig f l
  | quote => exact tgr_quote P hig f l

/-- every token emitted so far lies at or below the ghost counter -/
def TG (l : LexSt (σ × Nat)) : Prop := ∀ t ∈ l.toks, t.pos ≤ l.s.2

omit hig in
theorem TG.step {l l' : LexSt (σ × Nat)} (h : TG l) (hr : TGR l l') : TG l' := by
  intro t ht
  rcases hr.2 t ht with h1 | h1
  · exact Nat.le_trans (h t h1) hr.1
  · exact h1

theorem lexRun_tg (f : Nat) : ∀ (n : Nat) (st : LState) (l : LexSt (σ × Nat)), TG l → TG (lexRun (ghost P) f n st l)
  | 0, _, l, h => by
    unfold lexRun
    intro t ht
    rcases List.mem_cons.mp ht with rfl | ht
    · exact Nat.zero_le _
    · exact h t ht
  | n+1, st, l, h => by
    unfold lexRun
    have hs := TG.step h (lexStep_tgr P hig f st l)
    rcases h1 : lexStep (ghost P) f st l with ⟨st1, l1⟩
    rw [h1] at hs
    dsimp only at hs ⊢
    cases st1 with
    | done => exact hs
    | start => exact lexRun_tg f n _ l1 hs
    | space => exact lexRun_tg f n _ l1 hs
    | comment => exact lexRun_tg f n _ l1 hs
    | ident => exact lexRun_tg f n _ l1 hs
    | number => exact lexRun_tg f n _ l1 hs
    | hex => exact lexRun_tg f n _ l1 hs
    | float => exact lexRun_tg f n _ l1 hs
    | quote => exact lexRun_tg f n _ l1 hs
end
end Bclv
