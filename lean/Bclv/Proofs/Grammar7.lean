import Bclv.Proofs.Grammar6
import Bclv.Proofs.LexTermWhole
/-!
# Soundness from source text

What the lexer hands to the parser: no finalizer before the last token, and a `tFAIL` at the
end is preceded by a `tERR`.  A token list of that shape that contains `tERR` is rejected,
so an accepted source text has no lexical failure and `parse_sound` applies.
-/
namespace Bclv

/-- shape of the lexer's output (newest first while running) -/
def RunToks (T : List Token) : Prop := ∀ t ∈ T, t.typ.isEnd = false
def DoneToks (T : List Token) : Prop :=
  ∃ e R, T = e :: R ∧ e.typ.isEnd = true ∧ RunToks R ∧ (e.typ = .FAIL → ∃ x R', R = x :: R' ∧ x.typ = .ERR)

theorem oneRune_nonEnd (r : Rune) (t : TokType) (h : oneRuneOf r = some t) : t.isEnd = false := by
  unfold oneRuneOf at h
  cases hf : oneRuneTable.find? (fun p => (p.1 : Int) == r) with
  | none => rw [hf] at h; cases h
  | some e =>
    rw [hf] at h
    simp only [Option.map_some, Option.some.injEq] at h
    have hm := List.mem_of_find?_eq_some hf
    have hall : ∀ x ∈ oneRuneTable, x.2.isEnd = false := by decide
    rw [← h]; exact hall e hm

theorem twoRune_nonEnd (r : Rune) (w : Nat) (t : TokType) (h : twoRuneOf r = some (w, t)) : t.isEnd = false := by
  unfold twoRuneOf at h
  cases hf : twoRuneTable.find? (fun p => (p.1 : Int) == r) with
  | none => rw [hf] at h; cases h
  | some e =>
    rw [hf] at h
    simp only [Option.map_some, Option.some.injEq] at h
    have hm := List.mem_of_find?_eq_some hf
    have hall : ∀ x ∈ twoRuneTable, x.2.2.isEnd = false := by decide
    have := hall e hm
    rw [h] at this; exact this

theorem keyword_nonEnd (w : Bytes) (t : TokType) (h : keywordOf w = some t) : t.isEnd = false := by
  unfold keywordOf at h
  cases hf : keywordTable.find? (fun p => p.1 == w) with
  | none => rw [hf] at h; cases h
  | some e =>
    rw [hf] at h
    simp only [Option.map_some, Option.some.injEq] at h
    have hm := List.mem_of_find?_eq_some hf
    have hall : ∀ x ∈ keywordTable, x.2.isEnd = false := by decide
    rw [← h]; exact hall e hm

theorem lexStep_shape {σ : Type} (P : LexPrims σ) (f : Nat) (st : LState) (l : LexSt σ) (hst : st ≠ .done)
    (hT : RunToks l.toks) :
    ((lexStep P f st l).1 ≠ .done ∧ RunToks (lexStep P f st l).2.toks) ∨
    ((lexStep P f st l).1 = .done ∧ DoneToks (lexStep P f st l).2.toks) := by
  have run1 : ∀ (t : Token), t.typ.isEnd = false → RunToks (t :: l.toks) := by
    intro t ht x hx
    rcases List.mem_cons.mp hx with rfl | hx
    · exact ht
    · exact hT x hx
  have fail2 : ∀ (a b : Token), a.typ = .FAIL → b.typ = .ERR → DoneToks (a :: b :: l.toks) := by
    intro a b ha hb
    refine ⟨a, b :: l.toks, rfl, by rw [ha]; rfl, run1 b (by rw [hb]; rfl), fun _ => ⟨b, l.toks, rfl, hb⟩⟩
  cases st with
  | done => exact absurd rfl hst
  | space => left; simp only [lexStep]; exact ⟨by simp, hT⟩
  | comment => left; simp only [lexStep]; exact ⟨by simp, hT⟩
  | start =>
    simp only [lexStep]
    repeat' split
    all_goals first
      | (right; exact ⟨rfl, ⟨_, l.toks, rfl, rfl, hT, fun h => by cases h⟩⟩)
      | (right; exact ⟨rfl, fail2 _ _ rfl rfl⟩)
      | (left; exact ⟨by simp, hT⟩)
      | (left; refine ⟨by simp, run1 _ ?_⟩; first
          | exact oneRune_nonEnd _ _ (by assumption)
          | exact twoRune_nonEnd _ _ _ (by assumption))
  | ident =>
    simp only [lexStep]
    repeat' split
    all_goals first
      | (right; exact ⟨rfl, fail2 _ _ rfl rfl⟩)
      | (left; refine ⟨by simp, run1 _ ?_⟩; first
          | exact keyword_nonEnd _ _ (by assumption)
          | rfl)
  | number =>
    simp only [lexStep]
    repeat' split
    all_goals first
      | (right; exact ⟨rfl, fail2 _ _ rfl rfl⟩)
      | (left; exact ⟨by simp, hT⟩)
      | (left; exact ⟨by simp, run1 _ rfl⟩)
  | hex =>
    simp only [lexStep]
    repeat' split
    all_goals first
      | (right; exact ⟨rfl, fail2 _ _ rfl rfl⟩)
      | (left; exact ⟨by simp, run1 _ rfl⟩)
  | float =>
    simp only [lexStep]
    repeat' split
    all_goals first
      | (right; exact ⟨rfl, fail2 _ _ rfl rfl⟩)
      | (left; exact ⟨by simp, run1 _ rfl⟩)
  | quote =>
    simp only [lexStep]
    repeat' split
    all_goals first
      | (right; exact ⟨rfl, fail2 _ _ rfl rfl⟩)
      | (left; exact ⟨by simp, run1 _ rfl⟩)

theorem lexRun_shape {σ : Type} (P : LexPrims σ) (f : Nat) : ∀ (n : Nat) (st : LState) (l : LexSt σ), st ≠ .done →
    RunToks l.toks → DoneToks (lexRun P f n st l).toks ∨
      (∃ e R, (lexRun P f n st l).toks = e :: R ∧ e.typ = .ERR)
  | 0, _, l, _, _ => by right; exact ⟨_, l.toks, rfl, rfl⟩
  | n+1, st, l, hst, hT => by
    unfold lexRun
    have hs := lexStep_shape P f st l hst hT
    rcases h1 : lexStep P f st l with ⟨st1, l1⟩
    rw [h1] at hs
    dsimp only at hs
    rcases hs with ⟨hnd, hr⟩ | ⟨hd, hdn⟩
    · cases st1 with
      | done => exact absurd rfl hnd
      | start => exact lexRun_shape P f n _ l1 (by simp) hr
      | space => exact lexRun_shape P f n _ l1 (by simp) hr
      | comment => exact lexRun_shape P f n _ l1 (by simp) hr
      | ident => exact lexRun_shape P f n _ l1 (by simp) hr
      | number => exact lexRun_shape P f n _ l1 (by simp) hr
      | hex => exact lexRun_shape P f n _ l1 (by simp) hr
      | float => exact lexRun_shape P f n _ l1 (by simp) hr
      | quote => exact lexRun_shape P f n _ l1 (by simp) hr
    · subst hd
      exact .inl hdn

/-- **Shape of the lexer's output**: no finalizer before the last token, and a final `tFAIL`
is directly preceded by a `tERR`. -/
theorem lexWhole_shape (a : Bytes) :
    ∃ pre e, lexWhole a = pre ++ [e] ∧ e.typ.isEnd = true ∧ (∀ t ∈ pre, t.typ.isEnd = false) ∧
      (e.typ = .FAIL → ∃ pre' x, pre = pre' ++ [x] ∧ x.typ = .ERR) := by
  have hsh := lexRun_shape Whole.prims (a.length + 2) (3 * a.length + 4) .start
    { s := { pos := 0, cur := [], rest := a, width := 0 }, toks := [] } (by simp) (by intro t ht; simp at ht)
  have hend := lexRun_ends Whole.meas (a.length + 1) (3 * a.length + 4) .start
    { s := { pos := 0, cur := [], rest := a, width := 0 }, toks := [] } (by simp)
    (fun h => by cases h) (by simp only [lexPot]; omega)
  have key : ∀ r : LexSt Whole, (DoneToks r.toks ∨ (∃ e R, r.toks = e :: R ∧ e.typ = .ERR)) → endOrFuel (headTyp r) →
      ∃ pre e, r.toks.reverse = pre ++ [e] ∧ e.typ.isEnd = true ∧ (∀ t ∈ pre, t.typ.isEnd = false) ∧
        (e.typ = .FAIL → ∃ pre' x, pre = pre' ++ [x] ∧ x.typ = .ERR) := by
    intro r hsh hend
    rcases hsh with ⟨e, R, hT, he, hR, hF⟩ | ⟨e, R, hT, he⟩
    · refine ⟨R.reverse, e, by rw [hT]; simp, he, ?_, ?_⟩
      · intro t ht; exact hR t (by simpa using ht)
      · intro hf
        obtain ⟨x, R', hR', hx⟩ := hF hf
        exact ⟨R'.reverse, x, by rw [hR']; simp, hx⟩
    · exfalso
      unfold endOrFuel headTyp at hend
      rw [hT] at hend
      simp only [List.head?_cons, Option.map_some, Option.some.injEq] at hend
      rcases hend with h | h <;> (rw [he] at h; cases h)
  exact key _ hsh hend

/-! ## a lexical error token ahead means rejection -/

structure EI (p : PState) : Prop where
  ea : p.hadError = true ∨ ∃ t ∈ p.rest, t.typ = .ERR
  ole : ∀ t ∈ (p.cur :: p.rest).dropLast, t.typ.isEnd = false

structure ER {α : Type} (m : PM α) : Prop where
  h : ∀ p, EI p → EI (m p).2 ∧ (p.hadError = true → (m p).2.hadError = true)

theorem ER.pure {α} (a : α) : ER (pure a : PM α) := ⟨fun _ h => ⟨h, id⟩⟩
theorem ER.bind {α β} {m : PM α} {f : α → PM β} (hm : ER m) (hf : ∀ a, ER (f a)) : ER (m >>= f) :=
  ⟨fun p hp => by
    have h1 := hm.h p hp
    have h2 := (hf (m p).1).h (m p).2 h1.1
    exact ⟨h2.1, fun h => h2.2 (h1.2 h)⟩⟩
theorem ER.get : ER (get : PM PState) := ⟨fun _ h => ⟨h, id⟩⟩
theorem ER.ite {α} {c : Prop} [Decidable c] {x y : PM α} (hx : ER x) (hy : ER y) : ER (if c then x else y) := by
  split <;> assumption
theorem ER.of_frame {α} {m : PM α} (h : ∀ p, (m p).2.rest = p.rest ∧ (m p).2.cur = p.cur ∧
    (p.hadError = true → (m p).2.hadError = true)) : ER m := by
  refine ⟨fun p hp => ?_⟩
  obtain ⟨h1, h2, h3⟩ := h p
  refine ⟨⟨?_, by rw [h1, h2]; exact hp.ole⟩, h3⟩
  rcases hp.ea with he | he
  · exact .inl (h3 he)
  · rw [h1]; exact .inr he
theorem ER.modify_frame {g : PState → PState} (h1 : ∀ p, (g p).rest = p.rest) (h2 : ∀ p, (g p).cur = p.cur)
    (h3 : ∀ p, (g p).hadError = p.hadError) : ER (_root_.modify g : PM Unit) :=
  ER.of_frame (fun p => ⟨h1 p, h2 p, fun h => by show (g p).hadError = true; rw [h3]; exact h⟩)
theorem ER.forIn {α β : Type} (l : List α) (f : α → β → PM (ForInStep β)) (hf : ∀ a b, ER (f a b)) :
    ∀ (init : β), ER (forIn l init f) := by
  induction l with
  | nil => intro init; simp only [List.forIn_nil]; exact ER.pure _
  | cons x xs ih =>
    intro init
    simp only [List.forIn_cons]
    apply ER.bind (hf x init)
    intro r
    cases r with
    | done b => exact ER.pure _
    | yield b => exact ih b

syntax "er_known" : tactic
macro_rules | `(tactic| er_known) => `(tactic| with_reducible exact ER.pure _)
macro_rules | `(tactic| er_known) => `(tactic| with_reducible exact ER.get)
macro "er" : tactic => `(tactic| repeat' (first
  | assumption
  | er_known
  | with_reducible apply ER.bind
  | with_reducible apply ER.ite
  | with_reducible apply ER.forIn
  | ((with_reducible apply ER.modify_frame) <;> intro _ <;> rfl)
  | intro _
  | split
  | dsimp only))

theorem errorAt_er (t : Token) (msg : Bytes) : ER (errorAt t msg) :=
  ER.of_frame (fun _ => ⟨rfl, rfl, fun _ => rfl⟩)
macro_rules | `(tactic| er_known) => `(tactic| with_reducible exact errorAt_er _ _)
theorem errorAtCurrent_er (msg : Bytes) : ER (errorAtCurrent msg) := by unfold errorAtCurrent; er
macro_rules | `(tactic| er_known) => `(tactic| with_reducible exact errorAtCurrent_er _)
theorem error_er (msg : Bytes) : ER (error msg) := by unfold error; er
macro_rules | `(tactic| er_known) => `(tactic| with_reducible exact error_er _)
theorem setStuck_er : ER setStuck := ER.of_frame (fun _ => ⟨rfl, rfl, id⟩)
macro_rules | `(tactic| er_known) => `(tactic| with_reducible exact setStuck_er)

theorem mem_dropLast_cons {α} (a : α) (l : List α) (t : α) (h : t ∈ l.dropLast) : t ∈ (a :: l).dropLast := by
  cases l with
  | nil => simp at h
  | cons b l => simp only [List.dropLast_cons₂]; exact List.mem_cons_of_mem _ h

theorem advanceLoop_er : ∀ (ts : List Token) (q : PState),
    (q.hadError = true ∨ ∃ t ∈ ts, t.typ = .ERR) → (∀ t ∈ ts.dropLast, t.typ.isEnd = false) →
    (ts = [] → ∀ t ∈ (q.cur :: q.rest).dropLast, t.typ.isEnd = false) → q.rest = ts →
    wp (advanceLoop ts) (fun _ q' => EI q' ∧ (q.hadError = true → q'.hadError = true)) q
  | [], q, hea, _, hq, hr => by
    unfold advanceLoop
    rw [wp_modify]
    refine ⟨⟨?_, ?_⟩, id⟩
    · rcases hea with h | ⟨t, ht, _⟩
      · exact .inl h
      · simp at ht
    · have := hq rfl
      rw [hr] at this
      exact this
  | t :: ts, q, hea, hole, _, _ => by
    unfold advanceLoop
    rw [wp_bind, wp_modify]
    have hole' : ∀ x ∈ ts.dropLast, x.typ.isEnd = false := fun x hx => hole x (mem_dropLast_cons t ts x hx)
    split
    · rw [wp_bind]
      apply wp_seq
      apply wp_mono (advanceLoop_er ts _ (.inl rfl) hole' (fun hts => by
        intro x hx
        subst hts
        have htf := (errorAtCurrent_tf t.err).h
          { q with cur := t, rest := [], tokens := q.tokens + 1, hadLexFail := q.hadLexFail || t.typ == .FAIL }
        rw [htf.1, htf.2.1] at hx
        simp at hx) rfl)
      intro _ q' h
      exact ⟨h.1, fun _ => h.2 rfl⟩
    · rename_i hne
      rw [wp_pure]
      refine ⟨⟨?_, ?_⟩, id⟩
      · rcases hea with h | ⟨x, hx, hxe⟩
        · exact .inl h
        · rcases List.mem_cons.mp hx with rfl | hx
          · exfalso; apply hne; rw [hxe]; rfl
          · exact .inr ⟨x, hx, hxe⟩
      · exact hole

theorem advance_er : ER advance := by
  refine ⟨fun p hp => ?_⟩
  have : wp advance (fun _ q' => EI q' ∧ (p.hadError = true → q'.hadError = true)) p := by
    unfold advance
    rw [wp_bind, wp_modify, wp_bind, wp_get]
    apply wp_mono (advanceLoop_er p.rest { p with prev := p.cur } hp.ea
      (fun t ht => hp.ole t (mem_dropLast_cons p.cur p.rest t ht)) (fun _ => hp.ole) rfl)
    intro _ q' h
    exact h
  exact this
macro_rules | `(tactic| er_known) => `(tactic| with_reducible exact advance_er)

theorem check_er (t : TokType) : ER (check t) := by unfold check; er
macro_rules | `(tactic| er_known) => `(tactic| with_reducible exact check_er _)
theorem checkEnd_er : ER checkEnd := by unfold checkEnd; er
macro_rules | `(tactic| er_known) => `(tactic| with_reducible exact checkEnd_er)
theorem consume_er (t : TokType) (msg : Bytes) : ER (consume t msg) := by unfold consume; er
macro_rules | `(tactic| er_known) => `(tactic| with_reducible exact consume_er _ _)
theorem match_er (t : TokType) : ER («match» t) := by unfold «match»; er
macro_rules | `(tactic| er_known) => `(tactic| with_reducible exact match_er _)
theorem matchEnd_er : ER matchEnd := by unfold matchEnd; er
macro_rules | `(tactic| er_known) => `(tactic| with_reducible exact matchEnd_er)
theorem addConst_er (v : Value) : ER (addConst v) := ER.of_frame (fun _ => ⟨rfl, rfl, id⟩)
macro_rules | `(tactic| er_known) => `(tactic| with_reducible exact addConst_er _)
theorem makeConst_er (v : Value) : ER (makeConst v) := by unfold makeConst; er
macro_rules | `(tactic| er_known) => `(tactic| with_reducible exact makeConst_er _)
theorem identConst_er (n : Bytes) : ER (identConst n) := by unfold identConst; er
macro_rules | `(tactic| er_known) => `(tactic| with_reducible exact identConst_er _)
theorem beginScope_er : ER beginScope := by unfold beginScope; er
macro_rules | `(tactic| er_known) => `(tactic| with_reducible exact beginScope_er)
theorem endScope_er : ER endScope := ER.of_frame (fun _ => ⟨rfl, rfl, id⟩)
macro_rules | `(tactic| er_known) => `(tactic| with_reducible exact endScope_er)
theorem addLocal_er (n : Bytes) : ER (addLocal n) := by unfold addLocal; er
macro_rules | `(tactic| er_known) => `(tactic| with_reducible exact addLocal_er _)
theorem declVar_er : ER declVar := by unfold declVar; er
macro_rules | `(tactic| er_known) => `(tactic| with_reducible exact declVar_er)
theorem markInitialized_er : ER markInitialized := by
  apply ER.of_frame
  intro p
  unfold markInitialized
  simp only [modify, modifyGet, MonadStateOf.modifyGet, StateT.modifyGet, pure]
  cases p.locals <;> exact ⟨rfl, rfl, id⟩
macro_rules | `(tactic| er_known) => `(tactic| with_reducible exact markInitialized_er)
set_option maxHeartbeats 1000000 in
theorem bindSel_er : ER bindSel := by unfold bindSel; er
macro_rules | `(tactic| er_known) => `(tactic| with_reducible exact bindSel_er)
theorem bindTarget_er (m : Bytes) : ER (bindTarget m) := by unfold bindTarget; er
macro_rules | `(tactic| er_known) => `(tactic| with_reducible exact bindTarget_er _)
set_option maxHeartbeats 1000000 in
theorem bindStmt_er : ER bindStmt := by unfold bindStmt; er
macro_rules | `(tactic| er_known) => `(tactic| with_reducible exact bindStmt_er)
theorem syncLoop_er : ∀ (f : Nat), ER (syncLoop f)
  | 0 => by unfold syncLoop; er
  | f+1 => by have := syncLoop_er f; unfold syncLoop; er
macro_rules | `(tactic| er_known) => `(tactic| with_reducible exact syncLoop_er _)
theorem sync_er (f : Nat) : ER (sync f) := by unfold sync; er
macro_rules | `(tactic| er_known) => `(tactic| with_reducible exact sync_er _)

set_option hygiene false in
macro_rules | `(tactic| er_known) => `(tactic| exact h1 _)
set_option hygiene false in
macro_rules | `(tactic| er_known) => `(tactic| exact h2 _ _)
set_option hygiene false in
macro_rules | `(tactic| er_known) => `(tactic| exact h3 _ _)

theorem exprs_er : ∀ (f : Nat),
    (∀ prec, ER (parsePrecedence prec f)) ∧ (∀ prec left, ER (infixLoop prec left f)) ∧ (∀ rule ca, ER (prefixRule rule ca f))
  | 0 => by
    refine ⟨?_, ?_, ?_⟩
    · intro prec; unfold parsePrecedence; er
    · intro prec left; unfold infixLoop; er
    · intro rule ca; unfold prefixRule; er
  | f+1 => by
    obtain ⟨h1, h2, h3⟩ := exprs_er f
    refine ⟨?_, ?_, ?_⟩
    · intro prec; unfold parsePrecedence; er
    · intro prec left; unfold infixLoop; er
    · intro rule ca; unfold prefixRule; er
theorem expr_er (f : Nat) : ER (expr f) := by unfold expr; exact (exprs_er f).1 _
theorem varDecl_er (f : Nat) : ER (varDecl f) := by have := expr_er f; unfold varDecl; er

theorem stmts_er : ∀ (f : Nat), ER (decl f) ∧ ER (stmt f) ∧ ER (blockStmt f) ∧ ER (blockLoop f)
  | 0 => by
    refine ⟨?_, ?_, ?_, ?_⟩
    · unfold decl; er
    · unfold stmt; er
    · unfold blockStmt; er
    · unfold blockLoop; er
  | f+1 => by
    obtain ⟨hD, hS, hB, hL⟩ := stmts_er f
    have he := expr_er f
    have hv := varDecl_er f
    refine ⟨?_, ?_, ?_, ?_⟩
    · unfold decl; er
    · unfold stmt; er
    · unfold blockStmt; er
    · unfold blockLoop; er

/-- with a lexical error token ahead, the toplevel loop ends with the error flag up (or out
of budget) -/
theorem topLoop_er : ∀ (f : Nat) (p : PState), EI p →
    wp (topLoop f) (fun _ p' => p'.stuck = false → p'.hadError = true) p
  | 0, p, _ => by
    unfold topLoop; rw [wp_bind]
    show _ → _
    intro h; cases h
  | f+1, p, hp => by
    unfold topLoop matchEnd checkEnd
    rw [wp_bind, wp_bind, wp_bind, wp_get, wp_pure]
    split
    · rename_i hend
      -- the current token is a finalizer: it is the last one, so the error token has been passed
      have hrest : p.rest = [] := by
        cases hr : p.rest with
        | nil => rfl
        | cons a as =>
          have := hp.ole p.cur (by rw [hr]; simp [List.dropLast])
          rw [this] at hend; cases hend
      have herr : p.hadError = true := by
        rcases hp.ea with h | ⟨t, ht, _⟩
        · exact h
        · rw [hrest] at ht; simp at ht
      rw [wp_bind]
      have := advance_er.h p hp
      apply wp_mono (show wp advance (fun _ p' => p'.hadError = true) p from this.2 herr)
      intro _ p1 h1
      rw [wp_pure]
      simp only [if_true]
      rw [wp_pure]
      exact fun _ => h1
    · rw [wp_pure]
      simp only [Bool.false_eq_true, if_false]
      rw [wp_bind]
      have h1 := (stmts_er f).1.h p hp
      apply wp_mono (show wp (decl f) (fun _ p' => EI p') p from h1.1)
      intro s p2 hp2
      rw [wp_bind]
      have h2 := (match_er .SEMICOLON).h p2 hp2
      apply wp_mono (show wp («match» .SEMICOLON) (fun _ p' => EI p') p2 from h2.1)
      intro b p3 hp3
      rw [wp_bind]
      apply wp_mono (topLoop_er f p3 hp3)
      intro rest p4 h4
      rw [wp_pure]
      exact h4

theorem split_at_first_end : ∀ (pre : List Token) (e : Token) (body : List Token) (e' : Token) (rest : List Token),
    (∀ t ∈ pre, t.typ.isEnd = false) → e'.typ.isEnd = true → pre ++ [e] = body ++ e' :: rest →
    body = pre ∧ e' = e ∧ rest = []
  | [], e, body, e', rest, _, _, h => by
    cases body with
    | nil => simp at h; exact ⟨rfl, h.1.symm, h.2⟩
    | cons b bs => simp at h
  | p :: pre, e, body, e', rest, hpre, he', h => by
    cases body with
    | nil =>
      simp at h
      have := hpre p (by simp)
      rw [h.1] at this
      rw [this] at he'; cases he'
    | cons b bs =>
      simp only [List.cons_append, List.cons.injEq] at h
      obtain ⟨h1, h2, h3⟩ := split_at_first_end pre e bs e' rest (fun t ht => hpre t (by simp [ht])) he' h.2
      exact ⟨by rw [h.1, h1], h2, h3⟩

/-- **Soundness from source text**: if the parser accepts what the lexer makes of an input,
the token kinds before the final `tEOF` form a program of the grammar (and the lexer reported
no failure). -/
theorem source_sound (a : Bytes) (hok : (parseTokens (lexWhole a) (newlinesFrom 0 a)).ok = true) :
    ∃ body e, lexWhole a = body ++ [e] ∧ e.typ = .EOF ∧ GProg (typs body) := by
  obtain ⟨pre, e, htoks, he, hpre, hfail⟩ := lexWhole_shape a
  have hlast := lexWhole_lastEnd a
  by_cases hf : e.typ = .FAIL
  · -- a lexical failure: the error token before `tFAIL` makes the parser reject
    exfalso
    obtain ⟨pre', x, hpre', hx⟩ := hfail hf
    have hns := parse_not_stuck (lexWhole a) (newlinesFrom 0 a) hlast
    have hrun : wp (do advance; let body ← topLoop (4 * (lexWhole a).length + 16); let p ← get
                       return ({ body, npop := p.locals.length, endPos := p.prev.pos } : Program))
        (fun _ p' => p'.stuck = false → p'.hadError = true)
        ({ rest := lexWhole a, lfs := newlinesFrom 0 a } : PState) := by
      rw [wp_bind]
      have h1 : wp advance (fun _ p1 => EI p1) ({ rest := lexWhole a, lfs := newlinesFrom 0 a } : PState) := by
        unfold advance
        rw [wp_bind, wp_modify, wp_bind, wp_get]
        apply wp_mono (advanceLoop_er (lexWhole a) _ (.inr ⟨x, by rw [htoks, hpre']; simp, hx⟩)
          (by rw [htoks]; simpa using hpre) (fun h => by rw [htoks] at h; simp at h) rfl)
        intro _ q h; exact h.1
      apply wp_mono h1
      intro _ p1 hp1
      rw [wp_bind]
      apply wp_mono (topLoop_er _ p1 hp1)
      intro body p2 h2
      rw [wp_bind, wp_get, wp_pure]
      exact h2
    unfold parseTokens at hok hns
    simp only [StateT.run] at hok hns
    revert hok hns hrun
    unfold wp
    generalize ((advance >>= fun _ => do
      let body ← topLoop (4 * (lexWhole a).length + 16)
      let p ← get
      pure ({ body := body, npop := p.locals.length, endPos := p.prev.pos } : Program) : PM Program)
      { rest := lexWhole a, lfs := newlinesFrom 0 a }) = r
    obtain ⟨b, q⟩ := r
    intro hok hns hrun
    have h1 : q.hadError = true := hrun hns
    have h2 : (!q.hadError) = true := hok
    rw [h1] at h2; cases h2
  · have hnf : ∀ t ∈ lexWhole a, t.typ ≠ .FAIL := by
      intro t ht
      rw [htoks] at ht
      rcases List.mem_append.mp ht with ht | ht
      · intro h; have := hpre t ht; rw [h] at this; cases this
      · simp at ht; rw [ht]; exact hf
    obtain ⟨body, e', rest, hsplit, he', hprog⟩ := parse_sound (lexWhole a) (newlinesFrom 0 a) hlast hnf hok
    rw [htoks] at hsplit
    obtain ⟨hb, hee, _⟩ := split_at_first_end pre e body e' rest hpre he' hsplit
    refine ⟨pre, e, htoks, ?_, by rw [← hb]; exact hprog⟩
    -- a finalizer that is not `tFAIL` is `tEOF`
    cases ht : e.typ <;> first | rfl | (exact absurd ht hf) | (rw [ht] at he; exact absurd he (by decide))

end Bclv
