import Bclv.Proofs.Grammar3
/-!
# How the parser groups operators (C01, grouping clause)

`Sh` is the shape of an expression tree (operators and where the leaves are); `Rd n s ts k`
says that the token kinds `ts` *read as* the shape `s` where an operator of precedence at
least `n` may stand at the top, `k` being the precedence of the token that follows.  The
relation is written from the documented precedence table alone:

* a binary operator `o` takes on its left what reads at level `prec o` (so a chain of equal
  precedence groups to the left) and on its right what reads at level `prec o + 1`;
  `and`/`or` the other way round (they group to the right, which makes no difference to the
  value of a short-circuit chain);
* an operand is as long as it can be: what follows the right operand of `o` binds less
  tightly than `o` needs (`k < rp o`), what follows the operand of a prefix operator binds
  less tightly than the prefix operator (`k < pp o`);
* parentheses make anything an operand; an assignment stands only where the lowest level is
  asked for and takes everything to its right.

`exprs_rd` (in `Group2`) proves that whatever `parsePrecedence` consumes without reporting an
error reads as the shape of the tree it returns.
-/
namespace Bclv

inductive Sh where
  | atom | un (o : TokType) (a : Sh) | bin (o : TokType) (a b : Sh) | asg (a : Sh) | bad
  deriving Repr

def tokOfBin : BinOp → TokType
  | .eq => .EE | .ne => .BE | .lt => .LT | .le => .LE | .gt => .GT | .ge => .GE
  | .add => .PLUS | .sub => .MINUS | .mul => .STAR | .div => .SLASH
def tokOfUn : UnOp → TokType
  | .neg => .MINUS | .plus => .PLUS | .not => .NOT

/-- the shape of a tree: which operator stands where -/
def shape : Expr → Sh
  | .lit .. | .const .. | .getLocal .. | .getField .. => .atom
  | .setLocal _ e _ | .setField _ e _ => .asg (shape e)
  | .un op e _ => .un (tokOfUn op) (shape e)
  | .bin op a b _ => .bin (tokOfBin op) (shape a) (shape b)
  | .and a b _ => .bin .AND (shape a) (shape b)
  | .or a b _ => .bin .OR (shape a) (shape b)
  | .bad => .bad

/-- precedence of an infix operator, from the rule table -/
def opPrec (o : TokType) : Nat := (getRule o).prec
def isLogic (o : TokType) : Bool := o == .AND || o == .OR
/-- the level asked of the left operand: equal precedence may stand there (grouping to the left),
except for `and`/`or` -/
def lp (o : TokType) : Nat := if isLogic o then opPrec o + 1 else opPrec o
/-- the level asked of the right operand -/
def rp (o : TokType) : Nat := if isLogic o then opPrec o else opPrec o + 1
/-- the level asked of the operand of a prefix operator -/
def pp (o : TokType) : Nat := if o == .NOT then precNot else precUnary

inductive Rd : Nat → Sh → List TokType → Nat → Prop
  | atom (n : Nat) (t : TokType) (k : Nat) : isAtom t → Rd n .atom [t] k
  | paren (n : Nat) (s : Sh) (ts : List TokType) (k : Nat) : Rd precAssign s ts 0 →
      Rd n s (.LPAREN :: (ts ++ [.RPAREN])) k
  | un (n : Nat) (o : TokType) (s : Sh) (ts : List TokType) (k : Nat) : isPreOp o → Rd (pp o) s ts k → k < pp o →
      Rd n (.un o s) (o :: ts) k
  | bin (n : Nat) (o : TokType) (a b : Sh) (ta tb : List TokType) (k : Nat) : isInfix o → n ≤ opPrec o →
      Rd (lp o) a ta (opPrec o) → Rd (rp o) b tb k → k < rp o → Rd n (.bin o a b) (ta ++ o :: tb) k
  | asg (s : Sh) (ts : List TokType) (k : Nat) : Rd precAssign s ts k → k < precAssign →
      Rd precAssign (.asg s) (.IDENT :: .EQ :: ts) k

/-! ## facts about the table -/

theorem tokOfBin_binOpOf (t : TokType) (op : BinOp) (h : binOpOf t = some op) : tokOfBin op = t := by
  cases t <;> simp [binOpOf] at h <;> subst h <;> rfl

theorem binOpOf_of_binary (t : TokType) (h : (getRule t).inf = some .binary) : ∃ op, binOpOf t = some op := by
  cases t <;> simp [getRule] at h <;> exact ⟨_, rfl⟩

theorem logic_of_and (t : TokType) (h : (getRule t).inf = some .boolAnd) : t = .AND := by
  cases t <;> simp [getRule] at h <;> rfl
theorem logic_of_or (t : TokType) (h : (getRule t).inf = some .boolOr) : t = .OR := by
  cases t <;> simp [getRule] at h <;> rfl
theorem binary_not_logic (t : TokType) (h : (getRule t).inf = some .binary) : isLogic t = false ∧ 5 ≤ opPrec t := by
  cases t <;> simp [getRule] at h <;> simp [isLogic, opPrec, getRule]

/-- after the right operand of `c`, the next operator `c2` (which binds less tightly than `c`
asked for) can take the whole of `… c …` as its left operand -/
theorem lp_le_of_follow (c c2 : TokType) (hc : isInfix c) (hc2 : isInfix c2) (h : opPrec c2 < rp c) : lp c2 ≤ opPrec c := by
  unfold isInfix at hc hc2
  cases c <;> simp [getRule] at hc <;> cases c2 <;> simp [getRule] at hc2 <;>
    simp [lp, rp, opPrec, isLogic, getRule] at h ⊢ <;> omega

theorem lp_le (o : TokType) : lp o ≤ opPrec o + 1 := by unfold lp; split <;> omega

/-! ## the first operand of an expression stays an operand -/

/-- what the loop knows about the tree built so far: it reads at the loop's level, and the
operator ahead (if the loop is going to take it) can have it as its left operand -/
def LeftOK (prec : Nat) (s : Sh) (L : List TokType) (k : Nat) : Prop :=
  Rd prec s L k ∧ ∀ c, isInfix c → opPrec c = k → prec ≤ k → Rd (lp c) s L k

/-- examples of the relation: `a + b * c`, `a - b - c`, `not a == b`, `a and b and c` -/
example : Rd 1 (.bin .PLUS .atom (.bin .STAR .atom .atom)) [.INT, .PLUS, .INT, .STAR, .INT] 0 :=
  Rd.bin 1 .PLUS .atom _ [.INT] [.INT, .STAR, .INT] 0 (by simp [isInfix, getRule]) (by decide)
    (Rd.atom _ _ _ (by simp [isAtom]))
    (Rd.bin _ .STAR .atom .atom [.INT] [.INT] 0 (by simp [isInfix, getRule]) (by decide)
      (Rd.atom _ _ _ (by simp [isAtom])) (Rd.atom _ _ _ (by simp [isAtom])) (by decide)) (by decide)
example : Rd 1 (.bin .MINUS (.bin .MINUS .atom .atom) .atom) [.INT, .MINUS, .INT, .MINUS, .INT] 0 :=
  Rd.bin 1 .MINUS _ .atom [.INT, .MINUS, .INT] [.INT] 0 (by simp [isInfix, getRule]) (by decide)
    (Rd.bin _ .MINUS .atom .atom [.INT] [.INT] _ (by simp [isInfix, getRule]) (by decide)
      (Rd.atom _ _ _ (by simp [isAtom])) (Rd.atom _ _ _ (by simp [isAtom])) (by decide))
    (Rd.atom _ _ _ (by simp [isAtom])) (by decide)
example : Rd 1 (.un .NOT (.bin .EE .atom .atom)) [.NOT, .INT, .EE, .INT] 0 :=
  Rd.un 1 .NOT _ [.INT, .EE, .INT] 0 (by simp [isPreOp])
    (Rd.bin _ .EE .atom .atom [.INT] [.INT] 0 (by simp [isInfix, getRule]) (by decide)
      (Rd.atom _ _ _ (by simp [isAtom])) (Rd.atom _ _ _ (by simp [isAtom])) (by decide)) (by decide)

end Bclv
