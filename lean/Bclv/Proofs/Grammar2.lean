import Bclv.Proofs.Grammar1
import Bclv.Proofs.ParserFuel2
import Bclv.Proofs.ParserSync
namespace Bclv

/-- what the soundness proof needs to know about a parser state -/
structure GInv (p : PState) : Prop where
  te : TE p
  pm : p.panicMode = true → p.hadError = true
  lf : p.hadLexFail = false
  nofail : ∀ t ∈ p.rest, t.typ ≠ .FAIL

/-- …and about a step: the flags only go up, the invariant is kept -/
structure GM (p p' : PState) : Prop where
  err : p.hadError = true → p'.hadError = true
  stuck : p.stuck = true → p'.stuck = true
  inv : GInv p'

theorem GM.refl {p : PState} (h : GInv p) : GM p p := ⟨id, id, h⟩
theorem GM.trans {a b c : PState} (h1 : GM a b) (h2 : GM b c) : GM a c :=
  ⟨fun h => h2.err (h1.err h), fun h => h2.stuck (h1.stuck h), h2.inv⟩
theorem GM.ne {p p' : PState} (h : GM p p') (hne : NE p') : NE p := by
  constructor
  · cases hh : p.hadError with
    | false => rfl
    | true => have := h.err hh; rw [hne.1] at this; cases this
  · cases hh : p.stuck with
    | false => rfl
    | true => have := h.stuck hh; rw [hne.2] at this; cases this

structure GR {α : Type} (m : PM α) : Prop where
  h : ∀ p, GInv p → GM p (m p).2

theorem GR.pure {α} (a : α) : GR (pure a : PM α) := ⟨fun _ h => GM.refl h⟩
theorem GR.bind {α β} {m : PM α} {f : α → PM β} (hm : GR m) (hf : ∀ a, GR (f a)) : GR (m >>= f) :=
  ⟨fun p hp => (hm.h p hp).trans ((hf _).h _ (hm.h p hp).inv)⟩
theorem GR.get : GR (get : PM PState) := ⟨fun _ h => GM.refl h⟩
theorem GR.ite {α} {c : Prop} [Decidable c] {x y : PM α} (hx : GR x) (hy : GR y) : GR (if c then x else y) := by
  split <;> assumption
/-- a modification that leaves tokens and flags alone -/
theorem GR.modify_frame {g : PState → PState}
    (h1 : ∀ p, (g p).rest = p.rest) (h2 : ∀ p, (g p).cur = p.cur) (h3 : ∀ p, (g p).hadError = p.hadError)
    (h4 : ∀ p, (g p).stuck = p.stuck) (h5 : ∀ p, (g p).panicMode = p.panicMode)
    (h6 : ∀ p, (g p).hadLexFail = p.hadLexFail) : GR (_root_.modify g : PM Unit) := by
  refine ⟨fun p hp => ?_⟩
  show GM p (g p)
  refine ⟨by rw [h3]; exact id, by rw [h4]; exact id, ⟨?_, by rw [h5, h3]; exact hp.pm, by rw [h6]; exact hp.lf,
    by rw [h1]; exact hp.nofail⟩⟩
  unfold TE; rw [h1, h2]; exact hp.te
theorem GR.forIn {α β : Type} (l : List α) (f : α → β → PM (ForInStep β)) (hf : ∀ a b, GR (f a b)) :
    ∀ (init : β), GR (forIn l init f) := by
  induction l with
  | nil => intro init; simp only [List.forIn_nil]; exact GR.pure _
  | cons x xs ih =>
    intro init
    simp only [List.forIn_cons]
    apply GR.bind (hf x init)
    intro r
    cases r with
    | done b => exact GR.pure _
    | yield b => exact ih b

theorem wp_gr {α} {m : PM α} (hs : GR m) {p : PState} {Q : α → PState → Prop} (hi : GInv p)
    (k : ∀ a p', GM p p' → Q a p') : wp m Q p := k _ _ (hs.h p hi)

syntax "gr_known" : tactic
macro_rules | `(tactic| gr_known) => `(tactic| with_reducible exact GR.pure _)
macro_rules | `(tactic| gr_known) => `(tactic| with_reducible exact GR.get)

macro "gr" : tactic => `(tactic| repeat' (first
  | assumption
  | gr_known
  | with_reducible apply GR.bind
  | with_reducible apply GR.ite
  | with_reducible apply GR.forIn
  | ((with_reducible apply GR.modify_frame) <;> intro _ <;> rfl)
  | intro _
  | split
  | dsimp only))

theorem errorAt_gr (t : Token) (msg : Bytes) : GR (errorAt t msg) := by
  refine ⟨fun p hp => ?_⟩
  show GM p _
  exact ⟨fun _ => rfl, id, ⟨hp.te, fun _ => rfl, hp.lf, hp.nofail⟩⟩
macro_rules | `(tactic| gr_known) => `(tactic| with_reducible exact errorAt_gr _ _)
theorem errorAtCurrent_gr (msg : Bytes) : GR (errorAtCurrent msg) := by unfold errorAtCurrent; gr
macro_rules | `(tactic| gr_known) => `(tactic| with_reducible exact errorAtCurrent_gr _)
theorem error_gr (msg : Bytes) : GR (error msg) := by unfold error; gr
macro_rules | `(tactic| gr_known) => `(tactic| with_reducible exact error_gr _)
theorem setStuck_gr : GR setStuck := by
  refine ⟨fun p hp => ?_⟩
  show GM p _
  exact ⟨id, fun _ => rfl, ⟨hp.te, hp.pm, hp.lf, hp.nofail⟩⟩
macro_rules | `(tactic| gr_known) => `(tactic| with_reducible exact setStuck_gr)

theorem advance_gr : GR advance := by
  refine ⟨fun p hp => ?_⟩
  have h1 := advance_wp p hp.te
  have h2 : wp advance (fun _ p' => (p.hadError = true → p'.hadError = true) ∧ (p'.panicMode = true → p'.hadError = true)) p := by
    unfold advance
    rw [wp_bind, wp_modify, wp_bind, wp_get]
    have key : ∀ (ts : List Token) (q : PState), (q.panicMode = true → q.hadError = true) →
        wp (advanceLoop ts) (fun _ q' => (q.hadError = true → q'.hadError = true) ∧ (q'.panicMode = true → q'.hadError = true)) q := by
      intro ts
      induction ts with
      | nil => intro q hq; unfold advanceLoop; rw [wp_modify]; exact ⟨id, hq⟩
      | cons t ts ih =>
        intro q hq
        unfold advanceLoop
        rw [wp_bind, wp_modify]
        split
        · rw [wp_bind]
          apply wp_seq
          apply wp_mono (ih _ (fun _ => rfl))
          intro _ q' h
          exact ⟨fun _ => h.1 rfl, h.2⟩
        · rw [wp_pure]; exact ⟨id, hq⟩
    exact key p.rest { p with prev := p.cur } hp.pm
  have h3 : wp advance (fun _ p' => p'.hadLexFail = false ∧ ∀ t ∈ p'.rest, t.typ ≠ .FAIL) p := by
    unfold advance
    rw [wp_bind, wp_modify, wp_bind, wp_get]
    have key : ∀ (ts : List Token) (q : PState), q.hadLexFail = false → (∀ t ∈ ts, t.typ ≠ .FAIL) →
        wp (advanceLoop ts) (fun _ q' => q'.hadLexFail = false ∧ ∀ t ∈ q'.rest, t.typ ≠ .FAIL) q := by
      intro ts
      induction ts with
      | nil => intro q hq _; unfold advanceLoop; rw [wp_modify]; exact ⟨hq, by simp⟩
      | cons t ts ih =>
        intro q hq hts
        have ht : (t.typ == TokType.FAIL) = false := by
          have := hts t (by simp)
          simpa using this
        unfold advanceLoop
        rw [wp_bind, wp_modify]
        split
        · rw [wp_bind]
          apply wp_seq
          exact ih _ (by show (q.hadLexFail || t.typ == TokType.FAIL) = false; rw [hq, ht]; rfl)
            (fun x hx => hts x (by simp [hx]))
        · rw [wp_pure]
          exact ⟨by show (q.hadLexFail || t.typ == TokType.FAIL) = false; rw [hq, ht]; rfl,
            fun x hx => hts x (by simp [hx])⟩
    exact key p.rest { p with prev := p.cur } hp.lf hp.nofail
  exact ⟨h2.1, fun h => h1.1.stuck.trans h, ⟨h1.1.te, h2.2, h3.1, h3.2⟩⟩
macro_rules | `(tactic| gr_known) => `(tactic| with_reducible exact advance_gr)

theorem check_gr (t : TokType) : GR (check t) := by unfold check; gr
macro_rules | `(tactic| gr_known) => `(tactic| with_reducible exact check_gr _)
theorem checkEnd_gr : GR checkEnd := by unfold checkEnd; gr
macro_rules | `(tactic| gr_known) => `(tactic| with_reducible exact checkEnd_gr)
theorem consume_gr (t : TokType) (msg : Bytes) : GR (consume t msg) := by unfold consume; gr
macro_rules | `(tactic| gr_known) => `(tactic| with_reducible exact consume_gr _ _)
theorem match_gr (t : TokType) : GR («match» t) := by unfold «match»; gr
macro_rules | `(tactic| gr_known) => `(tactic| with_reducible exact match_gr _)
theorem matchEnd_gr : GR matchEnd := by unfold matchEnd; gr
macro_rules | `(tactic| gr_known) => `(tactic| with_reducible exact matchEnd_gr)

theorem GR.of_frame {α} {m : PM α} (h : ∀ p, (m p).2.rest = p.rest ∧ (m p).2.cur = p.cur ∧ (m p).2.hadError = p.hadError
    ∧ (m p).2.stuck = p.stuck ∧ (m p).2.panicMode = p.panicMode ∧ (m p).2.hadLexFail = p.hadLexFail) : GR m := by
  refine ⟨fun p hp => ?_⟩
  obtain ⟨h1, h2, h3, h4, h5, h6⟩ := h p
  refine ⟨by rw [h3]; exact id, by rw [h4]; exact id, ⟨?_, by rw [h5, h3]; exact hp.pm, by rw [h6]; exact hp.lf,
    by rw [h1]; exact hp.nofail⟩⟩
  unfold TE; rw [h1, h2]; exact hp.te

theorem addConst_gr (v : Value) : GR (addConst v) := GR.of_frame (fun _ => ⟨rfl, rfl, rfl, rfl, rfl, rfl⟩)
macro_rules | `(tactic| gr_known) => `(tactic| with_reducible exact addConst_gr _)
theorem makeConst_gr (v : Value) : GR (makeConst v) := by unfold makeConst; gr
macro_rules | `(tactic| gr_known) => `(tactic| with_reducible exact makeConst_gr _)
theorem identConst_gr (n : Bytes) : GR (identConst n) := by unfold identConst; gr
macro_rules | `(tactic| gr_known) => `(tactic| with_reducible exact identConst_gr _)
theorem beginScope_gr : GR beginScope := by unfold beginScope; gr
macro_rules | `(tactic| gr_known) => `(tactic| with_reducible exact beginScope_gr)
theorem endScope_gr : GR endScope := GR.of_frame (fun _ => ⟨rfl, rfl, rfl, rfl, rfl, rfl⟩)
macro_rules | `(tactic| gr_known) => `(tactic| with_reducible exact endScope_gr)
theorem addLocal_gr (n : Bytes) : GR (addLocal n) := by unfold addLocal; gr
macro_rules | `(tactic| gr_known) => `(tactic| with_reducible exact addLocal_gr _)
theorem declVar_gr : GR declVar := by unfold declVar; gr
macro_rules | `(tactic| gr_known) => `(tactic| with_reducible exact declVar_gr)
theorem markInitialized_gr : GR markInitialized := by
  apply GR.of_frame
  intro p
  show _ ∧ _ ∧ _ ∧ _ ∧ _ ∧ _
  unfold markInitialized
  simp only [modify, modifyGet, MonadStateOf.modifyGet, StateT.modifyGet, pure]
  cases p.locals <;> exact ⟨rfl, rfl, rfl, rfl, rfl, rfl⟩
macro_rules | `(tactic| gr_known) => `(tactic| with_reducible exact markInitialized_gr)
set_option maxHeartbeats 1000000 in
theorem bindSel_gr : GR bindSel := by unfold bindSel; gr
macro_rules | `(tactic| gr_known) => `(tactic| with_reducible exact bindSel_gr)
theorem bindTarget_gr (m : Bytes) : GR (bindTarget m) := by unfold bindTarget; gr
macro_rules | `(tactic| gr_known) => `(tactic| with_reducible exact bindTarget_gr _)
theorem syncLoop_gr : ∀ (f : Nat), GR (syncLoop f)
  | 0 => by unfold syncLoop; exact setStuck_gr
  | f+1 => by have := syncLoop_gr f; unfold syncLoop; gr
macro_rules | `(tactic| gr_known) => `(tactic| with_reducible exact syncLoop_gr _)
theorem sync_gr (f : Nat) : GR (sync f) := by
  unfold sync
  apply GR.bind
  · refine ⟨fun p hp => ?_⟩
    show GM p _
    exact ⟨id, id, ⟨hp.te, fun h => Bool.noConfusion h, hp.lf, hp.nofail⟩⟩
  · intro _; exact syncLoop_gr f
macro_rules | `(tactic| gr_known) => `(tactic| with_reducible exact sync_gr _)

/-! ## consumption -/

theorem Skips.trans {a b : List Token} {p q r : PState} (h1 : Skips a p q) (h2 : Skips b q r) : Skips (a ++ b) p r := by
  unfold Skips at *; rw [h1, h2]; simp

theorem advanceLoop_noerr : ∀ (ts : List Token) (q : PState),
    wp (advanceLoop ts) (fun _ q' => q'.hadError = false → ts ≠ [] → ts = q'.cur :: q'.rest) q
  | [], q => by unfold advanceLoop; rw [wp_modify]; intro _ h; exact absurd rfl h
  | t :: ts, q => by
    unfold advanceLoop
    rw [wp_bind, wp_modify]
    split
    · rw [wp_bind]
      apply wp_seq
      -- an error token was reported: the flag is up for good
      have key : ∀ (ts : List Token) (q : PState), q.hadError = true → wp (advanceLoop ts) (fun _ q' => q'.hadError = true) q := by
        intro ts
        induction ts with
        | nil => intro q hq; unfold advanceLoop; rw [wp_modify]; exact hq
        | cons t ts ih =>
          intro q hq
          unfold advanceLoop
          rw [wp_bind, wp_modify]
          split
          · rw [wp_bind]; apply wp_seq; exact ih _ rfl
          · rw [wp_pure]; exact hq
      apply wp_mono (key ts _ rfl)
      intro _ q' h hne
      rw [h] at hne; cases hne
    · rw [wp_pure]; intro _ _; rfl

/-- `advance` over a token that is not a finalizer, when no error is reported: exactly that
token is consumed. -/
theorem advance_cons (p : PState) (hi : GInv p) :
    wp advance (fun _ p' => GM p p' ∧ p'.prev = p.cur ∧
      (p'.hadError = false → p.cur.typ.isEnd = false → Skips [p.cur] p p')) p := by
  have hg := advance_gr.h p hi
  have hw := advance_wp p hi.te
  refine ⟨hg, hw.2.2, ?_⟩
  have h3 : wp advance (fun _ p' => p'.hadError = false → p.rest ≠ [] → p.rest = p'.cur :: p'.rest) p := by
    unfold advance
    rw [wp_bind, wp_modify, wp_bind, wp_get]
    exact advanceLoop_noerr p.rest _
  intro hne hend
  have hrest : p.rest ≠ [] := by
    intro h0
    have := hi.te
    unfold TE at this
    rw [h0] at this
    simp only [lastEnd] at this
    rw [this] at hend; cases hend
  have := h3 hne hrest
  unfold Skips
  rw [this]; rfl

theorem match_cons (t : TokType) (ht : t.isEnd = false) (p : PState) (hi : GInv p) :
    wp («match» t) (fun b p' => GM p p' ∧ (b = false → p' = p ∧ p.cur.typ ≠ t) ∧
      (b = true → p.cur.typ = t ∧ p'.prev = p.cur ∧ (p'.hadError = false → Skips [p.cur] p p'))) p := by
  unfold «match» check
  rw [wp_bind, wp_bind, wp_get, wp_pure]
  split
  · rename_i hc
    have hct : p.cur.typ = t := by simpa using hc
    rw [wp_bind]
    apply wp_mono (advance_cons p hi)
    intro _ p' hq
    rw [wp_pure]
    refine ⟨hq.1, ?_, ?_⟩
    · intro h; cases h
    · intro _; exact ⟨hct, hq.2.1, fun hne => hq.2.2 hne (by rw [hct]; exact ht)⟩
  · rename_i hc
    rw [wp_pure]
    refine ⟨GM.refl hi, ?_, ?_⟩
    · intro _; exact ⟨rfl, by simpa using hc⟩
    · intro h; cases h

theorem consume_cons (t : TokType) (msg : Bytes) (ht : t.isEnd = false) (p : PState) (hi : GInv p) :
    wp (consume t msg) (fun _ p' => GM p p' ∧
      (p'.hadError = false → p.cur.typ = t ∧ p'.prev = p.cur ∧ Skips [p.cur] p p')) p := by
  unfold consume check
  rw [wp_bind, wp_bind, wp_get, wp_pure]
  split
  · rename_i hc
    have hct : p.cur.typ = t := by simpa using hc
    apply wp_mono (advance_cons p hi)
    intro _ p' hq
    exact ⟨hq.1, fun hne => ⟨hct, hq.2.1, hq.2.2 hne (by rw [hct]; exact ht)⟩⟩
  · have := (errorAtCurrent_gr msg).h p hi
    refine ⟨this, ?_⟩
    intro hne
    have : (errorAtCurrent msg p).2.hadError = true := rfl
    rw [this] at hne; cases hne

end Bclv
