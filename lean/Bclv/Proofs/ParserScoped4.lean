import Bclv.Proofs.ParserScoped3
namespace Bclv

theorem QE_ext {p0 p p' : PState} {e : Expr} (h : QE p0 e p) (hpi : PI p') (he : Ext p p') : QE p0 e p' :=
  ⟨hpi, h.2.1.trans he, fun hne => ScE_mono he.consts _ _ e (h.2.2 (NE.of_ext he hne))⟩

theorem wp_ite {α} (c : Prop) [Decidable c] (x y : PM α) (Q : α → PState → Prop) (p : PState) :
    wp (if c then x else y) Q p = if c then wp x Q p else wp y Q p := by
  split <;> rfl

theorem parsePrecedence_step (prec f : Nat) (p0 p : PState) (hpi : PI p) (he : Ext p0 p)
   (ih2 : ∀ prec left p0 p, PI p → Ext p0 p → (NE p → ScE p.consts.toList (initCount p0.locals) (decide (p0.depth > 0)) left) → wp (infixLoop prec left f) (QE p0) p)
   (ih3 : ∀ rule ca p0 p, PI p → Ext p0 p → wp (prefixRule rule ca f) (QE p0) p) :
   wp (parsePrecedence prec (f+1)) (QE p0) p := by
  unfold parsePrecedence
  simp only [wp_bind, wp_get]
  apply wp_pres advance_presR hpi he
  intro _ p1 hpi1 he1 _
  split
  · simp only [wp_bind, wp_pure]
    apply wp_spec (error_spec _) hpi1 he1
    intro _ p2 hpi2 he2 _ herr
    exact QE_of_err _ hpi2 he2 herr
  · rename_i rule _
    simp only [wp_bind]
    apply wp_mono (ih3 rule _ p0 p1 hpi1 he1)
    intro e p2 hq2
    apply wp_mono (ih2 prec e p0 p2 hq2.1 hq2.2.1 hq2.2.2)
    intro e' p3 hq3
    split
    · simp only [wp_bind]
      apply wp_pres (match_presR _) hq3.1 hq3.2.1
      intro b p4 hpi4 he4 he34
      split
      · simp only [wp_bind, wp_pure]
        apply wp_spec (error_spec _) hpi4 he4
        intro _ p5 hpi5 he5 _ herr
        exact QE_of_err _ hpi5 he5 herr
      · simp only [wp_pure]
        exact QE_ext hq3 hpi4 he34
    · simp only [wp_pure]
      exact hq3

theorem scE_left_ext {p0 p p' : PState} {left : Expr}
    (hleft : NE p → ScE p.consts.toList (initCount p0.locals) (decide (p0.depth > 0)) left) (he : Ext p p') :
    NE p' → ScE p'.consts.toList (initCount p0.locals) (decide (p0.depth > 0)) left :=
  fun hne => ScE_mono he.consts _ _ left (hleft (NE.of_ext he hne))

theorem infixLoop_step (prec : Nat) (left : Expr) (f : Nat) (p0 p : PState) (hpi : PI p) (he : Ext p0 p)
    (hleft : NE p → ScE p.consts.toList (initCount p0.locals) (decide (p0.depth > 0)) left)
    (ih1 : ∀ prec p0 p, PI p → Ext p0 p → wp (parsePrecedence prec f) (QE p0) p)
    (ih2 : ∀ prec left p0 p, PI p → Ext p0 p → (NE p → ScE p.consts.toList (initCount p0.locals) (decide (p0.depth > 0)) left) → wp (infixLoop prec left f) (QE p0) p) :
    wp (infixLoop prec left (f+1)) (QE p0) p := by
  unfold infixLoop
  simp only [wp_bind, wp_get]
  split
  · simp only [wp_bind, wp_get]
    apply wp_pres advance_presR hpi he
    intro _ p1 hpi1 he1 hep1
    have hleft1 := scE_left_ext hleft hep1
    split
    · -- binary operator
      simp only [wp_bind]
      apply wp_mono (ih1 _ p1 p1 hpi1 (Ext.refl _))
      intro rhs p2 hq2
      have he2 : Ext p0 p2 := he1.trans hq2.2.1
      have hl2 := scE_left_ext hleft1 hq2.2.1
      have hr2 : NE p2 → ScE p2.consts.toList (initCount p0.locals) (decide (p0.depth > 0)) rhs := by
        intro hne; have := hq2.2.2 hne; rw [he1.locals, he1.depth] at this; exact this
      split
      · simp only [wp_bind, wp_get, wp_pure]
        exact ih2 prec _ p0 p2 hq2.1 he2 (fun hne => ⟨hl2 hne, hr2 hne⟩)
      · simp only [wp_bind, wp_pure]
        exact ih2 prec _ p0 p2 hq2.1 he2 hl2
    · -- and
      simp only [wp_bind, wp_get]
      apply wp_mono (ih1 _ p1 p1 hpi1 (Ext.refl _))
      intro rhs p2 hq2
      have he2 : Ext p0 p2 := he1.trans hq2.2.1
      have hl2 := scE_left_ext hleft1 hq2.2.1
      have hr2 : NE p2 → ScE p2.consts.toList (initCount p0.locals) (decide (p0.depth > 0)) rhs := by
        intro hne; have := hq2.2.2 hne; rw [he1.locals, he1.depth] at this; exact this
      split
      · simp only [wp_bind, wp_pure]
        apply wp_spec (error_spec _) hq2.1 he2
        intro _ p3 hpi3 he3 _ herr
        exact ih2 prec _ p0 p3 hpi3 he3 (fun hne => by rw [hne.1] at herr; cases herr)
      · rename_i hj
        simp only [wp_bind, wp_pure]
        exact ih2 prec _ p0 p2 hq2.1 he2 (fun hne => ⟨hl2 hne, hr2 hne, by simp only [jumpMax] at hj; omega⟩)
    · -- or
      simp only [wp_bind, wp_get]
      apply wp_mono (ih1 _ p1 p1 hpi1 (Ext.refl _))
      intro rhs p2 hq2
      have he2 : Ext p0 p2 := he1.trans hq2.2.1
      have hl2 := scE_left_ext hleft1 hq2.2.1
      have hr2 : NE p2 → ScE p2.consts.toList (initCount p0.locals) (decide (p0.depth > 0)) rhs := by
        intro hne; have := hq2.2.2 hne; rw [he1.locals, he1.depth] at this; exact this
      split
      · simp only [wp_bind, wp_pure]
        apply wp_spec (error_spec _) hq2.1 he2
        intro _ p3 hpi3 he3 _ herr
        exact ih2 prec _ p0 p3 hpi3 he3 (fun hne => by rw [hne.1] at herr; cases herr)
      · rename_i hj
        simp only [wp_bind, wp_pure]
        exact ih2 prec _ p0 p2 hq2.1 he2 (fun hne => ⟨hl2 hne, hr2 hne, by simp only [jumpMax] at hj; omega⟩)
    · -- no infix rule: the operand goes round again
      simp only [wp_bind, wp_pure]
      exact ih2 prec _ p0 p1 hpi1 he1 hleft1
  · simp only [wp_pure]
    exact ⟨hpi, he, hleft⟩

theorem lt_of_getElem? {K : List Value} {i : Nat} {v : Value} (h : K[i]? = some v) : i < K.length :=
  (List.getElem?_eq_some_iff.mp h).1

theorem prefixRule_step (rule : Prefix) (ca : Bool) (f : Nat) (p0 p : PState) (hpi : PI p) (he : Ext p0 p)
    (ih1 : ∀ prec p0 p, PI p → Ext p0 p → wp (parsePrecedence prec f) (QE p0) p) :
    wp (prefixRule rule ca (f+1)) (QE p0) p := by
  unfold prefixRule
  simp only [wp_bind, wp_get]
  cases rule with
  | parens =>
    simp only [wp_bind]
    apply wp_mono (ih1 _ p0 p hpi he)
    intro e p1 hq1
    apply wp_pres (consume_presR _ _) hq1.1 hq1.2.1
    intro _ p2 hpi2 _ he12
    simp only [wp_pure]
    exact QE_ext hq1 hpi2 he12
  | unary =>
    simp only [wp_bind]
    apply wp_mono (ih1 _ p0 p hpi he)
    intro e p1 hq1
    simp only [wp_get, wp_pure]
    exact hq1
  | boolNot =>
    simp only [wp_bind]
    apply wp_mono (ih1 _ p0 p hpi he)
    intro e p1 hq1
    simp only [wp_get, wp_pure]
    exact hq1
  | intLit =>
    simp only
    split
    · simp only [wp_bind, wp_pure]
      apply wp_spec (error_spec _) hpi he
      intro _ p1 hpi1 he1 _ herr
      exact QE_of_err _ hpi1 he1 herr
    · simp only [wp_pure]; exact ⟨hpi, he, fun _ => trivial⟩
    · simp only [wp_pure]; exact ⟨hpi, he, fun _ => trivial⟩
    · simp only [wp_bind, wp_pure]
      apply wp_spec (makeConst_spec _) hpi he
      intro idx p1 hpi1 he1 _ hidx
      exact ⟨hpi1, he1, fun _ => lt_of_getElem? hidx⟩
  | floatLit =>
    simp only
    split
    · simp only [wp_bind, wp_pure]
      apply wp_spec (error_spec _) hpi he
      intro _ p1 hpi1 he1 _ herr
      exact QE_of_err _ hpi1 he1 herr
    · simp only [wp_bind, wp_pure]
      apply wp_spec (makeConst_spec _) hpi he
      intro idx p1 hpi1 he1 _ hidx
      exact ⟨hpi1, he1, fun _ => lt_of_getElem? hidx⟩
  | stringLit =>
    simp only
    split
    · simp only [wp_bind, wp_pure]
      apply wp_spec (error_spec _) hpi he
      intro _ p1 hpi1 he1 _ herr
      exact QE_of_err _ hpi1 he1 herr
    · simp only [wp_bind, wp_pure]
      apply wp_spec (makeConst_spec _) hpi he
      intro idx p1 hpi1 he1 _ hidx
      exact ⟨hpi1, he1, fun _ => lt_of_getElem? hidx⟩
  | boolLit => simp only [wp_pure]; exact ⟨hpi, he, fun _ => trivial⟩
  | nilLit => simp only [wp_pure]; exact ⟨hpi, he, fun _ => trivial⟩
  | identRef =>
    simp only [wp_bind, wp_get]
    split
    · -- a local variable
      rename_i slot hres
      have hslot : slot < initCount p0.locals := by
        rw [← he.locals]; exact resolveLocal_lt _ _ _ hpi.tailInit hres
      split
      · simp only [wp_bind]
        apply wp_pres (match_presR _) hpi he
        intro b p1 hpi1 he1 _
        split
        · simp only [wp_bind]
          apply wp_mono (ih1 _ p0 p1 hpi1 he1)
          intro e p2 hq2
          simp only [wp_get, wp_pure]
          exact ⟨hq2.1, hq2.2.1, fun hne => ⟨hslot, hq2.2.2 hne⟩⟩
        · simp only [wp_pure]
          exact ⟨hpi1, he1, fun _ => hslot⟩
      · simp only [wp_pure]
        exact ⟨hpi, he, fun _ => hslot⟩
    · -- not a variable: a field, inside a block only
      split
      · simp only [wp_bind, wp_pure]
        apply wp_spec (error_spec _) hpi he
        intro _ p1 hpi1 he1 _ herr
        exact QE_of_err _ hpi1 he1 herr
      · rename_i hdepth
        have hB : decide (p0.depth > 0) = true := by
          have : p.depth ≠ 0 := by simpa using hdepth
          rw [he.depth] at this
          simp; omega
        simp only [wp_bind]
        apply wp_spec (identConst_spec _) hpi he
        intro idx p1 hpi1 he1 _ hidx
        have hstr1 : isStrAt p1.consts.toList idx := ⟨_, hidx⟩
        split
        · simp only [wp_bind]
          apply wp_pres (match_presR _) hpi1 he1
          intro b p2 hpi2 he2 he12
          have hstr2 := isStrAt_mono he12.consts hstr1
          split
          · simp only [wp_bind]
            apply wp_mono (ih1 _ p2 p2 hpi2 (Ext.refl _))
            intro e p3 hq3
            simp only [wp_get, wp_pure]
            refine ⟨hq3.1, he2.trans hq3.2.1, fun hne => ⟨isStrAt_mono hq3.2.1.consts hstr2, hB, ?_⟩⟩
            have := hq3.2.2 hne
            rw [he2.locals, he2.depth] at this
            exact this
          · simp only [wp_pure]
            exact ⟨hpi2, he2, fun _ => ⟨hstr2, hB⟩⟩
        · simp only [wp_pure]
          exact ⟨hpi1, he1, fun _ => ⟨hstr1, hB⟩⟩

/-- **Expressions are parsed into well-scoped trees** (all three mutually recursive
functions, by induction on the fuel). -/
theorem exprs_scoped : ∀ (f : Nat),
    (∀ prec p0 p, PI p → Ext p0 p → wp (parsePrecedence prec f) (QE p0) p)
    ∧ (∀ prec left p0 p, PI p → Ext p0 p →
        (NE p → ScE p.consts.toList (initCount p0.locals) (decide (p0.depth > 0)) left) → wp (infixLoop prec left f) (QE p0) p)
    ∧ (∀ rule ca p0 p, PI p → Ext p0 p → wp (prefixRule rule ca f) (QE p0) p)
  | 0 => by
    refine ⟨?_, ?_, ?_⟩
    · intro prec p0 p hpi he
      unfold parsePrecedence
      simp only [wp_bind, wp_pure]
      apply wp_spec setStuck_spec hpi he
      intro _ p1 hpi1 he1 _ hst
      exact QE_of_stuck _ hpi1 he1 hst
    · intro prec left p0 p hpi he _
      unfold infixLoop
      simp only [wp_bind, wp_pure]
      apply wp_spec setStuck_spec hpi he
      intro _ p1 hpi1 he1 _ hst
      exact QE_of_stuck _ hpi1 he1 hst
    · intro rule ca p0 p hpi he
      unfold prefixRule
      simp only [wp_bind, wp_pure]
      apply wp_spec setStuck_spec hpi he
      intro _ p1 hpi1 he1 _ hst
      exact QE_of_stuck _ hpi1 he1 hst
  | f+1 => by
    obtain ⟨ih1, ih2, ih3⟩ := exprs_scoped f
    exact ⟨fun prec p0 p hpi he => parsePrecedence_step prec f p0 p hpi he ih2 ih3,
           fun prec left p0 p hpi he hl => infixLoop_step prec left f p0 p hpi he hl ih1 ih2,
           fun rule ca p0 p hpi he => prefixRule_step rule ca f p0 p hpi he ih1⟩

theorem expr_scoped (f : Nat) (p0 p : PState) (hpi : PI p) (he : Ext p0 p) : wp (expr f) (QE p0) p := by
  unfold expr; exact (exprs_scoped f).1 _ p0 p hpi he

end Bclv
