import Bclv.Model.Proto
/-!
# The ParseFile pipeline: termination, deadlock freedom, Close exactly once (C11)

All statements quantify over every script, tail, buffer capacity ≥ 1 and every
interleaving (every path through `step`).
-/
namespace Bclv.Proto

/-! ## a measure that every move decreases -/

def tokW (k : Nat) : Nat := 3 * k + 3

def Rd.w : Rd → Nat
  | .data k _ => tokW k + 2
  | .dataEof k _ => tokW k + 2
  | .zero => tokW 0 + 2
  | .eof => 0
  | .err => 0

def scriptW : List Rd → Nat
  | [] => 0
  | x :: xs => x.w + scriptW xs

def wRecv (s : St) : Nat := 3 * s.tail + 5

def muR : RLoc → Nat
  | .read => 6
  | .sel k _ => 5 + tokW k
  | .sendErr => 4
  | .sendNil => 4
  | .sendNilDone => 3
  | .closeInp => 2
  | .ret => 1
  | .fin => 0

def muL (s : St) : LLoc → Nat
  | .recv => wRecv s
  | .emit n none => 3 * n + wRecv s + 1
  | .emit n (some _) => 3 * n + 4
  | .closeTok => 1
  | .fin => 0

def muP : PLoc → Nat
  | .run => 3
  | .closeDone => 2
  | .publish => 1
  | .fin => 0

def muM : MLoc → Nat
  | .recvRerr => 2
  | .recvPerr => 1
  | .ret => 0

def mu (s : St) : Nat :=
  muR s.r + muL s s.l + muP s.p + muM s.m + 2 * s.tb + (if s.finalTok.isSome then 2 else 0)
  + (if s.hadErr then 0 else 1) + scriptW s.script

/-- Case analysis of one move: `h : s' ∈ aX s` becomes, per enabled branch, `s' = …`. -/
macro "act" h:ident : tactic => `(tactic| (
  (repeat' (split at $h:ident)) <;>
  first
  | (simp only [List.not_mem_nil] at $h:ident; done)
  | (simp only [List.mem_singleton] at $h:ident; subst $h:ident)
  | (simp only [List.mem_cons, List.not_mem_nil, or_false] at $h:ident; rcases $h:ident with $h:ident | $h:ident <;> subst $h:ident)))

theorem step_mu (s s' : St) (h : s' ∈ step s) : mu s' < mu s := by
  simp only [step, List.mem_append] at h
  rcases h with ((((((((((h | h) | h) | h) | h) | h) | h) | h) | h) | h) | h) | h
  · unfold aRead at h; act h <;> simp_all [mu, muR, muL, wRecv, scriptW, Rd.w, tokW] <;> omega
  · unfold aHandoff at h; act h
    rename_i k f hr hl
    cases f <;> simp_all [mu, muR, muL, wRecv, tokW, failFin] <;> omega
  · unfold aDone at h; act h; simp_all [mu, muR, muL, wRecv, tokW]; omega
  · unfold aRerr at h; act h <;> simp_all [mu, muR, muM, muL, wRecv] <;> omega
  · unfold aCloseInp at h; act h; simp_all [mu, muR, muL, wRecv]
  · unfold aClose at h; act h; simp_all [mu, muR, muL, wRecv]
  · unfold aRecvClosed at h; act h; simp_all [mu, muL, wRecv]
  · unfold aEmit at h; act h
    · rename_i n fin hl hb
      cases fin <;> simp_all [mu, muL, wRecv] <;> omega
    · simp_all [mu, muL, wRecv, bufUsed]; split <;> omega
    · simp_all [mu, muL, wRecv]
  · unfold aCloseTok at h; act h; simp_all [mu, muL, wRecv]
  · unfold aTake at h; act h
    · simp_all [mu, muL, muP, wRecv]; omega
    · simp_all [mu, muL, muP, wRecv]; split <;> omega
    · rename_i f hf
      cases hh : s.hadErr <;> cases f <;> simp_all [mu, muL, muP, wRecv, pNext] <;> omega
  · unfold aCloseDone at h; act h; simp_all [mu, muP, muL, wRecv]
  · unfold aPerr at h; act h; simp_all [mu, muP, muM, muL, wRecv]; omega


/-! ## the invariant -/

@[simp] theorem pre_read : RLoc.read.pre = true := rfl
@[simp] theorem pre_sel (k f) : (RLoc.sel k f).pre = true := rfl
@[simp] theorem pre_sendErr : RLoc.sendErr.pre = true := rfl
@[simp] theorem pre_sendNil : RLoc.sendNil.pre = true := rfl
@[simp] theorem pre_sendNilDone : RLoc.sendNilDone.pre = true := rfl
@[simp] theorem pre_closeInp : RLoc.closeInp.pre = false := rfl
@[simp] theorem pre_ret : RLoc.ret.pre = false := rfl
@[simp] theorem pre_fin : RLoc.fin.pre = false := rfl
@[simp] theorem done_recv : LLoc.recv.done = false := rfl
@[simp] theorem done_emit (n f) : (LLoc.emit n f).done = false := rfl
@[simp] theorem done_closeTok : LLoc.closeTok.done = true := rfl
@[simp] theorem done_fin : LLoc.fin.done = true := rfl


structure Inv (s : St) : Prop where
  hcap : 1 ≤ s.cap
  a : (s.m = .recvRerr) ↔ s.r.pre = true
  b : s.inpClosed = true → (s.r = .ret ∨ s.r = .fin)
  c : (s.r = .ret ∨ s.r = .fin) → (s.inpClosed = true ∨ s.doneClosed = true)
  c2 : s.r = .sendNilDone → s.doneClosed = true
  d : s.doneClosed = true → (s.p = .publish ∨ s.p = .fin) ∧ s.hadErr = true
  e1 : s.p = .closeDone → s.hadErr = true
  e2 : (s.p = .publish ∨ s.p = .fin) → s.hadErr = true → s.doneClosed = true
  f : (s.p = .fin) ↔ (s.m = .ret)
  g : s.p ≠ .run → s.l.done = true ∧ s.finalTok = none
  h1 : s.l.done = true → (s.finalTok ≠ none ∨ s.p ≠ .run)
  h2 : s.finalTok ≠ none → s.l.done = true
  h3 : s.l.done = true → s.tb = 0 ∨ s.finalTok ≠ none
  i1 : s.finalTok = some false → s.inpClosed = true
  i2 : ∀ n, s.l = .emit n (some false) → s.inpClosed = true
  i3 : (s.p = .publish ∨ s.p = .fin) → s.hadErr = false → s.inpClosed = true
  k : s.closes = if s.r = .fin then 1 else 0
  m1 : s.lexFailed = true → s.l ≠ .recv ∧ ∀ n, s.l ≠ .emit n none
  m2 : s.readsAfterFail ≤ 1
  m3 : s.readsAfterFail = 1 → s.r ≠ .read
  m4 : s.lexFailed = false → s.readsAfterFail = 0
  n1 : s.sawErr = true → (s.r = .sendErr ∨ s.r = .closeInp ∨ s.r = .ret ∨ s.r = .fin)
  n2 : s.r = .sendErr → s.sawErr = true
  n3 : s.m ≠ .recvRerr → s.rdErr = s.sawErr

theorem inv_init (script : List Rd) (tail : Nat) (tailFail : Bool) (cap : Nat) (h : 1 ≤ cap) :
    Inv (init script tail tailFail cap) := by
  constructor <;> simp [init, h]


macro "inv_close" : tactic => `(tactic| (
  constructor <;> dsimp only <;>
    first
    | assumption
    | (simp; done)
    | (simp_all [raf, failFin, pNext, bufUsed] <;> (try split) <;> (try omega))))

theorem inv_aRead (s s' : St) (hi : Inv s) (h : s' ∈ aRead s) : Inv s' := by
  obtain ⟨hcap, a, b, c, c2, d, e1, e2, f, g, h1, h2, h3, i1, i2, i3, k, m1, m2, m3, m4, n1, n2, n3⟩ := hi
  unfold aRead at h; act h <;> inv_close

theorem inv_aHandoff (s s' : St) (hi : Inv s) (h : s' ∈ aHandoff s) : Inv s' := by
  obtain ⟨hcap, a, b, c, c2, d, e1, e2, f, g, h1, h2, h3, i1, i2, i3, k, m1, m2, m3, m4, n1, n2, n3⟩ := hi
  unfold aHandoff at h; act h <;> inv_close

theorem inv_aDone (s s' : St) (hi : Inv s) (h : s' ∈ aDone s) : Inv s' := by
  obtain ⟨hcap, a, b, c, c2, d, e1, e2, f, g, h1, h2, h3, i1, i2, i3, k, m1, m2, m3, m4, n1, n2, n3⟩ := hi
  unfold aDone at h; act h <;> inv_close

theorem inv_aRerr (s s' : St) (hi : Inv s) (h : s' ∈ aRerr s) : Inv s' := by
  obtain ⟨hcap, a, b, c, c2, d, e1, e2, f, g, h1, h2, h3, i1, i2, i3, k, m1, m2, m3, m4, n1, n2, n3⟩ := hi
  unfold aRerr at h; act h <;> inv_close

theorem inv_aCloseInp (s s' : St) (hi : Inv s) (h : s' ∈ aCloseInp s) : Inv s' := by
  obtain ⟨hcap, a, b, c, c2, d, e1, e2, f, g, h1, h2, h3, i1, i2, i3, k, m1, m2, m3, m4, n1, n2, n3⟩ := hi
  unfold aCloseInp at h; act h <;> inv_close

theorem inv_aClose (s s' : St) (hi : Inv s) (h : s' ∈ aClose s) : Inv s' := by
  obtain ⟨hcap, a, b, c, c2, d, e1, e2, f, g, h1, h2, h3, i1, i2, i3, k, m1, m2, m3, m4, n1, n2, n3⟩ := hi
  unfold aClose at h; act h <;> inv_close

theorem inv_aRecvClosed (s s' : St) (hi : Inv s) (h : s' ∈ aRecvClosed s) : Inv s' := by
  obtain ⟨hcap, a, b, c, c2, d, e1, e2, f, g, h1, h2, h3, i1, i2, i3, k, m1, m2, m3, m4, n1, n2, n3⟩ := hi
  unfold aRecvClosed at h; act h <;> inv_close

theorem inv_aEmit (s s' : St) (hi : Inv s) (h : s' ∈ aEmit s) : Inv s' := by
  obtain ⟨hcap, a, b, c, c2, d, e1, e2, f, g, h1, h2, h3, i1, i2, i3, k, m1, m2, m3, m4, n1, n2, n3⟩ := hi
  unfold aEmit at h; act h <;> inv_close

theorem inv_aCloseTok (s s' : St) (hi : Inv s) (h : s' ∈ aCloseTok s) : Inv s' := by
  obtain ⟨hcap, a, b, c, c2, d, e1, e2, f, g, h1, h2, h3, i1, i2, i3, k, m1, m2, m3, m4, n1, n2, n3⟩ := hi
  unfold aCloseTok at h; act h <;> inv_close

theorem inv_aTake (s s' : St) (hi : Inv s) (h : s' ∈ aTake s) : Inv s' := by
  obtain ⟨hcap, a, b, c, c2, d, e1, e2, f, g, h1, h2, h3, i1, i2, i3, k, m1, m2, m3, m4, n1, n2, n3⟩ := hi
  unfold aTake at h; act h
  · inv_close
  · inv_close
  · rename_i f hf
    cases hh : s.hadErr <;> cases f <;> inv_close

theorem inv_aCloseDone (s s' : St) (hi : Inv s) (h : s' ∈ aCloseDone s) : Inv s' := by
  obtain ⟨hcap, a, b, c, c2, d, e1, e2, f, g, h1, h2, h3, i1, i2, i3, k, m1, m2, m3, m4, n1, n2, n3⟩ := hi
  unfold aCloseDone at h; act h <;> inv_close

theorem inv_aPerr (s s' : St) (hi : Inv s) (h : s' ∈ aPerr s) : Inv s' := by
  obtain ⟨hcap, a, b, c, c2, d, e1, e2, f, g, h1, h2, h3, i1, i2, i3, k, m1, m2, m3, m4, n1, n2, n3⟩ := hi
  unfold aPerr at h; act h <;> inv_close

/-- The invariant holds along every path. -/
theorem inv_step (s s' : St) (hi : Inv s) (h : s' ∈ step s) : Inv s' := by
  simp only [step, List.mem_append] at h
  rcases h with ((((((((((h | h) | h) | h) | h) | h) | h) | h) | h) | h) | h) | h
  · exact inv_aRead s s' hi h
  · exact inv_aHandoff s s' hi h
  · exact inv_aDone s s' hi h
  · exact inv_aRerr s s' hi h
  · exact inv_aCloseInp s s' hi h
  · exact inv_aClose s s' hi h
  · exact inv_aRecvClosed s s' hi h
  · exact inv_aEmit s s' hi h
  · exact inv_aCloseTok s s' hi h
  · exact inv_aTake s s' hi h
  · exact inv_aCloseDone s s' hi h
  · exact inv_aPerr s s' hi h

/-! ## no deadlock, no leak -/

theorem take_stuck (s : St) (hp : s.p = .run) (h : aTake s = []) : s.tb = 0 ∧ s.finalTok = none := by
  unfold aTake at h
  simp only [hp] at h
  split at h
  · simp at h
  · rename_i htb
    split at h
    · simp at h
    · rename_i hf; exact ⟨by omega, hf⟩

theorem emit_enabled (s : St) (n : Nat) (fin : Option Bool) (hl : s.l = .emit n fin)
    (hbuf : s.tb = 0 ∧ s.finalTok = none) (hcap : 1 ≤ s.cap) : aEmit s ≠ [] := by
  have hb : bufUsed s < s.cap := by simp [bufUsed, hbuf.1, hbuf.2]; omega
  unfold aEmit
  cases n with
  | succ n => simp [hl, hb]
  | zero => cases fin <;> simp [hl, hb]


/-- **Deadlock freedom**: a reachable state in which nothing can move is the state in
which every goroutine of the call has ended and the caller has returned.  (So: the call
returns; no goroutine is left blocked on a channel — nothing leaks.) -/
theorem no_deadlock (s : St) (hi : Inv s) (hs : step s = []) : Final s := by
  obtain ⟨hcap, a, b, c, c2, d, e1, e2, f, g, h1, h2, h3, i1, i2, i3, k, m1, m2, m3, m4, n1, n2, n3⟩ := hi
  simp only [step, List.append_eq_nil_iff] at hs
  obtain ⟨⟨⟨⟨⟨⟨⟨⟨⟨⟨⟨xRead, xHand⟩, xDone⟩, xRerr⟩, xCloseInp⟩, xClose⟩, xRecvC⟩, xEmit⟩, xCloseTok⟩, xTake⟩, xCloseDone⟩, xPerr⟩ := hs
  -- the reader is either waiting in its select or has ended
  have hr : (∃ k f, s.r = .sel k f) ∨ s.r = .fin := by
    cases hr : s.r with
    | read => simp only [aRead, hr] at xRead; split at xRead <;> simp at xRead
    | sel k f => exact .inl ⟨k, f, rfl⟩
    | sendErr => have := a.mpr (by simp [hr]); simp [aRerr, hr, this] at xRerr
    | sendNil => have := a.mpr (by simp [hr]); simp [aRerr, hr, this] at xRerr
    | sendNilDone => have := a.mpr (by simp [hr]); simp [aRerr, hr, this] at xRerr
    | closeInp => simp [aCloseInp, hr] at xCloseInp
    | ret => simp [aClose, hr] at xClose
    | fin => exact .inr rfl
  have hp : s.p ≠ .closeDone := by
    intro hp; simp [aCloseDone, hp] at xCloseDone
  have hl : s.l ≠ .closeTok := by
    intro hl; simp [aCloseTok, hl] at xCloseTok
  rcases hr with ⟨k, fl, hr⟩ | hr
  · -- the reader waits: `done` is open and the lexer is not receiving
    have hnd : s.doneClosed = false := by
      cases hd : s.doneClosed with
      | false => rfl
      | true => simp [aDone, hr, hd] at xDone
    have hm : s.m = .recvRerr := a.mpr (by simp [hr])
    have hpf : s.p ≠ .fin := fun hp' => by have := f.mp hp'; simp [hm] at this
    have hnc : s.inpClosed = false := by
      cases hc : s.inpClosed with
      | false => rfl
      | true => rcases b hc with h | h <;> simp [hr] at h
    cases hpp : s.p with
    | closeDone => exact absurd hpp hp
    | fin => exact absurd hpp hpf
    | publish =>
      -- the parser has finished without error and without the input being closed: impossible
      cases he : s.hadErr with
      | true => have := e2 (.inl hpp) he; simp [hnd] at this
      | false => have := i3 (.inl hpp) he; simp [hnc] at this
    | run =>
      have hbuf := take_stuck s hpp xTake
      cases hll : s.l with
      | recv => simp [aHandoff, hr, hll] at xHand
      | closeTok => exact absurd hll hl
      | fin =>
        rcases h1 (by simp [hll]) with hd | hd
        · exact absurd hbuf.2 hd
        · exact absurd hpp hd
      | emit n fin => exact absurd xEmit (emit_enabled s n fin hll hbuf hcap)
  · -- the reader has ended
    have hm : s.m ≠ .recvRerr := fun hm => by have := a.mp hm; simp [hr] at this
    cases hpp : s.p with
    | closeDone => exact absurd hpp hp
    | run =>
      have hbuf := take_stuck s hpp xTake
      cases hll : s.l with
      | recv =>
        rcases c (.inr hr) with hc | hc
        · simp [aRecvClosed, hll, hc] at xRecvC
        · rcases (d hc).1 with h | h <;> simp [hpp] at h
      | closeTok => exact absurd hll hl
      | fin =>
        rcases h1 (by simp [hll]) with hd | hd
        · exact absurd hbuf.2 hd
        · exact absurd hpp hd
      | emit n fin => exact absurd xEmit (emit_enabled s n fin hll hbuf hcap)
    | publish =>
      have hm2 : s.m ≠ .ret := fun h => by have := f.mpr h; simp [hpp] at this
      cases hmm : s.m with
      | recvRerr => exact absurd hmm hm
      | ret => exact absurd hmm hm2
      | recvPerr => simp [aPerr, hpp, hmm] at xPerr
    | fin =>
      have hmm := f.mp hpp
      have hg := (g (by simp [hpp])).1
      cases hll : s.l with
      | recv => simp [hll] at hg
      | emit n fin => simp [hll] at hg
      | closeTok => exact absurd hll hl
      | fin => exact ⟨hr, hll, hpp, hmm⟩

end Bclv.Proto
