import Bclv.Proofs.ParserFuel1
namespace Bclv

theorem check_tkr (t : TokType) : TkR (check t) := by unfold check; tkr
macro_rules | `(tactic| tkr_known) => `(tactic| exact check_tkr _)
theorem checkEnd_tkr : TkR checkEnd := by unfold checkEnd; tkr
macro_rules | `(tactic| tkr_known) => `(tactic| exact checkEnd_tkr)
theorem consume_tkr (t : TokType) (msg : Bytes) : TkR (consume t msg) := by unfold consume; tkr
macro_rules | `(tactic| tkr_known) => `(tactic| exact consume_tkr _ _)
theorem match_tkr (t : TokType) : TkR («match» t) := by unfold «match»; tkr
macro_rules | `(tactic| tkr_known) => `(tactic| exact match_tkr _)
theorem matchEnd_tkr : TkR matchEnd := by unfold matchEnd; tkr
macro_rules | `(tactic| tkr_known) => `(tactic| exact matchEnd_tkr)

theorem addConst_tkr (v : Value) : TkR (addConst v) :=
  ⟨fun p hp => by
    simp only [addConst, bind, StateT.bind, get, getThe, MonadStateOf.get, StateT.get, set, StateT.set, pure, StateT.pure]
    exact ⟨hp, Nat.le_refl _, rfl⟩⟩
macro_rules | `(tactic| tkr_known) => `(tactic| exact addConst_tkr _)
theorem makeConst_tkr (v : Value) : TkR (makeConst v) := by unfold makeConst; tkr
macro_rules | `(tactic| tkr_known) => `(tactic| exact makeConst_tkr _)
theorem identConst_tkr (n : Bytes) : TkR (identConst n) := by unfold identConst; tkr
macro_rules | `(tactic| tkr_known) => `(tactic| exact identConst_tkr _)
theorem beginScope_tkr : TkR beginScope := by unfold beginScope; tkr
macro_rules | `(tactic| tkr_known) => `(tactic| exact beginScope_tkr)
theorem endScope_tkr : TkR endScope :=
  ⟨fun p hp => by
    simp only [endScope, bind, StateT.bind, get, getThe, MonadStateOf.get, StateT.get, set, StateT.set, pure, StateT.pure]
    exact ⟨hp, Nat.le_refl _, rfl⟩⟩
macro_rules | `(tactic| tkr_known) => `(tactic| exact endScope_tkr)
theorem addLocal_tkr (n : Bytes) : TkR (addLocal n) := by unfold addLocal; tkr
macro_rules | `(tactic| tkr_known) => `(tactic| exact addLocal_tkr _)
theorem declVar_tkr : TkR declVar := by unfold declVar; tkr
macro_rules | `(tactic| tkr_known) => `(tactic| exact declVar_tkr)
theorem markInitialized_tkr : TkR markInitialized := by
  unfold markInitialized
  refine ⟨fun p hp => ?_⟩
  show Tk p ((fun p : PState => match p.locals with
    | l :: ls => { p with locals := { l with depth := p.depth } :: ls }
    | [] => p) p)
  cases hl : p.locals <;> simp only [hl] <;> exact ⟨hp, Nat.le_refl _, rfl⟩
macro_rules | `(tactic| tkr_known) => `(tactic| exact markInitialized_tkr)
set_option maxHeartbeats 1000000 in
theorem bindSel_tkr : TkR bindSel := by unfold bindSel; tkr
macro_rules | `(tactic| tkr_known) => `(tactic| exact bindSel_tkr)
theorem bindTarget_tkr (m : Bytes) : TkR (bindTarget m) := by unfold bindTarget; tkr
macro_rules | `(tactic| tkr_known) => `(tactic| exact bindTarget_tkr _)
set_option maxHeartbeats 2000000 in
theorem bindStmt_tkr : TkR bindStmt := by unfold bindStmt; tkr
macro_rules | `(tactic| tkr_known) => `(tactic| exact bindStmt_tkr)

/-- `match t`: either it fails and nothing changes, or the current token was `t` and it is consumed. -/
theorem match_wp (t : TokType) (p : PState) (hte : TE p) :
    wp («match» t) (fun b p' => Tk p p' ∧ (b = false → p' = p ∧ p.cur.typ ≠ t) ∧ (b = true → p.cur.typ = t ∧ (t.isEnd = false → tm p' < tm p))) p := by
  unfold «match» check
  rw [wp_bind, wp_bind, wp_get, wp_pure]
  split
  · rename_i hc
    have hct : p.cur.typ = t := by simpa using hc
    rw [wp_bind]
    apply wp_mono (advance_wp p hte)
    intro _ p' hq
    rw [wp_pure]
    refine ⟨hq.1, ?_, ?_⟩
    · intro h; cases h
    · intro _; exact ⟨hct, fun hne => hq.2.1 (by rw [hct]; exact hne)⟩
  · rename_i hc
    rw [wp_pure]
    refine ⟨Tk.refl hte, ?_, ?_⟩
    · intro _; exact ⟨rfl, by simpa using hc⟩
    · intro h; cases h

theorem matchEnd_wp (p : PState) (hte : TE p) :
    wp matchEnd (fun b p' => Tk p p' ∧ (b = false → p' = p ∧ p.cur.typ.isEnd = false)) p := by
  unfold matchEnd checkEnd
  rw [wp_bind, wp_bind, wp_get, wp_pure]
  split
  · rw [wp_bind]
    apply wp_mono (advance_wp p hte)
    intro _ p' hq
    rw [wp_pure]
    refine ⟨hq.1, ?_⟩
    intro h; cases h
  · rename_i hc
    rw [wp_pure]
    refine ⟨Tk.refl hte, ?_⟩
    intro _; exact ⟨rfl, by simpa using hc⟩

end Bclv
