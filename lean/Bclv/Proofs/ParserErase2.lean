import Bclv.Proofs.ParserErase1
namespace Bclv

theorem HomR.forIn {α β : Type} (l : List α) (f₁ f₂ : α → β → PM (ForInStep β))
    (hf : ∀ a b, HomR id (f₁ a b) (f₂ a b)) : ∀ (init : β), HomR id (forIn l init f₁) (forIn l init f₂) := by
  induction l with
  | nil => intro init; simp only [List.forIn_nil]; exact HomR.pure rfl
  | cons x xs ih =>
    intro init
    simp only [List.forIn_cons]
    apply HomR.bind_id (hf x init)
    intro r
    cases r with
    | done b => exact HomR.pure rfl
    | yield b => exact ih b

set_option hygiene false in
macro "homr'" : tactic => `(tactic| repeat' (first
  | assumption
  | homr_known
  | with_reducible apply HomR.ite
  | ((with_reducible apply HomR.get_bind); intro q₁ q₂ hq; ef_rw)
  | with_reducible apply HomR.bind_id
  | with_reducible apply HomR.forIn
  | ((with_reducible apply HomR.modify); intro q₁ q₂ hq; eeq)
  | ((with_reducible apply HomR.set); eeq)
  | intro _
  | split
  | dsimp only [id]))

theorem setStuck_hom : HomR id setStuck setStuck := by unfold setStuck; homr'
macro_rules | `(tactic| homr_known) => `(tactic| with_reducible exact setStuck_hom)
theorem addConst_hom (v : Value) : HomR id (addConst v) (addConst v) := by unfold addConst; homr'
macro_rules | `(tactic| homr_known) => `(tactic| with_reducible exact addConst_hom _)
theorem makeConst_hom (v : Value) : HomR id (makeConst v) (makeConst v) := by unfold makeConst; homr'
macro_rules | `(tactic| homr_known) => `(tactic| with_reducible exact makeConst_hom _)
theorem identConst_hom (n : Bytes) : HomR id (identConst n) (identConst n) := by unfold identConst; homr'
macro_rules | `(tactic| homr_known) => `(tactic| with_reducible exact identConst_hom _)
theorem beginScope_hom : HomR id beginScope beginScope := by unfold beginScope; homr'
macro_rules | `(tactic| homr_known) => `(tactic| with_reducible exact beginScope_hom)
theorem endScope_hom : HomR id endScope endScope := by unfold endScope; homr'
macro_rules | `(tactic| homr_known) => `(tactic| with_reducible exact endScope_hom)
theorem addLocal_hom (n : Bytes) : HomR id (addLocal n) (addLocal n) := by unfold addLocal; homr'
macro_rules | `(tactic| homr_known) => `(tactic| with_reducible exact addLocal_hom _)
theorem declVar_hom : HomR id declVar declVar := by unfold declVar; homr'
macro_rules | `(tactic| homr_known) => `(tactic| with_reducible exact declVar_hom)
theorem markInitialized_hom : HomR id markInitialized markInitialized := by
  unfold markInitialized
  apply HomR.modify; intro q₁ q₂ hq
  rw [hq.locals, hq.depth]
  split <;> eeq
macro_rules | `(tactic| homr_known) => `(tactic| with_reducible exact markInitialized_hom)
theorem bindSel_hom : HomR id bindSel bindSel := by unfold bindSel; homr'
macro_rules | `(tactic| homr_known) => `(tactic| with_reducible exact bindSel_hom)
theorem bindTarget_hom (m : Bytes) : HomR id (bindTarget m) (bindTarget m) := by unfold bindTarget; homr'
macro_rules | `(tactic| homr_known) => `(tactic| with_reducible exact bindTarget_hom _)

/-! ## erasure of positions in trees -/

def erE : Expr → Expr
  | .lit l _ => .lit l 0
  | .const i _ => .const i 0
  | .getLocal s _ => .getLocal s 0
  | .getField i _ => .getField i 0
  | .setLocal s e _ => .setLocal s (erE e) 0
  | .setField i e _ => .setField i (erE e) 0
  | .un op e _ => .un op (erE e) 0
  | .bin op a b _ => .bin op (erE a) (erE b) 0
  | .and a b _ => .and (erE a) (erE b) 0
  | .or a b _ => .or (erE a) (erE b) 0
  | .bad => .bad

mutual
def erS : Stmt → Stmt
  | .var init _ => .var (init.map erE) 0
  | .print e _ => .print (erE e) 0
  | .eval e _ => .eval (erE e) 0
  | .block ti ni _ body npop _ => .block ti ni 0 (erSs body) npop 0
  | .bind ti opt _ => .bind ti opt 0
  | .bad => .bad
def erSs : Stmts → Stmts
  | .nil => .nil
  | .cons s rest => .cons (erS s) (erSs rest)
end

def erP (p : Program) : Program := { body := erSs p.body, npop := p.npop, endPos := 0 }

theorem sizeE_erE : ∀ (e : Expr), sizeE (erE e) = sizeE e := by
  intro e
  induction e with
  | lit l p => rfl
  | const i p => rfl
  | getLocal s p => rfl
  | getField i p => rfl
  | setLocal s e p ih => simp [erE, sizeE, ih]
  | setField i e p ih => simp [erE, sizeE, ih]
  | un op e p ih => simp [erE, sizeE, ih]
  | bin op a b p iha ihb => simp [erE, sizeE, iha, ihb]
  | and a b p iha ihb => simp [erE, sizeE, iha, ihb]
  | or a b p iha ihb => simp [erE, sizeE, iha, ihb]
  | bad => rfl

theorem sizeE_of_erE {a b : Expr} (h : erE a = erE b) : sizeE a = sizeE b := by
  rw [← sizeE_erE a, h, sizeE_erE]

theorem bindStmt_hom : HomR erS bindStmt bindStmt := by unfold bindStmt; homr'
macro_rules | `(tactic| homr_known) => `(tactic| with_reducible exact bindStmt_hom)

end Bclv
