import Bclv.Proofs.BindRT
/-! # Round trip with nested blocks: entries that fit — plain values and child blocks — are all stored -/
namespace Bclv.Bind
open Bclv

/-- What the round trip needs of one entry: its key resolves to the top-level field `i`,
exported; a plain value has the field's own type; a child block is bound by `copy` to `g`
whatever the field held before. -/
structure EntryFitsG (copy : Ty → GV → Block → Outcome) (id : Nat) (tfs : TFields) (tagged : List (List Char × Nat))
    (it : Item) (i : Nat) (g : GV) : Prop where
  fits : ∃ hd t, lookupField id tfs tagged (chars it.key) = some ⟨[i], hd, t⟩ ∧ hd.exported = true ∧
    ((∃ k x, it = .val k x ∧ x ≠ .nil ∧ assign x t = some g) ∨
     (∃ k b, it = .child k b ∧ HasTy g t ∧ ∀ old, HasTy old t → copy t old b = .ok g))

theorem setItems_succeeds_g (copy : Ty → GV → Block → Outcome) (id : Nat) (n : List Char) (tfs : TFields)
    (tagged : List (List Char × Nat)) :
    ∀ (items : List Item) (idx : Item → Nat) (val : Item → GV) (st : BState),
      HasTy st.v (.struct id n tfs) →
      (∀ it ∈ items, EntryFitsG copy id tfs tagged it (idx it) (val it)) →
      (items.map idx).Nodup →
      (∀ p ∈ st.stored, ∃ j, p = [j] ∧ j ∉ items.map idx) →
      ∃ v', setItems copy id tfs tagged items st = .ok v' ∧ HasTy v' (.struct id n tfs)
        ∧ (∀ it ∈ items, getPath v' [idx it] = .ok (val it))
        ∧ (∀ j, j ∉ items.map idx → getPath v' [j] = getPath st.v [j])
  | [], idx, val, st, hv, _, _, _ => ⟨st.v, rfl, hv, by simp, fun _ _ => rfl⟩
  | it :: rest, idx, val, st, hv, hfit, hnd, hst => by
    obtain ⟨hd, t, hl, hex, hcase⟩ := (hfit it (by simp)).fits
    have hvalid := lookupField_valid id n tfs tagged _ _ hl
    simp only at hvalid
    -- the field can be read (a one-step path never meets a nil embedded pointer)
    have hget : ∃ old, getPath st.v [idx it] = .ok old ∧ HasTy old t := by
      rcases getPath_valid hvalid st.v hv with ⟨fv, hg, hty⟩ | hg
      · exact ⟨fv, hg, hty⟩
      · cases hsv : st.v with
        | struct vals => rw [hsv, getPath_one] at hg; cases hgg : vals.get? (idx it) <;> rw [hgg] at hg <;> cases hg
        | _ => rw [hsv] at hv; cases hv
    obtain ⟨old, hold, holdty⟩ := hget
    have hnocoll : (st.stored.any fun p => overlaps p [idx it]) = false := by
      rw [List.any_eq_false]
      intro p hp
      obtain ⟨j, rfl, hj⟩ := hst p hp
      rw [overlaps_single]
      have : j ≠ idx it := fun h => hj (by simp [h])
      simpa using this
    have hgty : HasTy (val it) t := by
      rcases hcase with ⟨_, _, _, _, ha⟩ | ⟨_, _, _, hg, _⟩
      · exact assign_typed ha
      · exact hg
    have hstep : setItem copy id tfs tagged st it
        = .ok { v := setPath st.v [idx it] (val it), stored := st.stored ++ [[idx it]] } := by
      rcases hcase with ⟨k, x, hit, hx, ha⟩ | ⟨k, b, hit, _, hc⟩
      · subst hit
        simp only [Item.key] at hl
        simp only [setItem, Item.key, hl, hex, hx, hnocoll, hold, ha]
        simp
      · subst hit
        simp only [Item.key] at hl
        simp only [setItem, Item.key, hl, hex, hnocoll, hold, hc old holdty]
        simp
    simp only [List.map_cons, List.nodup_cons] at hnd
    obtain ⟨hv1, hread⟩ := setPath_valid hvalid st.v (val it) hv hgty ⟨old, hold⟩
    have hst' : ∀ p ∈ st.stored ++ [[idx it]], ∃ j, p = [j] ∧ j ∉ rest.map idx := by
      intro p hp
      simp only [List.mem_append, List.mem_singleton] at hp
      rcases hp with hp | rfl
      · obtain ⟨j, rfl, hj⟩ := hst p hp
        exact ⟨j, rfl, fun h => hj (by simp [h])⟩
      · exact ⟨idx it, rfl, hnd.1⟩
    obtain ⟨v', hrun, hty, hall, hframe⟩ := setItems_succeeds_g copy id n tfs tagged rest idx val
      { v := setPath st.v [idx it] (val it), stored := st.stored ++ [[idx it]] } hv1
      (fun it' h' => hfit it' (by simp [h'])) hnd.2 hst'
    refine ⟨v', by unfold setItems; rw [hstep]; exact hrun, hty, ?_, ?_⟩
    · intro it' hit'
      simp only [List.mem_cons] at hit'
      rcases hit' with rfl | hit'
      · rw [hframe (idx it') hnd.1]; exact hread
      · exact hall it' hit'
    · intro j hj
      simp only [List.map_cons, List.mem_cons, not_or] at hj
      rw [hframe j hj.2]
      exact getPath_setPath_frame [idx it] st.v [j] (val it) (by rw [overlaps_single]; simpa using Ne.symm hj.1)

/-- two struct values with the same fields are the same value -/
theorem gvs_ext : ∀ (a b : GVs), (∀ j, a.get? j = b.get? j) → a = b
  | .nil, .nil, _ => rfl
  | .nil, .cons v r, h => by have := h 0; simp [GVs.get?] at this
  | .cons v r, .nil, h => by have := h 0; simp [GVs.get?] at this
  | .cons v r, .cons v' r', h => by
    have h0 := h 0
    simp only [GVs.get?, Option.some.injEq] at h0
    subst h0
    rw [gvs_ext r r' (fun j => by simpa [GVs.get?] using h (j + 1))]

end Bclv.Bind
