import Bclv.Proofs.LexLayout2
import Bclv.Proofs.LexFuel
import Bclv.Proofs.ParserErase4
namespace Bclv

def initW (a : Bytes) : LexSt Whole := ⟨⟨0, [], a, 0⟩, []⟩

/-- **The lexer model does not depend on its budgets**: any inner budget above the input
length and any outer budget of at least `3·len + 4` give the tokens of `lexWhole`. -/
theorem lexWhole_budget_free (a : Bytes) (f n : Nat) (hf : a.length ≤ f) (hn : 3 * a.length + 4 ≤ n) :
    (lexRun Whole.prims (f+1) n .start (initW a)).toks.reverse = lexWhole a := by
  unfold lexWhole
  have h1 : lexRun Whole.prims (f+1) n .start (initW a) = lexRun Whole.prims (f+1) (3 * a.length + 4) .start (initW a) := by
    have := lexRun_more Whole.meas f (n - (3 * a.length + 4)) (3 * a.length + 4) .start (initW a) (by simp)
      (fun h => by cases h) (by simp only [lexPot, initW]; omega)
    rw [← this]; congr 1; omega
  have h2 : lexRun Whole.prims (f+1) (3 * a.length + 4) .start (initW a)
      = lexRun Whole.prims (a.length + 1 + 1) (3 * a.length + 4) .start (initW a) :=
    lexRun_fuel Whole.meas f (a.length + 1) _ .start (initW a) (by simp)
      ⟨by simp only [initW]; omega, fun h => by cases h⟩ ⟨by simp only [initW]; omega, fun h => by cases h⟩
  rw [h1, h2]
  rfl

/-- the position-free run gives the tokens with their positions erased -/
theorem toksFrom_eq (a : Bytes) (f n : Nat) :
    toksFrom f n a = (lexRun Whole.prims f n .start (initW a)).toks.map eT := by
  unfold toksFrom
  have := lexRun_erase Whole.prims f n .start (initW a)
  have e : eL (initW a) = initW a := rfl
  rw [e] at this
  show (lexRun Pf f n .start (initW a)).toks = _
  unfold Pf
  rw [this]
  rfl

theorem lexWhole_erased (a : Bytes) (f n : Nat) (hf : a.length ≤ f) (hn : 3 * a.length + 4 ≤ n) :
    (lexWhole a).map eT = (toksFrom (f+1) n a).reverse := by
  rw [toksFrom_eq, ← lexWhole_budget_free a f n hf hn]
  simp [List.map_reverse]

/-- one separator (whitespace run, or `#` comment up to its line end) dropped from the front -/
def skipSep (a : Bytes) : Bytes := skip1 (a.length + 1) a

/-- **Leading layout is skipped**: dropping one separator from the front of an input does
not change its tokens (kinds, texts, error texts — everything but the offsets). -/
theorem leading_layout_skipped (a : Bytes) : (lexWhole a).map eT = (lexWhole (skipSep a)).map eT := by
  have hle : (skipSep a).length ≤ a.length := skip1_le _ _
  rw [lexWhole_erased a a.length (3 * a.length + 2 + 2) (Nat.le_refl _) (by omega),
    lexWhole_erased (skipSep a) a.length (3 * a.length + 2 + 2) hle (by omega)]
  congr 1
  exact skip1_toks a.length (3 * a.length + 2) a (by omega) (Nat.le_refl _)

/-- …and therefore not the compiled program either. -/
theorem leading_layout_program (a : Bytes) :
    (compileP (parseTokens (lexWhole a) (newlinesFrom 0 a)).prog).map Prod.fst
      = (compileP (parseTokens (lexWhole (skipSep a)) (newlinesFrom 0 (skipSep a))).prog).map Prod.fst ∧
    (parseTokens (lexWhole a) (newlinesFrom 0 a)).consts
      = (parseTokens (lexWhole (skipSep a)) (newlinesFrom 0 (skipSep a))).consts ∧
    (parseTokens (lexWhole a) (newlinesFrom 0 a)).ok
      = (parseTokens (lexWhole (skipSep a)) (newlinesFrom 0 (skipSep a))).ok :=
  parse_positions_code _ _ _ _ (leading_layout_skipped a)

/-! ### the separators spelled out -/

theorem stripSp_head (k : Nat) (a : Bytes) (h : (decodeRune a).2 ≠ 0 ∧ isSpaceR (decodeRune a).1 = true) :
    stripSp (k+1) a = stripSp k (a.drop (decodeRune a).2) := by
  rw [stripSp, if_pos h]
theorem stripSp_nohead (k : Nat) (a : Bytes) (h : ¬((decodeRune a).2 ≠ 0 ∧ isSpaceR (decodeRune a).1 = true)) :
    stripSp k a = a := by
  cases k with
  | zero => rfl
  | succ k => rw [stripSp, if_neg h]

/-- A whitespace rune `sp` (given as its bytes) in front of any input is layout. -/
theorem leading_space_rune (sp a : Bytes) (hw : (decodeRune (sp ++ a)).2 = sp.length) (hne : sp ≠ [])
    (hs : isSpaceR (decodeRune (sp ++ a)).1 = true) :
    (lexWhole (sp ++ a)).map eT = (lexWhole a).map eT := by
  have hpos : sp.length ≠ 0 := by cases sp <;> simp_all
  have hhead : (decodeRune (sp ++ a)).2 ≠ 0 ∧ isSpaceR (decodeRune (sp ++ a)).1 = true := ⟨by rw [hw]; exact hpos, hs⟩
  rw [leading_layout_skipped (sp ++ a)]
  have e1 : skipSep (sp ++ a) = stripSp ((sp ++ a).length + 1) a := by
    unfold skipSep skip1
    rw [if_pos hhead, hw]; simp
  rw [e1]
  by_cases ha : (decodeRune a).2 ≠ 0 ∧ isSpaceR (decodeRune a).1 = true
  · rw [leading_layout_skipped a]
    have e2 : skipSep a = stripSp (a.length + 1) (a.drop (decodeRune a).2) := by
      unfold skipSep skip1; rw [if_pos ha]
    rw [e2]
    -- both sides strip the same whitespace; the budgets differ but both suffice
    have key : ∀ (k k' : Nat) (b : Bytes), b.length < k → b.length < k' → stripSp k b = stripSp k' b := by
      intro k
      induction k with
      | zero => intro k' b h; omega
      | succ k ih =>
        intro k' b h1 h2
        cases k' with
        | zero => omega
        | succ k' =>
          by_cases hb : (decodeRune b).2 ≠ 0 ∧ isSpaceR (decodeRune b).1 = true
          · rw [stripSp_head k b hb, stripSp_head k' b hb]
            have hw' := decodeRune_width_le b
            exact ih k' _ (by simp only [List.length_drop]; omega) (by simp only [List.length_drop]; omega)
          · rw [stripSp_nohead _ b hb, stripSp_nohead _ b hb]
    have hw' := decodeRune_width_le a
    rw [stripSp_head _ a ha]
    rw [key ((sp ++ a).length) (a.length + 1) _ (by simp only [List.length_drop, List.length_append]; omega)
      (by simp only [List.length_drop]; omega)]
  · rw [stripSp_nohead _ a ha]

theorem leading_ascii_space (b : UInt8) (hb : b = 32 ∨ b = 9 ∨ b = 11 ∨ b = 12 ∨ b = 10 ∨ b = 13) (a : Bytes) :
    (lexWhole (b :: a)).map eT = (lexWhole a).map eT := by
  have := leading_space_rune [b] a
  apply this
  · rcases hb with h | h | h | h | h | h <;> subst h <;> simp [decodeRune, utf8First]
  · simp
  · rcases hb with h | h | h | h | h | h <;> subst h <;> simp [decodeRune, utf8First, isSpaceR]

/-- U+0085 and U+00A0, the two whitespace runes outside ASCII -/
theorem leading_nel (a : Bytes) : (lexWhole (0xC2 :: 0x85 :: a)).map eT = (lexWhole a).map eT := by
  have hl : ¬(a.length + 1 + 1 < 2) := by omega
  apply leading_space_rune [0xC2, 0x85] a
  · simp [decodeRune, utf8First, hl]
  · simp
  · simp [decodeRune, utf8First, isSpaceR, hl]
theorem leading_nbsp (a : Bytes) : (lexWhole (0xC2 :: 0xA0 :: a)).map eT = (lexWhole a).map eT := by
  have hl : ¬(a.length + 1 + 1 < 2) := by omega
  apply leading_space_rune [0xC2, 0xA0] a
  · simp [decodeRune, utf8First, hl]
  · simp
  · simp [decodeRune, utf8First, isSpaceR, hl]

/-- A `#` comment in front of an input is skipped up to the next CR or LF (or the end). -/
theorem leading_comment (c : Bytes) :
    (lexWhole (35 :: c)).map eT = (lexWhole (dropComment (c.length + 2) c)).map eT := by
  rw [leading_layout_skipped (35 :: c)]
  have : skipSep (35 :: c) = dropComment (c.length + 2) c := by
    unfold skipSep skip1
    have h1 : decodeRune (35 :: c) = (35, 1) := by simp [decodeRune, utf8First]
    rw [h1]
    simp [isSpaceR]
  rw [this]

/-- what `dropComment` drops when the comment's text is ASCII: everything before the line end -/
theorem dropComment_ascii : ∀ (body : Bytes) (e : UInt8) (a : Bytes) (k : Nat), body.length < k →
    (∀ b ∈ body, b < 0x80 ∧ b ≠ 10 ∧ b ≠ 13) → (e = 10 ∨ e = 13) →
    dropComment k (body ++ e :: a) = e :: a
  | [], e, a, k, hk, _, he => by
    cases k with
    | zero => omega
    | succ k =>
      rw [dropComment]
      rcases he with rfl | rfl <;> simp [decodeRune, utf8First, isEol]
  | b :: body, e, a, k, hk, hb, he => by
    cases k with
    | zero => omega
    | succ k =>
      obtain ⟨h80, h10, h13⟩ := hb b (by simp)
      have hd : decodeRune (b :: (body ++ e :: a)) = ((b.toNat : Int), 1) := by
        have : utf8First b = none := by
          unfold utf8First
          have : b < 0xC2 := by
            rw [UInt8.lt_iff_toNat_lt] at h80 ⊢
            simp at h80 ⊢; omega
          simp [this]
        simp only [decodeRune, this, h80, if_true]
      rw [List.cons_append, dropComment, hd]
      have hne : ¬((1 : Nat) = 0 ∨ isEol (b.toNat : Int) = true) := by
        intro h
        rcases h with h | h
        · omega
        · simp only [isEol, Bool.or_eq_true, beq_iff_eq] at h
          rcases h with h | h
          · have hh : b.toNat = 10 := by exact_mod_cast h
            apply h10; apply UInt8.toNat_inj.mp; exact hh
          · have hh : b.toNat = 13 := by exact_mod_cast h
            apply h13; apply UInt8.toNat_inj.mp; exact hh
      rw [if_neg hne]
      simp only [List.drop_one, List.tail_cons]
      exact dropComment_ascii body e a k (by simp at hk; omega) (fun x hx => hb x (by simp [hx])) he

/-- non-vacuity: `# a "b` then a line feed in front of `x` -/
example : (lexWhole (35 :: [32, 97, 32, 34, 98] ++ 10 :: [120])).map eT = (lexWhole [120]).map eT := by
  rw [List.cons_append]
  rw [leading_comment]
  rw [dropComment_ascii [32, 97, 32, 34, 98] 10 [120] _ (by simp) (by decide) (.inl rfl)]
  exact leading_ascii_space 10 (by simp) [120]

end Bclv
