import Bclv.Proofs.LexRender6
namespace Bclv

/-! ## hexadecimal integers -/

def hexByte (b : UInt8) : Prop := isHexDigitR (b.toNat : Int) = true

theorem hex_range (r : Int) (h : isHexDigitR r = true) : 48 ≤ r ∧ r ≤ 102 := by
  simp only [isHexDigitR, isDigitR, Bool.or_eq_true, Bool.and_eq_true, decide_eq_true_eq] at h
  have h' : ((48 ≤ r ∧ r ≤ 57) ∨ (97 ≤ r ∧ r ≤ 102)) ∨ (65 ≤ r ∧ r ≤ 70) := h
  omega

theorem hexByte_ascii (b : UInt8) (h : hexByte b) : b < 0x80 := by
  rw [UInt8.lt_iff_toNat_lt]
  have := hex_range (b.toNat : Int) h
  simp; omega

/-- what may follow a hexadecimal integer -/
def FHex (x : Bytes) : Prop :=
  isHexDigitR (firstRune x) = false ∧ (firstRune x == 46 || firstRune x == 34 || isAlphaR (firstRune x)) = false

/-- `0x…`/`0X…`: `lexStart`, `lexNumber`, `lexHex` -/
theorem hex_steps (f n p w : Nat) (xb : UInt8) (hs x : Bytes) (T : List Token) (hx : xb = 120 ∨ xb = 88)
    (hhs : ∀ b ∈ hs, hexByte b) (hF : FHex x) (hf : hs.length + 2 < f) :
    lexRun Pf f (n + 3) .start ⟨⟨p, [], 48 :: xb :: (hs ++ x), w⟩, T⟩
      = lexRun Pf f n .start ⟨⟨p + (hs.length + 2), [], x, (decodeRune x).2⟩, { typ := .INT, val := 48 :: xb :: hs } :: T⟩ := by
  have hxb80 : xb < 0x80 := by rcases hx with h | h <;> rw [h] <;> decide
  have hxr : ((xb.toNat : Int) == 120 || (xb.toNat : Int) == 88) = true := by rcases hx with h | h <;> rw [h] <;> decide
  have hhs' : ∀ y ∈ hs, y < 0x80 ∧ isHexDigitR (y.toNat : Int) = true := fun y hy => ⟨hexByte_ascii y (hhs y hy), hhs y hy⟩
  rw [lexRun, start_on_digit f ⟨p, [], 48 :: xb :: (hs ++ x), w⟩ T 48 (firstRune_ascii 48 _ (by decide)) (by decide)]
  dsimp only
  rw [lexRun]
  have e1 := Pf_next_ascii p w [] (xb :: (hs ++ x)) 48 (by decide)
  have e2 := Pf_backup_ascii p [] (xb :: (hs ++ x)) 48
  have e3 := Pf_next_ascii p 1 [] (xb :: (hs ++ x)) 48 (by decide)
  have e4 := Pf_next_ascii (p + 1) 1 [48] (hs ++ x) xb hxb80
  have h48 : ((((48 : UInt8).toNat : Int) : Rune) == 48) = true := by decide
  simp only [lexStep, e1, e2, accept, e3, e4, hxr, h48, if_true, Bool.and_self]
  rw [lexRun]
  have e5 := acceptRun_ascii isHexDigitR hs f (p + 1 + 1) 1 false [xb, 48] x hhs' hF.1 (by omega)
  have e6 := peekR_eq ⟨p + 1 + 1 + hs.length, hs.reverse ++ [xb, 48], x, (decodeRune x).2⟩
  simp only [lexStep, e5, e6, hF.2, Bool.false_eq_true, if_false, emit]
  congr 2
  · simp [Pf, LexPrims.noPos, Whole.prims]; omega
  · simp [Pf, LexPrims.noPos, Whole.prims]

/-! ## floating-point literals -/

/-- digits followed by `.`, `e` or `E`: `lexStart` and `lexNumber` hand over to `lexFloat` -/
theorem number_to_float (f n p w : Nat) (t y : Bytes) (T : List Token) (hid : IsIntText t)
    (hnd : isDigitR (firstRune y) = false)
    (hfl : (firstRune y == 46 || firstRune y == 101 || firstRune y == 69) = true)
    (hnx : (firstRune y == 120 || firstRune y == 88) = false) (hf : t.length < f) :
    lexRun Pf f (n + 2) .start ⟨⟨p, [], t ++ y, w⟩, T⟩
      = lexRun Pf f n .float ⟨⟨p + t.length, t.reverse, y, (decodeRune y).2⟩, T⟩ := by
  obtain ⟨hne, hdig⟩ := hid
  cases t with
  | nil => exact absurd rfl hne
  | cons b bs =>
  have hb := hdig b (by simp)
  have hb80 := digitByte_ascii b hb
  have hbs : ∀ z ∈ bs, z < 0x80 ∧ isDigitR (z.toNat : Int) = true :=
    fun z hz => ⟨digitByte_ascii z (hdig z (by simp [hz])), hdig z (by simp [hz])⟩
  rw [lexRun, start_on_digit f ⟨p, [], (b :: bs) ++ y, w⟩ T (b.toNat : Int)
    (by simp only [List.cons_append]; exact firstRune_ascii b _ hb80) hb]
  dsimp only
  rw [lexRun]
  simp only [List.cons_append]
  rw [Pf_next_ascii p w [] (bs ++ y) b hb80]
  simp only [lexStep]
  rw [Pf_backup_ascii p [] (bs ++ y) b]
  unfold accept
  rw [Pf_next_ascii p 1 [] (bs ++ y) b hb80]
  dsimp only
  by_cases h48 : ((b.toNat : Int) == 48) = true
  · simp only [h48, if_true, Bool.true_and]
    have hnx' : ((Pf.next ⟨p + 1, [b], bs ++ y, 1⟩).1 == 120 || (Pf.next ⟨p + 1, [b], bs ++ y, 1⟩).1 == 88) = false := by
      rw [Pf_next_eq]
      dsimp only
      cases bs with
      | nil => simp only [List.nil_append]; exact hnx
      | cons d ds =>
        have hd := hbs d (by simp)
        simp only [List.cons_append]
        rw [firstRune_ascii d _ hd.1]
        exact notX_of_digit _ hd.2
    simp only [hnx', Bool.false_eq_true, if_false]
    rw [Pf_backup_next]
    dsimp only
    have := acceptRun_ascii isDigitR bs f (p + 1) ((decodeRune (bs ++ y)).2) false [b] y hbs hnd (by simp at hf; omega)
    rw [this]
    dsimp only
    rw [peekR_eq]
    dsimp only
    rw [hfl]
    simp only [if_true]
    congr 2
    simp [Nat.add_assoc, Nat.add_comm 1]
  · simp only [h48, Bool.false_eq_true, if_false, Bool.false_and]
    rw [Pf_backup_ascii p [] (bs ++ y) b]
    have := acceptRun_ascii isDigitR (b :: bs) f p 1 false [] y
      (fun z hz => by
        rcases List.mem_cons.mp hz with rfl | hz
        · exact ⟨hb80, hb⟩
        · exact hbs z hz) hnd hf
    simp only [List.cons_append] at this
    rw [this]
    dsimp only
    rw [peekR_eq]
    dsimp only
    rw [hfl]
    simp only [if_true]
    congr 2
    simp

theorem accept_hit (pred : Rune → Bool) (p w : Nat) (c r : Bytes) (b : UInt8) (hb : b < 0x80)
    (hp : pred (b.toNat : Int) = true) : accept Pf pred ⟨p, c, b :: r, w⟩ = (true, ⟨p + 1, b :: c, r, 1⟩) := by
  unfold accept
  rw [Pf_next_ascii p w c r b hb]
  simp [hp]

theorem accept_miss (pred : Rune → Bool) (s : Whole) (hp : pred (firstRune s.rest) = false) :
    accept Pf pred s = (false, { s with width := (decodeRune s.rest).2 }) := by
  unfold accept
  have hb := Pf_backup_next s
  rw [Pf_next_eq] at hb ⊢
  dsimp only at hb ⊢
  rw [hp]
  simp only [Bool.false_eq_true, if_false]
  rw [hb]

def digitsText (ds : Bytes) : Prop := ds ≠ [] ∧ ∀ b ∈ ds, digitByte b

theorem digits_ascii {ds : Bytes} (h : digitsText ds) : ∀ z ∈ ds, z < 0x80 ∧ isDigitR (z.toNat : Int) = true :=
  fun z hz => ⟨digitByte_ascii z (h.2 z hz), h.2 z hz⟩

/-- what may follow a float without an exponent / with one -/
def FFloatNoExp (x : Bytes) : Prop :=
  isDigitR (firstRune x) = false ∧ (firstRune x == 101 || firstRune x == 69) = false ∧
  (firstRune x == 34 || isAlphaR (firstRune x)) = false
def FFloatExp (x : Bytes) : Prop :=
  isDigitR (firstRune x) = false ∧ (firstRune x == 34 || isAlphaR (firstRune x)) = false

/-- `lexFloat` on `.digits` -/
theorem float_frac_step (f q w : Nat) (c fd x : Bytes) (T : List Token) (hfd : digitsText fd) (hF : FFloatNoExp x)
    (hf : fd.length < f) :
    lexStep Pf f .float ⟨⟨q, c, 46 :: (fd ++ x), w⟩, T⟩
      = (.start, ⟨⟨q + 1 + fd.length, [], x, (decodeRune x).2⟩,
          { typ := .FLOAT, val := c.reverse ++ 46 :: fd } :: T⟩) := by
  have e1 := accept_hit (· == 46) q w c (fd ++ x) 46 (by decide) (by decide)
  have e2 := acceptRun_ascii isDigitR fd f (q + 1) 1 false (46 :: c) x (digits_ascii hfd) hF.1 hf
  have hne : (!fd.isEmpty) = true := by cases fd with | nil => exact absurd rfl hfd.1 | cons _ _ => rfl
  have e3 := accept_miss (fun r => r == 101 || r == 69) ⟨q + 1 + fd.length, fd.reverse ++ 46 :: c, x, (decodeRune x).2⟩ hF.2.1
  have e4 := peekR_eq ⟨q + 1 + fd.length, fd.reverse ++ 46 :: c, x, (decodeRune x).2⟩
  simp only [lexStep, e1, e2, hne, e3, e4, hF.2.2, Bool.false_or, Bool.not_true, Bool.false_eq_true, if_false, if_true, emit]
  congr 2 <;> simp [Pf, LexPrims.noPos, Whole.prims]

def isExpByte (b : UInt8) : Prop := b = 101 ∨ b = 69
def isSignText (sg : Bytes) : Prop := sg = [] ∨ sg = [43] ∨ sg = [45]

theorem digit_not_sign (r : Int) (h : isDigitR r = true) : (r == 43 || r == 45) = false := by
  have := digit_range r h
  have a : r ≠ 43 := by omega
  have b : r ≠ 45 := by omega
  simp [a, b]

/-- the sign and the digits of an exponent, from the state behind `e` -/
theorem exp_digits (f q w : Nat) (c sg ed x : Bytes) (hsg : isSignText sg) (hed : digitsText ed)
    (hnd : isDigitR (firstRune x) = false) (hf : ed.length < f) :
    acceptRun Pf isDigitR f false (accept Pf (fun r => r == 43 || r == 45) ⟨q, c, sg ++ (ed ++ x), w⟩).2
      = (true, ⟨q + sg.length + ed.length, ed.reverse ++ (sg.reverse ++ c), x, (decodeRune x).2⟩) := by
  have hne : (!ed.isEmpty) = true := by cases ed with | nil => exact absurd rfl hed.1 | cons _ _ => rfl
  rcases hsg with rfl | rfl | rfl
  · -- no sign: the first digit is not one
    have hmiss : (fun r : Rune => r == 43 || r == 45) (firstRune (ed ++ x)) = false := by
      cases ed with
      | nil => exact absurd rfl hed.1
      | cons d ds =>
        have hd := digits_ascii hed d (by simp)
        simp only [List.cons_append]
        rw [firstRune_ascii d _ hd.1]
        exact digit_not_sign _ hd.2
    simp only [List.nil_append]
    rw [accept_miss _ ⟨q, c, ed ++ x, w⟩ hmiss]
    dsimp only
    rw [acceptRun_ascii isDigitR ed f q _ false c x (digits_ascii hed) hnd hf, hne]
    simp
  · simp only [List.cons_append, List.nil_append]
    rw [accept_hit _ q w c (ed ++ x) 43 (by decide) (by decide)]
    dsimp only
    rw [acceptRun_ascii isDigitR ed f (q + 1) 1 false (43 :: c) x (digits_ascii hed) hnd hf, hne]
    simp
  · simp only [List.cons_append, List.nil_append]
    rw [accept_hit _ q w c (ed ++ x) 45 (by decide) (by decide)]
    dsimp only
    rw [acceptRun_ascii isDigitR ed f (q + 1) 1 false (45 :: c) x (digits_ascii hed) hnd hf, hne]
    simp

theorem expByte_facts (eb : UInt8) (h : isExpByte eb) :
    eb < 0x80 ∧ ((eb.toNat : Int) == 101 || (eb.toNat : Int) == 69) = true ∧ ((eb.toNat : Int) == 46) = false := by
  rcases h with rfl | rfl <;> decide

/-- `lexFloat` on `e[sign]digits` (no fraction) -/
theorem float_exp_step (f q w : Nat) (c sg ed x : Bytes) (eb : UInt8) (T : List Token) (heb : isExpByte eb)
    (hsg : isSignText sg) (hed : digitsText ed) (hF : FFloatExp x) (hf : ed.length < f) :
    lexStep Pf f .float ⟨⟨q, c, eb :: (sg ++ (ed ++ x)), w⟩, T⟩
      = (.start, ⟨⟨q + 1 + sg.length + ed.length, [], x, (decodeRune x).2⟩,
          { typ := .FLOAT, val := c.reverse ++ eb :: (sg ++ ed) } :: T⟩) := by
  obtain ⟨h80, hE, h46⟩ := expByte_facts eb heb
  have e1 := accept_miss (· == 46) ⟨q, c, eb :: (sg ++ (ed ++ x)), w⟩ (by
    show ((firstRune (eb :: (sg ++ (ed ++ x)))) == 46) = false
    rw [firstRune_ascii eb _ h80]; exact h46)
  have hw : (decodeRune (eb :: (sg ++ (ed ++ x)))).2 = 1 := by rw [decodeRune_ascii eb _ h80]
  have e2 := accept_hit (fun r => r == 101 || r == 69) q 1 c (sg ++ (ed ++ x)) eb h80 hE
  have e3 := exp_digits f (q + 1) 1 (eb :: c) sg ed x hsg hed hF.1 hf
  have e4 := peekR_eq ⟨q + 1 + sg.length + ed.length, ed.reverse ++ (sg.reverse ++ eb :: c), x, (decodeRune x).2⟩
  simp only [lexStep, e1, hw, e2, e3, e4, hF.2, Bool.not_true, Bool.false_eq_true, if_false, if_true, emit]
  congr 2 <;> simp [Pf, LexPrims.noPos, Whole.prims]

/-- `lexFloat` on `.digits e[sign]digits` -/
theorem float_frac_exp_step (f q w : Nat) (c fd sg ed x : Bytes) (eb : UInt8) (T : List Token) (hfd : digitsText fd)
    (heb : isExpByte eb) (hsg : isSignText sg) (hed : digitsText ed) (hF : FFloatExp x)
    (hf : fd.length < f) (hf2 : ed.length < f) :
    lexStep Pf f .float ⟨⟨q, c, 46 :: (fd ++ eb :: (sg ++ (ed ++ x))), w⟩, T⟩
      = (.start, ⟨⟨q + 1 + fd.length + 1 + sg.length + ed.length, [], x, (decodeRune x).2⟩,
          { typ := .FLOAT, val := c.reverse ++ 46 :: (fd ++ eb :: (sg ++ ed)) } :: T⟩) := by
  obtain ⟨h80, hE, h46⟩ := expByte_facts eb heb
  have hnde : isDigitR (firstRune (eb :: (sg ++ (ed ++ x)))) = false := by
    rw [firstRune_ascii eb _ h80]; rcases heb with rfl | rfl <;> decide
  have e1 := accept_hit (· == 46) q w c (fd ++ eb :: (sg ++ (ed ++ x))) 46 (by decide) (by decide)
  have e2 := acceptRun_ascii isDigitR fd f (q + 1) 1 false (46 :: c) (eb :: (sg ++ (ed ++ x))) (digits_ascii hfd) hnde hf
  have hne : (!fd.isEmpty) = true := by cases fd with | nil => exact absurd rfl hfd.1 | cons _ _ => rfl
  have e3 := accept_hit (fun r => r == 101 || r == 69) (q + 1 + fd.length) ((decodeRune (eb :: (sg ++ (ed ++ x)))).2)
    (fd.reverse ++ 46 :: c) (sg ++ (ed ++ x)) eb h80 hE
  have e4 := exp_digits f (q + 1 + fd.length + 1) 1 (eb :: (fd.reverse ++ 46 :: c)) sg ed x hsg hed hF.1 hf2
  have e5 := peekR_eq ⟨q + 1 + fd.length + 1 + sg.length + ed.length,
    ed.reverse ++ (sg.reverse ++ eb :: (fd.reverse ++ 46 :: c)), x, (decodeRune x).2⟩
  simp only [lexStep, e1, e2, hne, e3, e4, e5, hF.2, Bool.false_or, Bool.not_true, Bool.false_eq_true, if_false, if_true, emit]
  congr 2 <;> simp [Pf, LexPrims.noPos, Whole.prims]

end Bclv
