import Bclv.Model.Lexer
/-!
# Two instantiations of the lexer's input primitives that simulate each other give the same tokens

`PrimSim` relates two implementations of `next/backup/unbackup/ignore/current/endPos` through
three relations on their states: `R` (same abstract cursor), `Rp` (additionally: the last
rune read can be backed over) and `Rm` (additionally: the rune backed over can be stepped
over again).  `lexRun_sim`: the generic engine then emits the same tokens.
-/
namespace Bclv

structure PrimSim {σ₁ σ₂ : Type} (P₁ : LexPrims σ₁) (P₂ : LexPrims σ₂)
    (R Rp Rm : σ₁ → σ₂ → Prop) : Prop where
  rp_r : ∀ a b, Rp a b → R a b
  rm_r : ∀ a b, Rm a b → R a b
  next : ∀ a b, R a b → (P₁.next a).1 = (P₂.next b).1 ∧ Rp (P₁.next a).2 (P₂.next b).2
  backup : ∀ a b, Rp a b → Rm (P₁.backup a) (P₂.backup b)
  unbackup : ∀ a b, Rm a b → Rp (P₁.unbackup a) (P₂.unbackup b)
  ignore : ∀ a b, R a b → R (P₁.ignore a) (P₂.ignore b)
  ignore_m : ∀ a b, Rm a b → Rm (P₁.ignore a) (P₂.ignore b)
  current : ∀ a b, R a b → P₁.current a = P₂.current b
  endPos : ∀ a b, R a b → P₁.endPos a = P₂.endPos b

section
variable {σ₁ σ₂ : Type} {P₁ : LexPrims σ₁} {P₂ : LexPrims σ₂} {R Rp Rm : σ₁ → σ₂ → Prop}
variable (S : PrimSim P₁ P₂ R Rp Rm)

/-- Lexer states related: cursors related, same tokens so far. -/
def RL (Q : σ₁ → σ₂ → Prop) (l₁ : LexSt σ₁) (l₂ : LexSt σ₂) : Prop := Q l₁.s l₂.s ∧ l₁.toks = l₂.toks

include S

theorem emit_sim (t : TokType) (l₁ : LexSt σ₁) (l₂ : LexSt σ₂) (h : RL R l₁ l₂) :
    RL R (emit P₁ t l₁) (emit P₂ t l₂) := by
  obtain ⟨hs, ht⟩ := h
  exact ⟨S.ignore _ _ hs, by simp [emit, S.current _ _ hs, S.endPos _ _ hs, ht]⟩

theorem failWith_sim (msg : Bytes) (l₁ : LexSt σ₁) (l₂ : LexSt σ₂) (h : RL R l₁ l₂) :
    (failWith P₁ msg l₁).1 = (failWith P₂ msg l₂).1 ∧ RL R (failWith P₁ msg l₁).2 (failWith P₂ msg l₂).2 := by
  obtain ⟨hs, ht⟩ := h
  have hi := S.ignore _ _ hs
  exact ⟨rfl, hi, by simp [failWith, S.current _ _ hi, S.endPos _ _ hi, S.endPos _ _ hs, ht]⟩

theorem invalidSyntax_sim (l₁ : LexSt σ₁) (l₂ : LexSt σ₂) (h : RL R l₁ l₂) :
    (invalidSyntax P₁ l₁).1 = (invalidSyntax P₂ l₂).1 ∧ RL R (invalidSyntax P₁ l₁).2 (invalidSyntax P₂ l₂).2 := by
  unfold invalidSyntax
  rw [S.current _ _ h.1]
  exact failWith_sim S _ l₁ l₂ h

theorem peekR_sim (a : σ₁) (b : σ₂) (h : R a b) :
    (peekR P₁ a).1 = (peekR P₂ b).1 ∧ Rm (peekR P₁ a).2 (peekR P₂ b).2 := by
  have hn := S.next a b h
  exact ⟨hn.1, S.backup _ _ hn.2⟩

theorem accept_sim (valid : Rune → Bool) (a : σ₁) (b : σ₂) (h : R a b) :
    (accept P₁ valid a).1 = (accept P₂ valid b).1 ∧ R (accept P₁ valid a).2 (accept P₂ valid b).2 := by
  have hn := S.next a b h
  unfold accept
  simp only [hn.1]
  split
  · exact ⟨rfl, S.rp_r _ _ hn.2⟩
  · exact ⟨rfl, S.rm_r _ _ (S.backup _ _ hn.2)⟩

theorem acceptRun_sim (pred : Rune → Bool) : ∀ (f : Nat) (acc : Bool) (a : σ₁) (b : σ₂), R a b →
    (acceptRun P₁ pred f acc a).1 = (acceptRun P₂ pred f acc b).1
    ∧ R (acceptRun P₁ pred f acc a).2 (acceptRun P₂ pred f acc b).2
  | 0, acc, a, b, h => ⟨rfl, h⟩
  | f+1, acc, a, b, h => by
    have hn := S.next a b h
    unfold acceptRun
    simp only [hn.1]
    split
    · exact acceptRun_sim pred f true _ _ (S.rp_r _ _ hn.2)
    · exact ⟨rfl, S.rm_r _ _ (S.backup _ _ hn.2)⟩

theorem commentLoop_sim : ∀ (f : Nat) (a : σ₁) (b : σ₂), R a b → R (commentLoop P₁ f a) (commentLoop P₂ f b)
  | 0, a, b, h => h
  | f+1, a, b, h => by
    have hn := S.next a b h
    unfold commentLoop
    simp only [hn.1]
    split
    · exact S.ignore _ _ (S.rm_r _ _ (S.backup _ _ hn.2))
    · exact commentLoop_sim f _ _ (S.rp_r _ _ hn.2)

theorem quoteLoop_sim : ∀ (f : Nat) (a : σ₁) (b : σ₂), R a b →
    (quoteLoop P₁ f a).1 = (quoteLoop P₂ f b).1 ∧ R (quoteLoop P₁ f a).2 (quoteLoop P₂ f b).2
  | 0, a, b, h => ⟨rfl, h⟩
  | f+1, a, b, h => by
    have hn := S.next a b h
    have hn2 := S.next _ _ (S.rp_r _ _ hn.2)
    unfold quoteLoop
    simp only [hn.1, hn2.1]
    split
    · split
      · exact quoteLoop_sim f _ _ (S.rp_r _ _ hn2.2)
      · exact ⟨rfl, S.rp_r _ _ hn2.2⟩
    · split
      · exact ⟨rfl, S.rp_r _ _ hn.2⟩
      · split
        · exact ⟨rfl, S.rp_r _ _ hn.2⟩
        · exact quoteLoop_sim f _ _ (S.rp_r _ _ hn.2)

theorem identLoop_sim : ∀ (f : Nat) (a : σ₁) (b : σ₂), R a b → R (identLoop P₁ f a) (identLoop P₂ f b)
  | 0, a, b, h => h
  | f+1, a, b, h => by
    have hn := S.next a b h
    unfold identLoop
    simp only [hn.1]
    split
    · exact identLoop_sim f _ _ (S.rp_r _ _ hn.2)
    · exact S.rm_r _ _ (S.backup _ _ hn.2)

/-- The relation between the two lexers when they are in state `st`: `number` is entered
right after the rune that made it a number was read (it is backed over first). -/
def RS (R Rp : σ₁ → σ₂ → Prop) (st : LState) : LexSt σ₁ → LexSt σ₂ → Prop :=
  match st with
  | .number => RL Rp
  | _ => RL R

omit S in
theorem RS_of_R (st : LState) (hst : st ≠ .number) (l₁ : LexSt σ₁) (l₂ : LexSt σ₂) (h : RL R l₁ l₂) : RS R Rp st l₁ l₂ := by
  cases st <;> first | exact h | exact absurd rfl hst

theorem lexStep_start (f : Nat) (l₁ : LexSt σ₁) (l₂ : LexSt σ₂) (h : RL R l₁ l₂) :
    (lexStep P₁ f .start l₁).1 = (lexStep P₂ f .start l₂).1
    ∧ RS R Rp (lexStep P₁ f .start l₁).1 (lexStep P₁ f .start l₁).2 (lexStep P₂ f .start l₂).2 := by
  obtain ⟨hs, ht⟩ := h
  have hn := S.next _ _ hs
  have hn2 := S.next _ _ (S.rp_r _ _ hn.2)
  have hb := S.rm_r _ _ (S.backup _ _ hn2.2)
  have h1 : RL R (σ₁ := σ₁) (σ₂ := σ₂) { s := (P₁.next l₁.s).2, toks := l₁.toks } { s := (P₂.next l₂.s).2, toks := l₂.toks } :=
    ⟨S.rp_r _ _ hn.2, ht⟩
  simp only [lexStep, hn.1, hn2.1]
  generalize (P₂.next l₂.s).1 = r
  generalize (P₂.next (P₂.next l₂.s).2).1 = r2
  by_cases he : (r == eofR) = true
  · simp only [he, if_true]
    exact ⟨by first | rfl | trivial, emit_sim S .EOF _ _ h1⟩
  · simp only [he, Bool.false_eq_true, if_false]
    cases htw : twoRuneOf r with
    | some p =>
      obtain ⟨r2want, t2⟩ := p
      simp only
      by_cases h2 : (r2 == (r2want : Int)) = true
      · simp only [h2, if_true]
        exact ⟨by first | rfl | trivial, emit_sim S _ _ _ ⟨S.rp_r _ _ hn2.2, ht⟩⟩
      · simp only [h2, Bool.false_eq_true, if_false]
        cases ho : oneRuneOf r with
        | some t1 => exact ⟨by first | rfl | trivial, emit_sim S _ _ _ ⟨hb, ht⟩⟩
        | none => exact failWith_sim S _ _ _ ⟨hb, ht⟩
    | none =>
      simp only
      cases ho : oneRuneOf r with
      | some t1 => exact ⟨by first | rfl | trivial, emit_sim S _ _ _ h1⟩
      | none =>
        simp only
        by_cases c1 : isSpaceR r = true
        · simp only [c1, if_true]; exact ⟨by first | rfl | trivial, h1⟩
        · simp only [c1, Bool.false_eq_true, if_false]
          by_cases c2 : (r == 35) = true
          · simp only [c2, if_true]; exact ⟨by first | rfl | trivial, h1⟩
          · simp only [c2, Bool.false_eq_true, if_false]
            by_cases c3 : (r == 34) = true
            · simp only [c3, if_true]; exact ⟨by first | rfl | trivial, h1⟩
            · simp only [c3, Bool.false_eq_true, if_false]
              by_cases c4 : (isAlphaR r || r == 95) = true
              · simp only [c4, if_true]; exact ⟨by first | rfl | trivial, h1⟩
              · simp only [c4, Bool.false_eq_true, if_false]
                by_cases c5 : isDigitR r = true
                · simp only [c5, if_true]; exact ⟨by first | rfl | trivial, hn.2, ht⟩
                · simp only [c5, Bool.false_eq_true, if_false]
                  exact failWith_sim S _ _ _ h1

theorem lexStep_space (f : Nat) (l₁ : LexSt σ₁) (l₂ : LexSt σ₂) (h : RL R l₁ l₂) :
    RL R (lexStep P₁ f .space l₁).2 (lexStep P₂ f .space l₂).2 := by
  have ha := acceptRun_sim S isSpaceR f false _ _ h.1
  simp only [lexStep]
  exact ⟨S.ignore _ _ ha.2, h.2⟩

theorem lexStep_comment (f : Nat) (l₁ : LexSt σ₁) (l₂ : LexSt σ₂) (h : RL R l₁ l₂) :
    RL R (lexStep P₁ f .comment l₁).2 (lexStep P₂ f .comment l₂).2 := by
  simp only [lexStep]
  exact ⟨commentLoop_sim S f _ _ h.1, h.2⟩

theorem lexStep_ident (f : Nat) (l₁ : LexSt σ₁) (l₂ : LexSt σ₂) (h : RL R l₁ l₂) :
    (lexStep P₁ f .ident l₁).1 = (lexStep P₂ f .ident l₂).1
    ∧ RL R (lexStep P₁ f .ident l₁).2 (lexStep P₂ f .ident l₂).2 := by
  have hi := identLoop_sim S f _ _ h.1
  have hp := peekR_sim S _ _ hi
  have hc := S.current _ _ (S.rm_r _ _ hp.2)
  simp only [lexStep, hp.1, hc]
  generalize (peekR P₂ (identLoop P₂ f l₂.s)).1 = r
  by_cases c : (r == 34) = true
  · simp only [c, if_true]
    exact invalidSyntax_sim S _ _ ⟨S.rp_r _ _ (S.unbackup _ _ hp.2), h.2⟩
  · simp only [c, Bool.false_eq_true, if_false]
    cases keywordOf (P₂.current (peekR P₂ (identLoop P₂ f l₂.s)).2) with
    | some k => exact ⟨by first | rfl | trivial, emit_sim S _ _ _ ⟨S.rm_r _ _ hp.2, h.2⟩⟩
    | none => exact ⟨by first | rfl | trivial, emit_sim S _ _ _ ⟨S.rm_r _ _ hp.2, h.2⟩⟩

theorem lexStep_hex (f : Nat) (l₁ : LexSt σ₁) (l₂ : LexSt σ₂) (h : RL R l₁ l₂) :
    (lexStep P₁ f .hex l₁).1 = (lexStep P₂ f .hex l₂).1
    ∧ RL R (lexStep P₁ f .hex l₁).2 (lexStep P₂ f .hex l₂).2 := by
  have ha := acceptRun_sim S isHexDigitR f false _ _ h.1
  have hp := peekR_sim S _ _ ha.2
  simp only [lexStep, hp.1]
  generalize (peekR P₂ (acceptRun P₂ isHexDigitR f false l₂.s).2).1 = r
  by_cases c : (r == 46 || r == 34 || isAlphaR r) = true
  · simp only [c, if_true]
    exact invalidSyntax_sim S _ _ ⟨S.rp_r _ _ (S.unbackup _ _ hp.2), h.2⟩
  · simp only [c, Bool.false_eq_true, if_false]
    exact ⟨by first | rfl | trivial, emit_sim S _ _ _ ⟨S.rm_r _ _ hp.2, h.2⟩⟩

theorem lexStep_quote (f : Nat) (l₁ : LexSt σ₁) (l₂ : LexSt σ₂) (h : RL R l₁ l₂) :
    (lexStep P₁ f .quote l₁).1 = (lexStep P₂ f .quote l₂).1
    ∧ RL R (lexStep P₁ f .quote l₁).2 (lexStep P₂ f .quote l₂).2 := by
  have hq := quoteLoop_sim S f _ _ h.1
  have hp := peekR_sim S _ _ hq.2
  simp only [lexStep, hq.1, hp.1]
  generalize (quoteLoop P₂ f l₂.s).1 = closed
  generalize (peekR P₂ (quoteLoop P₂ f l₂.s).2).1 = r
  cases closed with
  | false => exact failWith_sim S _ _ _ ⟨hq.2, h.2⟩
  | true =>
    simp only [Bool.not_true, Bool.false_eq_true, if_false]
    by_cases c : isAlphaNumR r = true
    · simp only [c, if_true]
      exact invalidSyntax_sim S _ _ ⟨S.rp_r _ _ (S.unbackup _ _ hp.2), h.2⟩
    · simp only [c, Bool.false_eq_true, if_false]
      exact ⟨by first | rfl | trivial, emit_sim S _ _ _ ⟨S.rm_r _ _ hp.2, h.2⟩⟩

/-- the tail of `number` after the leading-zero test -/
theorem number_tail (f : Nat) (a : σ₁) (b : σ₂) (t₁ : List Token) (hab : R a b) :
    let s₁ := (acceptRun P₁ isDigitR f false a).2
    let s₂ := (acceptRun P₂ isDigitR f false b).2
    let r₁ := (peekR P₁ s₁).1
    let r₂ := (peekR P₂ s₂).1
    let o₁ : LState × LexSt σ₁ :=
      if r₁ == 46 || r₁ == 101 || r₁ == 69 then (.float, { s := (peekR P₁ s₁).2, toks := t₁ })
      else if r₁ == 34 || isAlphaR r₁ then invalidSyntax P₁ { s := P₁.unbackup (peekR P₁ s₁).2, toks := t₁ }
      else (.start, emit P₁ .INT { s := (peekR P₁ s₁).2, toks := t₁ })
    let o₂ : LState × LexSt σ₂ :=
      if r₂ == 46 || r₂ == 101 || r₂ == 69 then (.float, { s := (peekR P₂ s₂).2, toks := t₁ })
      else if r₂ == 34 || isAlphaR r₂ then invalidSyntax P₂ { s := P₂.unbackup (peekR P₂ s₂).2, toks := t₁ }
      else (.start, emit P₂ .INT { s := (peekR P₂ s₂).2, toks := t₁ })
    o₁.1 = o₂.1 ∧ RL R o₁.2 o₂.2 := by
  intro s₁ s₂ r₁ r₂ o₁ o₂
  have ha := acceptRun_sim S isDigitR f false a b hab
  have hp := peekR_sim S _ _ ha.2
  have hr : r₁ = r₂ := hp.1
  simp only [o₁, o₂, hr]
  by_cases c1 : (r₂ == 46 || r₂ == 101 || r₂ == 69) = true
  · simp only [c1, if_true]; exact ⟨by first | rfl | trivial, S.rm_r _ _ hp.2, rfl⟩
  · simp only [c1, Bool.false_eq_true, if_false]
    by_cases c2 : (r₂ == 34 || isAlphaR r₂) = true
    · simp only [c2, if_true]
      exact invalidSyntax_sim S _ _ ⟨S.rp_r _ _ (S.unbackup _ _ hp.2), rfl⟩
    · simp only [c2, Bool.false_eq_true, if_false]
      exact ⟨by first | rfl | trivial, emit_sim S _ _ _ ⟨S.rm_r _ _ hp.2, rfl⟩⟩

theorem lexStep_number (f : Nat) (l₁ : LexSt σ₁) (l₂ : LexSt σ₂) (h : RL Rp l₁ l₂) :
    (lexStep P₁ f .number l₁).1 = (lexStep P₂ f .number l₂).1
    ∧ RL R (lexStep P₁ f .number l₁).2 (lexStep P₂ f .number l₂).2 := by
  obtain ⟨hs, ht⟩ := h
  have hb := S.rm_r _ _ (S.backup _ _ hs)
  have hz := accept_sim S (· == 48) _ _ hb
  simp only [lexStep, hz.1, ht]
  cases hzz : (accept P₂ (fun x => x == 48) (P₂.backup l₂.s)).1 with
  | false =>
    simp only [Bool.false_eq_true, if_false, Bool.false_and]
    exact number_tail S f _ _ l₂.toks hz.2
  | true =>
    have hx := accept_sim S (fun r => r == 120 || r == 88) _ _ hz.2
    simp only [if_true, Bool.true_and, hx.1]
    cases hxx : (accept P₂ (fun r => r == 120 || r == 88) (accept P₂ (fun x => x == 48) (P₂.backup l₂.s)).2).1 with
    | true => simp only [if_true]; exact ⟨by first | rfl | trivial, hx.2, rfl⟩
    | false =>
      simp only [Bool.false_eq_true, if_false]
      exact number_tail S f _ _ l₂.toks hx.2

theorem float_tail3 (a : σ₁) (b : σ₂) (t : List Token) (hab : R a b) :
    let r₁ := (peekR P₁ a).1
    let r₂ := (peekR P₂ b).1
    let o₁ : LState × LexSt σ₁ :=
      if r₁ == 34 || isAlphaR r₁ then invalidSyntax P₁ { s := P₁.unbackup (peekR P₁ a).2, toks := t }
      else (.start, emit P₁ .FLOAT { s := (peekR P₁ a).2, toks := t })
    let o₂ : LState × LexSt σ₂ :=
      if r₂ == 34 || isAlphaR r₂ then invalidSyntax P₂ { s := P₂.unbackup (peekR P₂ b).2, toks := t }
      else (.start, emit P₂ .FLOAT { s := (peekR P₂ b).2, toks := t })
    o₁.1 = o₂.1 ∧ RL R o₁.2 o₂.2 := by
  intro r₁ r₂ o₁ o₂
  have hp := peekR_sim S _ _ hab
  have hr : r₁ = r₂ := hp.1
  simp only [o₁, o₂, hr]
  by_cases c2 : (r₂ == 34 || isAlphaR r₂) = true
  · simp only [c2, if_true]
    exact invalidSyntax_sim S _ _ ⟨S.rp_r _ _ (S.unbackup _ _ hp.2), rfl⟩
  · simp only [c2, Bool.false_eq_true, if_false]
    exact ⟨by first | rfl | trivial, emit_sim S _ _ _ ⟨S.rm_r _ _ hp.2, rfl⟩⟩

theorem lexStep_float (f : Nat) (l₁ : LexSt σ₁) (l₂ : LexSt σ₂) (h : RL R l₁ l₂) :
    (lexStep P₁ f .float l₁).1 = (lexStep P₂ f .float l₂).1
    ∧ RL R (lexStep P₁ f .float l₁).2 (lexStep P₂ f .float l₂).2 := by
  obtain ⟨hs, ht⟩ := h
  have hd := accept_sim S (· == 46) _ _ hs
  simp only [lexStep, hd.1, ht]
  -- after the optional fraction: states `a`, `b` related, flag equal
  have frac : ∃ (ok : Bool) (a : σ₁) (b : σ₂), R a b ∧
      (if (accept P₂ (fun x => x == 46) l₂.s).1 = true then acceptRun P₁ isDigitR f false (accept P₁ (fun x => x == 46) l₁.s).2
        else (true, (accept P₁ (fun x => x == 46) l₁.s).2)) = (ok, a) ∧
      (if (accept P₂ (fun x => x == 46) l₂.s).1 = true then acceptRun P₂ isDigitR f false (accept P₂ (fun x => x == 46) l₂.s).2
        else (true, (accept P₂ (fun x => x == 46) l₂.s).2)) = (ok, b) := by
    cases (accept P₂ (fun x => x == 46) l₂.s).1 with
    | true =>
      have hr := acceptRun_sim S isDigitR f false _ _ hd.2
      exact ⟨(acceptRun P₂ isDigitR f false (accept P₂ (fun x => x == 46) l₂.s).2).1, _, _, hr.2,
        by simp only [if_true]; exact Prod.ext hr.1 rfl, by simp only [if_true]⟩
    | false => exact ⟨true, _, _, hd.2, by simp, by simp⟩
  obtain ⟨ok1, a, b, hab, e1, e2⟩ := frac
  rw [e1, e2]
  simp only
  cases ok1 with
  | false => simp only [Bool.not_false, if_true]; exact failWith_sim S _ _ _ ⟨hab, rfl⟩
  | true =>
    simp only [Bool.not_true, Bool.false_eq_true, if_false]
    have he := accept_sim S (fun r => r == 101 || r == 69) _ _ hab
    simp only [he.1]
    have expo : ∃ (ok : Bool) (a' : σ₁) (b' : σ₂), R a' b' ∧
        (if (accept P₂ (fun r => r == 101 || r == 69) b).1 = true then
            acceptRun P₁ isDigitR f false (accept P₁ (fun r => r == 43 || r == 45) (accept P₁ (fun r => r == 101 || r == 69) a).2).2
          else (true, (accept P₁ (fun r => r == 101 || r == 69) a).2)) = (ok, a') ∧
        (if (accept P₂ (fun r => r == 101 || r == 69) b).1 = true then
            acceptRun P₂ isDigitR f false (accept P₂ (fun r => r == 43 || r == 45) (accept P₂ (fun r => r == 101 || r == 69) b).2).2
          else (true, (accept P₂ (fun r => r == 101 || r == 69) b).2)) = (ok, b') := by
      cases (accept P₂ (fun r => r == 101 || r == 69) b).1 with
      | true =>
        have hsg := accept_sim S (fun r => r == 43 || r == 45) _ _ he.2
        have hr := acceptRun_sim S isDigitR f false _ _ hsg.2
        exact ⟨(acceptRun P₂ isDigitR f false (accept P₂ (fun r => r == 43 || r == 45) (accept P₂ (fun r => r == 101 || r == 69) b).2).2).1,
          _, _, hr.2, by simp only [if_true]; exact Prod.ext hr.1 rfl, by simp only [if_true]⟩
      | false => exact ⟨true, _, _, he.2, by simp, by simp⟩
    obtain ⟨ok2, a', b', hab', e1', e2'⟩ := expo
    rw [e1', e2']
    simp only
    cases ok2 with
    | false => simp only [Bool.not_false, if_true]; exact failWith_sim S _ _ _ ⟨hab', rfl⟩
    | true =>
      simp only [Bool.not_true, Bool.false_eq_true, if_false]
      exact float_tail3 S a' b' l₂.toks hab'

omit S in
/-- Only `start` hands over to `number`. -/
theorem lexStep_ne_number {σ : Type} (P : LexPrims σ) (f : Nat) (st : LState) (l : LexSt σ) (hst : st ≠ .start) :
    (lexStep P f st l).1 ≠ .number := by
  cases st with
  | start => exact absurd rfl hst
  | done => simp [lexStep]
  | space => simp [lexStep]
  | comment => simp [lexStep]
  | ident =>
    simp only [lexStep]
    split
    · simp [invalidSyntax, failWith]
    · split <;> simp
  | number =>
    simp only [lexStep]
    repeat' split
    all_goals simp [invalidSyntax, failWith]
  | hex =>
    simp only [lexStep]
    split
    · simp [invalidSyntax, failWith]
    · simp
  | float =>
    simp only [lexStep]
    repeat' split
    all_goals simp [invalidSyntax, failWith]
  | quote =>
    simp only [lexStep]
    split
    · simp [failWith]
    · split
      · simp [invalidSyntax, failWith]
      · simp

/-- One state function: same next state, related lexer states. -/
theorem lexStep_sim (f : Nat) (st : LState) (l₁ : LexSt σ₁) (l₂ : LexSt σ₂) (h : RS R Rp st l₁ l₂) :
    (lexStep P₁ f st l₁).1 = (lexStep P₂ f st l₂).1
    ∧ RS R Rp (lexStep P₁ f st l₁).1 (lexStep P₁ f st l₁).2 (lexStep P₂ f st l₂).2 := by
  cases st with
  | done => exact ⟨rfl, h⟩
  | start => exact lexStep_start S f l₁ l₂ h
  | space => exact ⟨rfl, lexStep_space S f l₁ l₂ h⟩
  | comment => exact ⟨rfl, lexStep_comment S f l₁ l₂ h⟩
  | ident =>
    have := lexStep_ident S f l₁ l₂ h
    exact ⟨this.1, RS_of_R _ (lexStep_ne_number P₁ f _ l₁ (by simp)) _ _ this.2⟩
  | number =>
    have := lexStep_number S f l₁ l₂ h
    exact ⟨this.1, RS_of_R _ (lexStep_ne_number P₁ f _ l₁ (by simp)) _ _ this.2⟩
  | hex =>
    have := lexStep_hex S f l₁ l₂ h
    exact ⟨this.1, RS_of_R _ (lexStep_ne_number P₁ f _ l₁ (by simp)) _ _ this.2⟩
  | float =>
    have := lexStep_float S f l₁ l₂ h
    exact ⟨this.1, RS_of_R _ (lexStep_ne_number P₁ f _ l₁ (by simp)) _ _ this.2⟩
  | quote =>
    have := lexStep_quote S f l₁ l₂ h
    exact ⟨this.1, RS_of_R _ (lexStep_ne_number P₁ f _ l₁ (by simp)) _ _ this.2⟩

/-- **The whole run**: related start states give related final states, in particular the
same tokens. -/
theorem lexRun_sim (f : Nat) : ∀ (n : Nat) (st : LState) (l₁ : LexSt σ₁) (l₂ : LexSt σ₂), RS R Rp st l₁ l₂ →
    RL R (lexRun P₁ f n st l₁) (lexRun P₂ f n st l₂)
  | 0, st, l₁, l₂, h => by
    simp only [lexRun]
    cases st <;> first
      | exact ⟨h.1, by rw [h.2]⟩
      | exact ⟨S.rp_r _ _ h.1, by rw [h.2]⟩
  | n+1, st, l₁, l₂, h => by
    have hs := lexStep_sim S f st l₁ l₂ h
    unfold lexRun
    rcases h1 : lexStep P₁ f st l₁ with ⟨st1, o1⟩
    rcases h2 : lexStep P₂ f st l₂ with ⟨st2, o2⟩
    rw [h1, h2] at hs
    simp only at hs
    obtain ⟨hst, hrel⟩ := hs
    subst hst
    cases st1 with
    | done => exact hrel
    | start => exact lexRun_sim f n _ o1 o2 hrel
    | space => exact lexRun_sim f n _ o1 o2 hrel
    | comment => exact lexRun_sim f n _ o1 o2 hrel
    | ident => exact lexRun_sim f n _ o1 o2 hrel
    | number => exact lexRun_sim f n _ o1 o2 hrel
    | hex => exact lexRun_sim f n _ o1 o2 hrel
    | float => exact lexRun_sim f n _ o1 o2 hrel
    | quote => exact lexRun_sim f n _ o1 o2 hrel

end


/-! ## how a run ends -/

def headTyp {σ : Type} (l : LexSt σ) : Option TokType := l.toks.head?.map (·.typ)

theorem failWith_head {σ : Type} (P : LexPrims σ) (msg : Bytes) (l : LexSt σ) : headTyp (failWith P msg l).2 = some .FAIL := rfl
theorem invalidSyntax_head {σ : Type} (P : LexPrims σ) (l : LexSt σ) : headTyp (invalidSyntax P l).2 = some .FAIL := rfl

/-- A run ends with `tEOF` only through the end-of-input branch of `lexStart`. -/
theorem lexStep_done_eof {σ : Type} (P : LexPrims σ) (f : Nat) (st : LState) (l : LexSt σ) (hst : st ≠ .done)
    (hd : (lexStep P f st l).1 = .done) (he : headTyp (lexStep P f st l).2 = some .EOF) :
    (P.next l.s).1 = eofR ∧ (lexStep P f st l).2.s = P.ignore (P.next l.s).2 := by
  cases st with
  | done => exact absurd rfl hst
  | start =>
    simp only [lexStep] at hd he ⊢
    by_cases c : ((P.next l.s).1 == eofR) = true
    · simp only [c, if_true] at he ⊢
      exact ⟨by simpa using c, rfl⟩
    · exfalso
      simp only [c, Bool.false_eq_true, if_false] at hd he
      revert hd he
      repeat' split
      all_goals simp [failWith, headTyp]
  | space => simp [lexStep] at hd
  | comment => simp [lexStep] at hd
  | ident =>
    exfalso
    simp only [lexStep] at hd he
    revert hd he
    repeat' split
    all_goals simp [invalidSyntax, failWith, headTyp]
  | number =>
    exfalso
    simp only [lexStep] at hd he
    revert hd he
    repeat' split
    all_goals simp [invalidSyntax, failWith, headTyp]
  | hex =>
    exfalso
    simp only [lexStep] at hd he
    revert hd he
    repeat' split
    all_goals simp [invalidSyntax, failWith, headTyp]
  | float =>
    exfalso
    simp only [lexStep] at hd he
    revert hd he
    repeat' split
    all_goals simp [invalidSyntax, failWith, headTyp]
  | quote =>
    exfalso
    simp only [lexStep] at hd he
    revert hd he
    repeat' split
    all_goals simp [invalidSyntax, failWith, headTyp]

/-- If the run ends with `tEOF`, its final cursor is the one right after a `next` that
reported end of input (then `ignore`). -/
theorem lexRun_eof {σ : Type} (P : LexPrims σ) (f : Nat) : ∀ (n : Nat) (st : LState) (l : LexSt σ), st ≠ .done →
    headTyp (lexRun P f n st l) = some .EOF →
    ∃ s, (P.next s).1 = eofR ∧ (lexRun P f n st l).s = P.ignore (P.next s).2
  | 0, st, l, _, he => by simp [lexRun, headTyp] at he
  | n+1, st, l, hst, he => by
    unfold lexRun at he ⊢
    rcases h1 : lexStep P f st l with ⟨st1, o1⟩
    rw [h1] at he
    have hd := lexStep_done_eof P f st l hst
    rw [h1] at hd
    cases st1 with
    | done => simp only at he ⊢; exact ⟨l.s, hd rfl he⟩
    | start => exact lexRun_eof P f n _ o1 (by simp) he
    | space => exact lexRun_eof P f n _ o1 (by simp) he
    | comment => exact lexRun_eof P f n _ o1 (by simp) he
    | ident => exact lexRun_eof P f n _ o1 (by simp) he
    | number => exact lexRun_eof P f n _ o1 (by simp) he
    | hex => exact lexRun_eof P f n _ o1 (by simp) he
    | float => exact lexRun_eof P f n _ o1 (by simp) he
    | quote => exact lexRun_eof P f n _ o1 (by simp) he


end Bclv
