import Bclv.Proofs.ParserLfs1
set_option linter.unusedSimpArgs false
namespace Bclv
variable {B : Nat}

theorem HomL.set {s₁ s₂ : PState} (h : LF B s₁ s₂) : HomL B (set s₁ : PM Unit) (set s₂) :=
  ⟨fun _ _ _ => ⟨h, rfl⟩⟩

theorem HomL.forIn {α β : Type} (l : List α) (f : α → β → PM (ForInStep β))
    (hf : ∀ a b, HomL B (f a b) (f a b)) : ∀ (init : β), HomL B (forIn l init f) (forIn l init f) := by
  induction l with
  | nil => intro init; simp only [List.forIn_nil]; exact HomL.pure _
  | cons x xs ih =>
    intro init
    simp only [List.forIn_cons]
    apply HomL.bind (hf x init)
    intro r
    cases r with
    | done b => exact HomL.pure _
    | yield b => exact ih b

set_option hygiene false in
macro "homl'" : tactic => `(tactic| repeat' (first
  | assumption
  | homl_known
  | with_reducible apply HomL.ite
  | ((with_reducible apply HomL.get_bind); intro q₁ q₂ hq; lf_rw)
  | with_reducible apply HomL.bind
  | with_reducible apply HomL.forIn
  | ((with_reducible apply HomL.modify); intro q₁ q₂ hq; leq)
  | ((with_reducible apply HomL.set); leq)
  | intro _
  | split))

theorem setStuck_homl : HomL B setStuck setStuck := by unfold setStuck; homl'
macro_rules | `(tactic| homl_known) => `(tactic| with_reducible exact setStuck_homl)
theorem addConst_homl (v : Value) : HomL B (addConst v) (addConst v) := by unfold addConst; homl'
macro_rules | `(tactic| homl_known) => `(tactic| with_reducible exact addConst_homl _)
theorem makeConst_homl (v : Value) : HomL B (makeConst v) (makeConst v) := by unfold makeConst; homl'
macro_rules | `(tactic| homl_known) => `(tactic| with_reducible exact makeConst_homl _)
theorem identConst_homl (n : Bytes) : HomL B (identConst n) (identConst n) := by unfold identConst; homl'
macro_rules | `(tactic| homl_known) => `(tactic| with_reducible exact identConst_homl _)
theorem beginScope_homl : HomL B beginScope beginScope := by unfold beginScope; homl'
macro_rules | `(tactic| homl_known) => `(tactic| with_reducible exact beginScope_homl)
theorem endScope_homl : HomL B endScope endScope := by unfold endScope; homl'
macro_rules | `(tactic| homl_known) => `(tactic| with_reducible exact endScope_homl)
theorem addLocal_homl (n : Bytes) : HomL B (addLocal n) (addLocal n) := by unfold addLocal; homl'
macro_rules | `(tactic| homl_known) => `(tactic| with_reducible exact addLocal_homl _)
theorem declVar_homl : HomL B declVar declVar := by unfold declVar; homl'
macro_rules | `(tactic| homl_known) => `(tactic| with_reducible exact declVar_homl)
theorem markInitialized_homl : HomL B markInitialized markInitialized := by
  unfold markInitialized
  apply HomL.modify; intro q₁ q₂ hq
  rw [hq.locals, hq.depth]
  split <;> leq
macro_rules | `(tactic| homl_known) => `(tactic| with_reducible exact markInitialized_homl)
theorem bindSel_homl : HomL B bindSel bindSel := by unfold bindSel; homl'
macro_rules | `(tactic| homl_known) => `(tactic| with_reducible exact bindSel_homl)
theorem bindTarget_homl (m : Bytes) : HomL B (bindTarget m) (bindTarget m) := by unfold bindTarget; homl'
macro_rules | `(tactic| homl_known) => `(tactic| with_reducible exact bindTarget_homl _)
theorem bindStmt_homl : HomL B bindStmt bindStmt := by unfold bindStmt; homl'
macro_rules | `(tactic| homl_known) => `(tactic| with_reducible exact bindStmt_homl)

set_option hygiene false in
macro_rules | `(tactic| homl_known) => `(tactic| exact ihP _)
set_option hygiene false in
macro_rules | `(tactic| homl_known) => `(tactic| exact ihR _ _)
set_option hygiene false in
macro_rules | `(tactic| homl_known) => `(tactic| exact ihI _ _)

theorem exprs_homl : ∀ (f : Nat),
    (∀ prec, HomL B (parsePrecedence prec f) (parsePrecedence prec f)) ∧
    (∀ prec l, HomL B (infixLoop prec l f) (infixLoop prec l f)) ∧
    (∀ rule ca, HomL B (prefixRule rule ca f) (prefixRule rule ca f))
  | 0 => by
    refine ⟨?_, ?_, ?_⟩
    · intro prec; unfold parsePrecedence; homl'
    · intro prec l; unfold infixLoop; homl'
    · intro rule ca; unfold prefixRule; homl'
  | f+1 => by
    obtain ⟨ihP, ihI, ihR⟩ := exprs_homl f
    refine ⟨?_, ?_, ?_⟩
    · intro prec; unfold parsePrecedence; homl'
    · intro prec l; unfold infixLoop; homl'
    · intro rule ca; unfold prefixRule; homl'

theorem expr_homl (f : Nat) : HomL B (expr f) (expr f) := (exprs_homl f).1 _

theorem varDecl_homl (f : Nat) : HomL B (varDecl f) (varDecl f) := by
  have he := expr_homl (B := B) f
  unfold varDecl
  homl'

theorem syncLoop_homl : ∀ (f : Nat), HomL B (syncLoop f) (syncLoop f)
  | 0 => by unfold syncLoop; homl'
  | f+1 => by
    have ih := syncLoop_homl f
    unfold syncLoop
    homl'

theorem sync_homl (f : Nat) : HomL B (sync f) (sync f) := by
  have := syncLoop_homl (B := B) f
  unfold sync; homl'

theorem stmts_homl : ∀ (f : Nat),
    HomL B (decl f) (decl f) ∧ HomL B (stmt f) (stmt f) ∧
    HomL B (blockStmt f) (blockStmt f) ∧ HomL B (blockLoop f) (blockLoop f)
  | 0 => by
    refine ⟨?_, ?_, ?_, ?_⟩
    · unfold decl; homl'
    · unfold stmt; homl'
    · unfold blockStmt; homl'
    · unfold blockLoop; homl'
  | f+1 => by
    obtain ⟨ihD, ihS, ihB, ihL⟩ := stmts_homl f
    have he := expr_homl (B := B) f
    have hv := varDecl_homl (B := B) f
    have hs := sync_homl (B := B) f
    refine ⟨?_, ?_, ?_, ?_⟩
    · unfold decl; homl'
    · unfold stmt; homl'
    · unfold blockStmt; homl'
    · unfold blockLoop; homl'

theorem topLoop_homl : ∀ (f : Nat), HomL B (topLoop f) (topLoop f)
  | 0 => by unfold topLoop; homl'
  | f+1 => by
    have ih := topLoop_homl f
    have hd := (stmts_homl (B := B) f).1
    unfold topLoop
    homl'

end Bclv
