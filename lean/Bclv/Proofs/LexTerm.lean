import Bclv.Proofs.LexSim
namespace Bclv

/-- What termination of the lexer needs from the input primitives: a measure (bytes not yet
read) that `next` decreases unless it reports end of input, and that a `backup` right after
a `next` restores. -/
structure PrimMeas {σ : Type} (P : LexPrims σ) (μ : σ → Nat) : Prop where
  next_le : ∀ s, μ (P.next s).2 ≤ μ s
  next_lt : ∀ s, (P.next s).1 ≠ eofR → μ (P.next s).2 < μ s
  backup_next : ∀ s, μ (P.backup (P.next s).2) ≤ μ s
  renext_rune : ∀ s, (P.next (P.backup (P.next s).2)).1 = (P.next s).1
  renext_mu : ∀ s, μ (P.next (P.backup (P.next s).2)).2 ≤ μ (P.next s).2
  unbackup_le : ∀ s, μ (P.unbackup s) ≤ μ s
  ignore_eq : ∀ s, μ (P.ignore s) = μ s

section
variable {σ : Type} {P : LexPrims σ} {μ : σ → Nat} (hP : PrimMeas P μ)
include hP

theorem peekR_le (s : σ) : μ (peekR P s).2 ≤ μ s := hP.backup_next s

theorem accept_le (v : Rune → Bool) (s : σ) : μ (accept P v s).2 ≤ μ s := by
  unfold accept
  have h1 := hP.next_le s; have h2 := hP.backup_next s
  rcases h : P.next s with ⟨r, s'⟩
  rw [h] at h1 h2
  dsimp only
  split <;> assumption

theorem acceptRun_le (pred : Rune → Bool) : ∀ (f : Nat) (acc : Bool) (s : σ), μ (acceptRun P pred f acc s).2 ≤ μ s
  | 0, _, _ => Nat.le_refl _
  | f+1, acc, s => by
    unfold acceptRun
    have h1 := hP.next_le s; have h2 := hP.backup_next s
    rcases h : P.next s with ⟨r, s'⟩
    rw [h] at h1 h2
    dsimp only
    split
    · exact Nat.le_trans (acceptRun_le pred f true _) h1
    · exact h2

theorem commentLoop_le : ∀ (f : Nat) (s : σ), μ (commentLoop P f s) ≤ μ s
  | 0, _ => Nat.le_refl _
  | f+1, s => by
    unfold commentLoop
    have h1 := hP.next_le s; have h2 := hP.backup_next s
    rcases h : P.next s with ⟨r, s'⟩
    rw [h] at h1 h2
    dsimp only
    split
    · rw [hP.ignore_eq]; exact h2
    · exact Nat.le_trans (commentLoop_le f _) h1

theorem identLoop_le : ∀ (f : Nat) (s : σ), μ (identLoop P f s) ≤ μ s
  | 0, _ => Nat.le_refl _
  | f+1, s => by
    unfold identLoop
    have h1 := hP.next_le s; have h2 := hP.backup_next s
    rcases h : P.next s with ⟨r, s'⟩
    rw [h] at h1 h2
    dsimp only
    split
    · exact Nat.le_trans (identLoop_le f _) h1
    · exact h2

theorem quoteLoop_le : ∀ (f : Nat) (s : σ), μ (quoteLoop P f s).2 ≤ μ s
  | 0, _ => Nat.le_refl _
  | f+1, s => by
    unfold quoteLoop
    have h1 := hP.next_le s
    rcases h : P.next s with ⟨r, s1⟩
    rw [h] at h1
    have h2 : μ (P.next s1).2 ≤ μ s1 := hP.next_le s1
    dsimp only
    repeat' split
    · exact Nat.le_trans (quoteLoop_le f (P.next s1).2) (Nat.le_trans h2 h1)
    · exact Nat.le_trans h2 h1
    · exact h1
    · exact h1
    · exact Nat.le_trans (quoteLoop_le f _) h1

theorem step_space (f : Nat) (l : LexSt σ) :
    (lexStep P f .space l).1 = .start ∧ μ (lexStep P f .space l).2.s ≤ μ l.s := by
  simp only [lexStep]
  have h := acceptRun_le hP isSpaceR f false l.s
  rcases hh : acceptRun P isSpaceR f false l.s with ⟨a, s⟩
  rw [hh] at h
  dsimp only at h ⊢
  rw [hP.ignore_eq]; exact ⟨trivial, h⟩

theorem step_comment (f : Nat) (l : LexSt σ) :
    (lexStep P f .comment l).1 = .start ∧ μ (lexStep P f .comment l).2.s ≤ μ l.s := by
  simp only [lexStep]
  exact ⟨trivial, commentLoop_le hP f l.s⟩

def startOrDone (st : LState) : Prop := st = .start ∨ st = .done

theorem step_ident (f : Nat) (l : LexSt σ) :
    startOrDone (lexStep P f .ident l).1 ∧ μ (lexStep P f .ident l).2.s ≤ μ l.s := by
  simp only [lexStep]
  have h1 := identLoop_le hP f l.s
  have h2 := peekR_le hP (identLoop P f l.s)
  rcases hh : peekR P (identLoop P f l.s) with ⟨r, s⟩
  rw [hh] at h2
  have hu := hP.unbackup_le s
  dsimp only at h2 ⊢
  repeat' split
  all_goals simp only [invalidSyntax, failWith, emit, hP.ignore_eq, startOrDone]
  all_goals (constructor <;> first | omega | simp)

theorem step_hex (f : Nat) (l : LexSt σ) :
    startOrDone (lexStep P f .hex l).1 ∧ μ (lexStep P f .hex l).2.s ≤ μ l.s := by
  simp only [lexStep]
  have h1 := acceptRun_le hP isHexDigitR f false l.s
  rcases hh : acceptRun P isHexDigitR f false l.s with ⟨a, s1⟩
  rw [hh] at h1
  have h2 := peekR_le hP s1
  rcases hh2 : peekR P s1 with ⟨r, s⟩
  rw [hh2] at h2
  have hu := hP.unbackup_le s
  dsimp only at h1 h2 ⊢
  repeat' split
  all_goals simp only [invalidSyntax, failWith, emit, hP.ignore_eq, startOrDone]
  all_goals (constructor <;> first | omega | simp)

theorem step_quote (f : Nat) (l : LexSt σ) :
    startOrDone (lexStep P f .quote l).1 ∧ μ (lexStep P f .quote l).2.s ≤ μ l.s := by
  simp only [lexStep]
  have h1 := quoteLoop_le hP f l.s
  rcases hh : quoteLoop P f l.s with ⟨a, s1⟩
  rw [hh] at h1
  have h2 := peekR_le hP s1
  rcases hh2 : peekR P s1 with ⟨r, s⟩
  rw [hh2] at h2
  have hu := hP.unbackup_le s
  dsimp only at h1 h2 ⊢
  repeat' split
  all_goals simp only [invalidSyntax, failWith, emit, hP.ignore_eq, startOrDone]
  all_goals (constructor <;> first | omega | simp)

theorem step_float (f : Nat) (l : LexSt σ) :
    startOrDone (lexStep P f .float l).1 ∧ μ (lexStep P f .float l).2.s ≤ μ l.s := by
  simp only [lexStep]
  have h1 := accept_le hP (· == 46) l.s
  rcases hh1 : accept P (· == 46) l.s with ⟨dot, s1⟩
  rw [hh1] at h1
  dsimp only at h1 ⊢
  have h2 : μ (if dot = true then acceptRun P isDigitR f false s1 else (true, s1)).2 ≤ μ s1 := by
    split
    · exact acceptRun_le hP _ _ _ _
    · exact Nat.le_refl _
  rcases hh2 : (if dot = true then acceptRun P isDigitR f false s1 else (true, s1)) with ⟨ok1, s2⟩
  rw [hh2] at h2
  dsimp only at h2 ⊢
  split
  · simp only [failWith, hP.ignore_eq, startOrDone]
    exact ⟨by simp, by omega⟩
  · have h3 := accept_le hP (fun r => r == 101 || r == 69) s2
    rcases hh3 : accept P (fun r => r == 101 || r == 69) s2 with ⟨e, s3⟩
    rw [hh3] at h3
    dsimp only at h3 ⊢
    have fin : ∀ (ok2 : Bool) (s5 : σ), μ s5 ≤ μ l.s →
        startOrDone (if (!ok2) = true then failWith P (str "need more digits for an exponent") { l with s := s5 }
          else
            match peekR P s5 with
            | (r, s) => if (r == 34 || isAlphaR r) = true then invalidSyntax P { l with s := P.unbackup s }
              else (.start, emit P .FLOAT { l with s := s })).1 ∧
        μ (if (!ok2) = true then failWith P (str "need more digits for an exponent") { l with s := s5 }
          else
            match peekR P s5 with
            | (r, s) => if (r == 34 || isAlphaR r) = true then invalidSyntax P { l with s := P.unbackup s }
              else (.start, emit P .FLOAT { l with s := s })).2.s ≤ μ l.s := by
      intro ok2 s5 hle
      split
      · simp only [failWith, hP.ignore_eq, startOrDone]
        exact ⟨by simp, by omega⟩
      · have h5 := peekR_le hP s5
        rcases hh5 : peekR P s5 with ⟨r, s6⟩
        rw [hh5] at h5
        have hu := hP.unbackup_le s6
        dsimp only at h5 ⊢
        repeat' split
        all_goals simp only [invalidSyntax, failWith, emit, hP.ignore_eq, startOrDone]
        all_goals (constructor <;> first | omega | simp)
    cases e
    · exact fin true s3 (by omega)
    · have ha := accept_le hP (fun r => r == 43 || r == 45) s3
      rcases hha : accept P (fun r => r == 43 || r == 45) s3 with ⟨x, s4⟩
      rw [hha] at ha
      have hb := acceptRun_le hP isDigitR f false s4
      rcases hhb : acceptRun P isDigitR f false s4 with ⟨ok2, s5⟩
      rw [hhb] at hb
      dsimp only at ha hb ⊢
      simp only [↓reduceIte]
      exact fin ok2 s5 (by omega)

def afterNumber (st : LState) : Prop := st = .start ∨ st = .done ∨ st = .hex ∨ st = .float

theorem step_number (f : Nat) (l : LexSt σ) (s0 : σ) (hl : l.s = (P.next s0).2)
    (hd : isDigitR (P.next s0).1 = true) :
    afterNumber (lexStep P (f+1) .number l).1 ∧ μ (lexStep P (f+1) .number l).2.s ≤ μ l.s := by
  simp only [lexStep]
  -- after the digits
  have fin : ∀ (s3 : σ), μ s3 ≤ μ l.s →
      afterNumber (match peekR P s3 with
        | (r, s) => if (r == 46 || r == 101 || r == 69) = true then (LState.float, { l with s := s })
          else if (r == 34 || isAlphaR r) = true then invalidSyntax P { l with s := P.unbackup s }
          else (.start, emit P .INT { l with s := s })).1 ∧
      μ (match peekR P s3 with
        | (r, s) => if (r == 46 || r == 101 || r == 69) = true then (LState.float, { l with s := s })
          else if (r == 34 || isAlphaR r) = true then invalidSyntax P { l with s := P.unbackup s }
          else (.start, emit P .INT { l with s := s })).2.s ≤ μ l.s := by
    intro s3 hle
    have h5 := peekR_le hP s3
    rcases hh5 : peekR P s3 with ⟨r, s6⟩
    rw [hh5] at h5
    have hu := hP.unbackup_le s6
    dsimp only at h5 ⊢
    repeat' split
    all_goals simp only [invalidSyntax, failWith, emit, hP.ignore_eq, afterNumber]
    all_goals (constructor <;> first | omega | simp)
  have hr := hP.renext_rune s0
  have hm := hP.renext_mu s0
  rw [← hl] at hr hm
  unfold accept
  rcases hn : P.next (P.backup l.s) with ⟨d, s1⟩
  rw [hn] at hr hm
  dsimp only at hr hm ⊢
  by_cases h48 : (d == 48) = true
  · simp only [h48, ↓reduceIte, Bool.true_and]
    have hx1 := hP.next_le s1
    have hx2 := hP.backup_next s1
    rcases hnx : P.next s1 with ⟨rx, sx⟩
    rw [hnx] at hx1 hx2
    have e1 : P.1 s1 = (rx, sx) := hnx
    simp only [e1]
    dsimp only at hx1 hx2 ⊢
    by_cases hxx : (rx == 120 || rx == 88) = true
    · simp only [hxx, ↓reduceIte]
      exact ⟨.inr (.inr (.inl rfl)), by omega⟩
    · simp only [hxx, ↓reduceIte, Bool.false_eq_true]
      have ha := acceptRun_le hP isDigitR (f+1) false (P.backup sx)
      rcases hha : acceptRun P isDigitR (f+1) false (P.backup sx) with ⟨a, s3⟩
      rw [hha] at ha
      dsimp only at ha ⊢
      exact fin s3 (by omega)
  · simp only [h48, ↓reduceIte, Bool.false_eq_true, Bool.false_and]
    -- the digit is read again by the digit loop
    have hr2 := hP.renext_rune (P.backup l.s)
    have hm2 := hP.renext_mu (P.backup l.s)
    rw [hn] at hr2 hm2
    dsimp only at hr2 hm2
    unfold acceptRun
    rcases hn2 : P.next (P.backup s1) with ⟨d2, s2⟩
    rw [hn2] at hr2 hm2
    dsimp only at hr2 hm2 ⊢
    have hd2 : isDigitR d2 = true := by rw [hr2, hr]; exact hd
    simp only [hd2, ↓reduceIte]
    have ha := acceptRun_le hP isDigitR f true s2
    rcases hha : acceptRun P isDigitR f true s2 with ⟨a, s3⟩
    rw [hha] at ha
    dsimp only at ha ⊢
    exact fin s3 (by omega)

theorem step_start (f : Nat) (l : LexSt σ) :
    (lexStep P f .start l).1 = .done ∨
    (μ (lexStep P f .start l).2.s < μ l.s ∧
      ((lexStep P f .start l).1 = .number →
        (lexStep P f .start l).2.s = (P.next l.s).2 ∧ isDigitR (P.next l.s).1 = true)) := by
  simp only [lexStep]
  have h1 : (P.1 l.s).1 ≠ eofR → μ (P.1 l.s).2 < μ l.s := hP.next_lt l.s
  have h2 : μ (P.1 (P.1 l.s).2).2 ≤ μ (P.1 l.s).2 := hP.next_le (P.next l.s).2
  have h3 : μ (P.backup (P.1 (P.1 l.s).2).2) ≤ μ (P.1 l.s).2 := hP.backup_next (P.next l.s).2
  by_cases he : ((P.1 l.s).1 == eofR) = true
  · rw [if_pos he]; exact .inl rfl
  · have hne : (P.1 l.s).1 ≠ eofR := by simpa using he
    have hlt := h1 hne
    rw [if_neg he]
    repeat' split
    all_goals try simp only [failWith, emit, hP.ignore_eq]
    all_goals first
      | (left; rfl)
      | (right; refine ⟨by first | exact hlt | exact Nat.lt_of_le_of_lt h2 hlt | exact Nat.lt_of_le_of_lt h3 hlt, ?_⟩
         intro h; first | (rename_i hdig; exact ⟨rfl, hdig⟩) | (rename_i hdig; exact ⟨trivial, hdig⟩) | cases h)

end



def endOrFuel (t : Option TokType) : Prop := t = some .EOF ∨ t = some .FAIL

theorem lexStep_done_end {σ : Type} (P : LexPrims σ) (f : Nat) (st : LState) (l : LexSt σ) (hst : st ≠ .done)
    (hd : (lexStep P f st l).1 = .done) : endOrFuel (headTyp (lexStep P f st l).2) := by
  unfold endOrFuel
  cases st with
  | done => exact absurd rfl hst
  | space => simp [lexStep] at hd
  | comment => simp [lexStep] at hd
  | start =>
    simp only [lexStep] at hd ⊢
    revert hd
    repeat' split
    all_goals simp [failWith, headTyp, emit]
  | ident =>
    simp only [lexStep] at hd ⊢
    revert hd
    repeat' split
    all_goals simp [invalidSyntax, failWith, headTyp, emit]
  | number =>
    simp only [lexStep] at hd ⊢
    revert hd
    repeat' split
    all_goals simp [invalidSyntax, failWith, headTyp, emit]
  | hex =>
    simp only [lexStep] at hd ⊢
    revert hd
    repeat' split
    all_goals simp [invalidSyntax, failWith, headTyp, emit]
  | float =>
    simp only [lexStep] at hd ⊢
    revert hd
    repeat' split
    all_goals simp [invalidSyntax, failWith, headTyp, emit]
  | quote =>
    simp only [lexStep] at hd ⊢
    revert hd
    repeat' split
    all_goals simp [invalidSyntax, failWith, headTyp, emit]



/-- the potential: a bound on the number of state functions still to run -/
def lexPot (st : LState) (m : Nat) : Nat :=
  match st with
  | .done => 0
  | .start => 3 * m + 1
  | .number => 3 * m + 3
  | _ => 3 * m + 2

/-- `lexNumber` is entered right after `next` returned a digit -/
def NumInv {σ : Type} (P : LexPrims σ) (st : LState) (l : LexSt σ) : Prop :=
  st = .number → ∃ s0, l.s = (P.next s0).2 ∧ isDigitR (P.next s0).1 = true

section
variable {σ : Type} {P : LexPrims σ} {μ : σ → Nat} (hP : PrimMeas P μ)
include hP

theorem step_potential (f : Nat) (st : LState) (l : LexSt σ) (hst : st ≠ .done) (hJ : NumInv P st l) :
    (lexStep P (f+1) st l).1 = .done ∨
    (lexPot (lexStep P (f+1) st l).1 (μ (lexStep P (f+1) st l).2.s) < lexPot st (μ l.s)
      ∧ NumInv P (lexStep P (f+1) st l).1 (lexStep P (f+1) st l).2) := by
  cases st with
  | done => exact absurd rfl hst
  | start =>
    rcases step_start hP (f+1) l with h | ⟨hlt, hnum⟩
    · exact .inl h
    · right
      constructor
      · have : ∀ st' m, lexPot st' m ≤ 3 * m + 3 := by intro st' m; cases st' <;> simp [lexPot] <;> omega
        have := this (lexStep P (f+1) .start l).1 (μ (lexStep P (f+1) .start l).2.s)
        show lexPot _ _ < 3 * μ l.s + 1
        omega
      · intro h; exact ⟨l.s, hnum h⟩
  | space =>
    obtain ⟨h1, h2⟩ := step_space hP (f+1) l
    right; rw [h1]; simp only [lexPot]
    exact ⟨by omega, fun h => by cases h⟩
  | comment =>
    obtain ⟨h1, h2⟩ := step_comment hP (f+1) l
    right; rw [h1]; simp only [lexPot]
    exact ⟨by omega, fun h => by cases h⟩
  | ident =>
    obtain ⟨h1, h2⟩ := step_ident hP (f+1) l
    rcases h1 with h1 | h1
    · right; rw [h1]; simp only [lexPot]; exact ⟨by omega, fun h => by cases h⟩
    · exact .inl h1
  | hex =>
    obtain ⟨h1, h2⟩ := step_hex hP (f+1) l
    rcases h1 with h1 | h1
    · right; rw [h1]; simp only [lexPot]; exact ⟨by omega, fun h => by cases h⟩
    · exact .inl h1
  | quote =>
    obtain ⟨h1, h2⟩ := step_quote hP (f+1) l
    rcases h1 with h1 | h1
    · right; rw [h1]; simp only [lexPot]; exact ⟨by omega, fun h => by cases h⟩
    · exact .inl h1
  | float =>
    obtain ⟨h1, h2⟩ := step_float hP (f+1) l
    rcases h1 with h1 | h1
    · right; rw [h1]; simp only [lexPot]; exact ⟨by omega, fun h => by cases h⟩
    · exact .inl h1
  | number =>
    obtain ⟨s0, hl, hd⟩ := hJ rfl
    obtain ⟨h1, h2⟩ := step_number hP f l s0 hl hd
    rcases h1 with h1 | h1 | h1 | h1
    · right; rw [h1]; simp only [lexPot]; exact ⟨by omega, fun h => by cases h⟩
    · exact .inl h1
    · right; rw [h1]; simp only [lexPot]; exact ⟨by omega, fun h => by cases h⟩
    · right; rw [h1]; simp only [lexPot]; exact ⟨by omega, fun h => by cases h⟩

theorem lexRun_ends (f : Nat) : ∀ (n : Nat) (st : LState) (l : LexSt σ), st ≠ .done → NumInv P st l →
    lexPot st (μ l.s) ≤ n → endOrFuel (headTyp (lexRun P (f+1) n st l))
  | 0, st, l, hst, _, hn => by
    exfalso; cases st <;> simp [lexPot] at hn hst
  | n+1, st, l, hst, hJ, hn => by
    unfold lexRun
    have hd := lexStep_done_end P (f+1) st l hst
    have hp := step_potential hP f st l hst hJ
    rcases h1 : lexStep P (f+1) st l with ⟨st1, o1⟩
    rw [h1] at hd hp
    dsimp only at hd hp
    have rec_ : st1 ≠ .done → endOrFuel (headTyp (lexRun P (f+1) n st1 o1)) := by
      intro hne
      rcases hp with hp | ⟨hlt, hJ1⟩
      · exact absurd hp hne
      · exact lexRun_ends f n st1 o1 hne hJ1 (by omega)
    cases st1 with
    | done => exact hd rfl
    | start => exact rec_ (by simp)
    | space => exact rec_ (by simp)
    | comment => exact rec_ (by simp)
    | ident => exact rec_ (by simp)
    | number => exact rec_ (by simp)
    | hex => exact rec_ (by simp)
    | float => exact rec_ (by simp)
    | quote => exact rec_ (by simp)

end
end Bclv
