import Bclv.Model.Bufio
import Bclv.Proofs.DumpLoad
/-!
# `Load` does not depend on how the reader hands the bytes over

`loadR chunks = load chunks.flatten` for every list of non-empty pieces: each call the
Go code makes on the buffered reader (`io.ReadFull`, `Peek`+`Discard` inside
`uvarintFromBuf` and `valueFromBuf`) returns what the corresponding decoder of
`Model/Prog.lean` returns on the concatenation of everything still to be read, and leaves
a reader whose remaining input is the decoder's remaining input (`RSim`).  The
simulation composes along `bind`, so the statement for the whole of `Load` is assembled
from the statements for the primitives.
-/
namespace Bclv.Buf
open Bclv

/-- No read returns zero bytes. -/
def GoodSrc (src : List Bytes) : Prop := ∀ c ∈ src, c ≠ []

theorem GoodSrc.tail {c : Bytes} {rest : List Bytes} (h : GoodSrc (c :: rest)) : GoodSrc rest :=
  fun d hd => h d (List.mem_cons_of_mem _ hd)

theorem GoodSrc.cons {c : Bytes} {rest : List Bytes} (hc : c ≠ []) (h : GoodSrc rest) : GoodSrc (c :: rest) := by
  intro d hd
  rcases List.mem_cons.mp hd with rfl | hd
  · exact hc
  · exact h d hd

theorem drop_ne_nil {c : Bytes} {k : Nat} (h : k < c.length) : c.drop k ≠ [] := by
  intro e
  have := congrArg List.length e
  simp at this
  omega

/-! ## `Peek` -/

theorem peekLoop_spec (n : Nat) (hn : n ≤ rdCap) :
    ∀ (src : List Bytes) (k : Nat) (buf : Bytes), GoodSrc src →
      ∃ b s st, peekLoop n k buf src = (b, s, st) ∧ b ++ s.flatten = buf ++ src.flatten
        ∧ GoodSrc s ∧ st ≠ .noProgress ∧ (b.length < n → s = []) := by
  intro src
  induction src with
  | nil =>
    intro k buf _
    refine ⟨buf, [], _, rfl, rfl, fun _ h => by simp at h, ?_, fun _ => rfl⟩
    split <;> simp
  | cons c rest ih =>
    intro k buf hg
    unfold peekLoop
    by_cases h1 : n ≤ buf.length
    · simp only [h1, if_true]
      exact ⟨buf, c :: rest, .ok, rfl, rfl, hg, by simp, fun h => by omega⟩
    · simp only [h1, if_false]
      have hc : c ≠ [] := hg c (List.mem_cons_self ..)
      simp only [hc, if_false]
      by_cases h2 : c.length ≤ rdCap - buf.length
      · simp only [h2, if_true]
        obtain ⟨b, s, st, e, hcat, hgs, hst, hlen⟩ := ih 0 (buf ++ c) hg.tail
        exact ⟨b, s, st, e, by rw [hcat]; simp, hgs, hst, hlen⟩
      · simp only [h2, if_false]
        refine ⟨_, _, _, rfl, ?_, ?_, by simp, ?_⟩
        · simp only [List.flatten_cons, List.append_assoc]
          rw [← List.append_assoc (c.take _), List.take_append_drop]
        · exact GoodSrc.cons (drop_ne_nil (by omega)) hg.tail
        · intro h
          simp only [List.length_append, List.length_take] at h
          omega

/-- What `Peek(n)` hands out is the first `n` bytes still to be read. -/
theorem peekLoop_take (n : Nat) (hn : n ≤ rdCap) (rd : BufRd) (hg : GoodSrc rd.src) :
    ∃ b s st, peekLoop n 0 rd.buf rd.src = (b, s, st) ∧ b ++ s.flatten = rd.rest ∧ GoodSrc s
      ∧ st ≠ .noProgress ∧ b.take n = rd.rest.take n ∧ (b.length < n → b = rd.rest) := by
  obtain ⟨b, s, st, e, hcat, hgs, hst, hlen⟩ := peekLoop_spec n hn rd.src 0 rd.buf hg
  refine ⟨b, s, st, e, hcat, hgs, hst, ?_, ?_⟩
  · unfold BufRd.rest
    rw [← hcat]
    by_cases h : b.length < n
    · rw [hlen h]; simp
    · rw [List.take_append_of_le_length (by omega)]
  · intro h
    unfold BufRd.rest
    rw [← hcat, hlen h]; simp

/-! ## The varint decoder only looks at nine bytes -/

theorem uvLen_le (b0 : UInt8) : 1 ≤ uvLen b0 ∧ uvLen b0 ≤ 9 := by
  unfold uvLen
  have := b0.toNat_lt
  split
  · omega
  · split
    · omega
    · rename_i h1 h2
      rw [u8_le_iff] at h1 h2
      have : (240 : UInt8).toNat = 240 := rfl
      have : (248 : UInt8).toNat = 248 := rfl
      omega

theorem uvDec_take9 (bs : Bytes) :
    uvDec bs = match uvDec (bs.take 9) with
      | none => none
      | some (x, r) => some (x, bs.drop ((bs.take 9).length - r.length)) := by
  cases bs with
  | nil => rfl
  | cons b0 rest =>
    have hl := uvLen_le b0
    simp only [List.take_succ_cons, uvDec, List.length_take, List.length_cons]
    by_cases h0 : rest.length + 1 < uvLen b0
    · have : min 8 rest.length + 1 < uvLen b0 := by omega
      simp [h0, this]
    · have h0' : ¬ (min 8 rest.length + 1 < uvLen b0) := by omega
      simp only [h0, h0', if_false]
      by_cases h1 : b0 ≤ 240
      · simp only [h1, if_true]
        congr 2
        have : min 8 rest.length + 1 - min 8 rest.length = 1 := by omega
        simp [this]
      · simp only [h1, if_false]
        by_cases h2 : b0 ≤ 248
        · simp only [h2, if_true]
          cases rest with
          | nil =>
            exfalso; apply h0; simp [uvLen, h1, h2]
          | cons a1 r0 =>
            simp only [List.take_succ_cons, List.length_cons, List.length_take]
            congr 2
            have : min 8 (r0.length + 1) + 1 - min 7 r0.length = 2 := by omega
            simp [this]
        · simp only [h2, if_false]
          have hn : uvLen b0 = b0.toNat - 246 := by simp [uvLen, h1, h2]
          have hb : 249 ≤ b0.toNat := by
            rw [u8_le_iff] at h2
            have : (248 : UInt8).toNat = 248 := rfl
            omega
          by_cases h3 : b0 = 249
          · simp only [if_pos h3]
            have hn3 : uvLen b0 = 3 := by rw [hn, h3]; rfl
            match rest, h0 with
            | [], h0 => exfalso; apply h0; rw [hn3]; simp
            | [_], h0 => exfalso; apply h0; rw [hn3]; simp
            | a1 :: a2 :: r0, _ =>
              simp only [List.take_succ_cons, List.length_cons, List.length_take]
              congr 2
              have : min 8 (r0.length + 1 + 1) + 1 - min 6 r0.length = 3 := by omega
              simp [this]
          · simp only [if_neg h3]
            have hk : uvLen b0 - 1 ≤ 8 := by omega
            rw [List.take_take, Nat.min_eq_left hk]
            congr 2
            simp only [List.length_drop, List.length_take]
            have : min 8 rest.length + 1 - (min 8 rest.length - (uvLen b0 - 1)) = (uvLen b0 - 1) + 1 := by omega
            rw [this, List.drop_succ_cons]

/-! ## The simulation -/

structure RSim {α} (r : R α) (p : P α) : Prop where
  ok : ∀ rd a bs, GoodSrc rd.src → p rd.rest = .ok a bs →
        ∃ rd', r rd = .ok a rd' ∧ GoodSrc rd'.src ∧ rd'.rest = bs
  fail : ∀ rd m, GoodSrc rd.src → p rd.rest = .fail m → r rd = .fail m
  panic : ∀ rd, GoodSrc rd.src → p rd.rest = .panic → r rd = .panic

theorem RSim.pure {α} (a : α) : RSim (pure a : R α) (pure a : P α) := by
  refine ⟨?_, ?_, ?_⟩
  · intro rd a' bs hg h
    have h' : (Dec.ok a rd.rest : Dec α) = .ok a' bs := h
    cases h'
    exact ⟨rd, rfl, hg, rfl⟩
  · intro rd m _ h
    have h' : (Dec.ok a rd.rest : Dec α) = .fail m := h
    cases h'
  · intro rd _ h
    have h' : (Dec.ok a rd.rest : Dec α) = .panic := h
    cases h'

theorem RSim.bind {α β} {r : R α} {p : P α} {g : α → R β} {f : α → P β}
    (h1 : RSim r p) (h2 : ∀ a, RSim (g a) (f a)) : RSim (r >>= g) (p >>= f) := by
  refine ⟨?_, ?_, ?_⟩
  · intro rd b bs hg h
    have h' : P.bind p f rd.rest = .ok b bs := h
    unfold P.bind at h'
    show ∃ rd', R.bind r g rd = _ ∧ _
    unfold R.bind
    cases hp : p rd.rest with
    | ok a r1 =>
      rw [hp] at h'
      obtain ⟨rd1, e1, hg1, hr1⟩ := h1.ok rd a r1 hg hp
      rw [e1]
      subst hr1
      exact (h2 a).ok rd1 b bs hg1 h'
    | fail m => rw [hp] at h'; cases h'
    | panic => rw [hp] at h'; cases h'
  · intro rd m hg h
    have h' : P.bind p f rd.rest = .fail m := h
    unfold P.bind at h'
    show R.bind r g rd = _
    unfold R.bind
    cases hp : p rd.rest with
    | ok a r1 =>
      rw [hp] at h'
      obtain ⟨rd1, e1, hg1, hr1⟩ := h1.ok rd a r1 hg hp
      rw [e1]
      subst hr1
      exact (h2 a).fail rd1 m hg1 h'
    | fail m' =>
      rw [hp] at h'; cases h'
      rw [h1.fail rd _ hg hp]
    | panic => rw [hp] at h'; cases h'
  · intro rd hg h
    have h' : P.bind p f rd.rest = .panic := h
    unfold P.bind at h'
    show R.bind r g rd = _
    unfold R.bind
    cases hp : p rd.rest with
    | ok a r1 =>
      rw [hp] at h'
      obtain ⟨rd1, e1, hg1, hr1⟩ := h1.ok rd a r1 hg hp
      rw [e1]
      subst hr1
      exact (h2 a).panic rd1 hg1 h'
    | fail m' => rw [hp] at h'; cases h'
    | panic => rw [h1.panic rd hg hp]

theorem RSim.label {α} {r : R α} {p : P α} (msg : String) (h : RSim r p) : RSim (rlabel msg r) (label msg p) := by
  refine ⟨?_, ?_, ?_⟩
  · intro rd a bs hg e
    unfold Bclv.label at e
    cases hp : p rd.rest with
    | ok a' r1 =>
      rw [hp] at e
      cases e
      obtain ⟨rd1, e1, hg1, hr1⟩ := h.ok rd a bs hg hp
      exact ⟨rd1, by unfold rlabel; rw [e1], hg1, hr1⟩
    | fail m => rw [hp] at e; cases e
    | panic => rw [hp] at e; cases e
  · intro rd m hg e
    unfold Bclv.label at e
    cases hp : p rd.rest with
    | ok a' r1 => rw [hp] at e; cases e
    | fail m' =>
      rw [hp] at e; cases e
      unfold rlabel; rw [h.fail rd m' hg hp]
    | panic => rw [hp] at e; cases e
  · intro rd hg e
    unfold Bclv.label at e
    cases hp : p rd.rest with
    | ok a' r1 => rw [hp] at e; cases e
    | fail m' => rw [hp] at e; cases e
    | panic => unfold rlabel; rw [h.panic rd hg hp]

/-! ## The primitives -/

theorem sim_uv : RSim rUv pUv := by
  have key : ∀ rd, GoodSrc rd.src →
      match uvDec rd.rest with
      | some (x, r) => ∃ rd', rUv rd = .ok x rd' ∧ GoodSrc rd'.src ∧ rd'.rest = r
      | none => rUv rd = .fail "unexpected EOF" := by
    intro rd hg
    obtain ⟨b, s, st, e, hcat, hgs, hst, htake, _⟩ := peekLoop_take 9 (by decide) rd hg
    unfold rUv
    rw [e]
    simp only [hst, if_false]
    rw [htake, uvDec_take9 rd.rest]
    cases hd : uvDec (rd.rest.take 9) with
    | none => simp
    | some xr =>
      obtain ⟨x, r⟩ := xr
      simp only
      refine ⟨_, rfl, hgs, ?_⟩
      show b.drop _ ++ s.flatten = _
      have hle : (rd.rest.take 9).length - r.length ≤ b.length := by
        have : (rd.rest.take 9).length ≤ b.length := by rw [← htake, List.length_take]; omega
        omega
      generalize (rd.rest.take 9).length - r.length = cnt at hle ⊢
      rw [← hcat, List.drop_append_of_le_length hle]
  refine ⟨?_, ?_, ?_⟩
  · intro rd a bs hg h
    have k := key rd hg
    unfold pUv at h
    cases hd : uvDec rd.rest with
    | none => rw [hd] at h; cases h
    | some xr =>
      obtain ⟨x, r⟩ := xr
      rw [hd] at h k
      cases h
      exact k
  · intro rd m hg h
    have k := key rd hg
    unfold pUv at h
    cases hd : uvDec rd.rest with
    | none => rw [hd] at h k; cases h; exact k
    | some xr => obtain ⟨x, r⟩ := xr; rw [hd] at h; cases h
  · intro rd hg h
    unfold pUv at h
    cases hd : uvDec rd.rest with
    | none => rw [hd] at h; cases h
    | some xr => obtain ⟨x, r⟩ := xr; rw [hd] at h; cases h

theorem sim_peekTake (n : Nat) (hn : n ≤ rdCap) : RSim (rPeekTake n) (pTake n) := by
  have key : ∀ rd, GoodSrc rd.src →
      if rd.rest.length < n then rPeekTake n rd = .fail "unexpected EOF"
      else ∃ rd', rPeekTake n rd = .ok (rd.rest.take n) rd' ∧ GoodSrc rd'.src ∧ rd'.rest = rd.rest.drop n := by
    intro rd hg
    obtain ⟨b, s, st, e, hcat, hgs, _, htake, hshort⟩ := peekLoop_take n hn rd hg
    unfold rPeekTake
    rw [e]
    simp only
    have hle : b.length ≤ rd.rest.length := by rw [← hcat]; simp
    by_cases h : b.length < n
    · have := hshort h
      rw [this] at h
      simp [h, this]
    · have h' : ¬ rd.rest.length < n := by omega
      simp only [h, h', if_false]
      refine ⟨_, by rw [htake], hgs, ?_⟩
      show b.drop n ++ s.flatten = _
      rw [← hcat, List.drop_append_of_le_length (by omega)]
  refine ⟨?_, ?_, ?_⟩
  · intro rd a bs hg h
    have k := key rd hg
    unfold pTake at h
    by_cases hl : rd.rest.length < n
    · simp [hl] at h
    · simp only [hl, if_false] at h k
      cases h; exact k
  · intro rd m hg h
    have k := key rd hg
    unfold pTake at h
    by_cases hl : rd.rest.length < n
    · simp only [hl, if_true] at h k
      cases h; exact k
    · simp [hl] at h
  · intro rd hg h
    unfold pTake at h
    split at h <;> cases h

theorem rfSrc_spec : ∀ (src : List Bytes) (need : Nat) (acc : Bytes), GoodSrc src → 0 < need →
    (src.flatten.length < need → rfSrc need acc src = .fail "unexpected EOF") ∧
    (need ≤ src.flatten.length → ∃ rd', rfSrc need acc src = .ok (acc ++ src.flatten.take need) rd'
        ∧ GoodSrc rd'.src ∧ rd'.rest = src.flatten.drop need) := by
  intro src
  induction src with
  | nil =>
    intro need acc _ hpos
    refine ⟨fun _ => rfl, fun h => ?_⟩
    simp at h; omega
  | cons c rest ih =>
    intro need acc hg hpos
    have hrec : ∀ (b : Bytes), b = c → b.length < need →
        (((c :: rest).flatten.length < need → rfSrc (need - b.length) (acc ++ b) rest = .fail "unexpected EOF") ∧
        (need ≤ (c :: rest).flatten.length → ∃ rd', rfSrc (need - b.length) (acc ++ b) rest = .ok (acc ++ (c :: rest).flatten.take need) rd'
          ∧ GoodSrc rd'.src ∧ rd'.rest = (c :: rest).flatten.drop need)) := by
      intro b hb hlt
      subst hb
      obtain ⟨i1, i2⟩ := ih (need - b.length) (acc ++ b) hg.tail (by omega)
      refine ⟨fun h => i1 ?_, fun h => ?_⟩
      · simp only [List.flatten_cons, List.length_append] at h; omega
      · simp only [List.flatten_cons, List.length_append] at h
        obtain ⟨rd', e, hg', hr⟩ := i2 (by omega)
        refine ⟨rd', ?_, hg', ?_⟩
        · rw [e]
          simp only [List.flatten_cons, List.take_append, List.append_assoc]
          rw [List.take_of_length_le (l := b) (by omega)]
        · rw [hr]
          simp only [List.flatten_cons, List.drop_append]
          rw [List.drop_of_length_le (l := b) (by omega)]; simp
    unfold rfSrc
    by_cases hbig : rdCap ≤ need
    · simp only [hbig, if_true]
      by_cases hlt : c.length < need
      · simp only [hlt, if_true]
        exact hrec c rfl hlt
      · simp only [hlt, if_false]
        refine ⟨fun h => ?_, fun _ => ?_⟩
        · simp only [List.flatten_cons, List.length_append] at h; omega
        have e1 : (c :: rest).flatten.take need = c.take need := by
          simp only [List.flatten_cons]
          rw [List.take_append_of_le_length (by omega)]
        rw [e1]
        refine ⟨_, rfl, ?_, ?_⟩
        · show GoodSrc (if c.length = need then rest else c.drop need :: rest)
          split
          · exact hg.tail
          · exact GoodSrc.cons (drop_ne_nil (by omega)) hg.tail
        · show [] ++ (if c.length = need then rest else c.drop need :: rest).flatten = _
          simp only [List.flatten_cons, List.nil_append]
          rw [List.drop_append_of_le_length (by omega)]
          split
          · rename_i he
            rw [List.drop_of_length_le (by omega)]; simp
          · simp
    · simp only [hbig, if_false]
      by_cases hlt : (c.take rdCap).length < need
      · simp only [hlt, if_true]
        have hc : c.take rdCap = c := by
          apply List.take_of_length_le
          simp only [List.length_take] at hlt
          omega
        rw [hc] at hlt ⊢
        exact hrec c rfl hlt
      · simp only [hlt, if_false]
        simp only [List.length_take] at hlt
        have hcn : need ≤ c.length := by omega
        refine ⟨fun h => ?_, fun _ => ?_⟩
        · simp only [List.flatten_cons, List.length_append] at h; omega
        have e1 : (c :: rest).flatten.take need = (c.take rdCap).take need := by
          simp only [List.flatten_cons]
          rw [List.take_append_of_le_length hcn, List.take_take, Nat.min_eq_left (by omega)]
        rw [e1]
        refine ⟨_, rfl, ?_, ?_⟩
        · show GoodSrc (if c.length ≤ rdCap then rest else c.drop rdCap :: rest)
          split
          · exact hg.tail
          · exact GoodSrc.cons (drop_ne_nil (by omega)) hg.tail
        · show (c.take rdCap).drop need ++ (if c.length ≤ rdCap then rest else c.drop rdCap :: rest).flatten = _
          simp only [List.flatten_cons]
          rw [List.drop_append_of_le_length hcn]
          split
          · rename_i hle
            rw [List.take_of_length_le hle]
          · simp only [List.flatten_cons, ← List.append_assoc]
            congr 1
            rw [List.drop_take]
            have : c.drop rdCap = (c.drop need).drop (rdCap - need) := by
              rw [List.drop_drop]; congr 1; omega
            rw [this, List.take_append_drop]

theorem sim_readFull (m : Nat) : RSim (rReadFull m) (pTake m) := by
  have key : ∀ rd, GoodSrc rd.src →
      if rd.rest.length < m then rReadFull m rd = .fail "unexpected EOF"
      else ∃ rd', rReadFull m rd = .ok (rd.rest.take m) rd' ∧ GoodSrc rd'.src ∧ rd'.rest = rd.rest.drop m := by
    intro rd hg
    have hlen : rd.rest.length = rd.buf.length + rd.src.flatten.length := by
      unfold BufRd.rest; rw [List.length_append]
    unfold rReadFull
    by_cases h : m ≤ rd.buf.length
    · have h' : ¬ rd.rest.length < m := by omega
      simp only [h, h', if_true, if_false]
      have e1 : rd.rest.take m = rd.buf.take m := by
        unfold BufRd.rest; rw [List.take_append_of_le_length h]
      rw [e1]
      refine ⟨⟨rd.buf.drop m, rd.src⟩, rfl, hg, ?_⟩
      show rd.buf.drop m ++ rd.src.flatten = _
      unfold BufRd.rest; rw [List.drop_append_of_le_length h]
    · simp only [h, if_false]
      obtain ⟨i1, i2⟩ := rfSrc_spec rd.src (m - rd.buf.length) rd.buf hg (by omega)
      by_cases hl : rd.rest.length < m
      · simp only [hl, if_true]
        apply i1
        omega
      · simp only [hl, if_false]
        obtain ⟨rd', e, hg', hr⟩ := i2 (by omega)
        refine ⟨rd', ?_, hg', ?_⟩
        · rw [e]; unfold BufRd.rest
          rw [List.take_append, List.take_of_length_le (l := rd.buf) (by omega)]
        · rw [hr]; unfold BufRd.rest
          rw [List.drop_append, List.drop_of_length_le (l := rd.buf) (by omega)]; simp
  refine ⟨?_, ?_, ?_⟩
  · intro rd a bs hg h
    have k := key rd hg
    unfold pTake at h
    by_cases hl : rd.rest.length < m
    · simp [hl] at h
    · simp only [hl, if_false] at h k
      cases h; exact k
  · intro rd msg hg h
    have k := key rd hg
    unfold pTake at h
    by_cases hl : rd.rest.length < m
    · simp only [hl, if_true] at h k
      cases h; exact k
    · simp [hl] at h
  · intro rd hg h
    unfold pTake at h
    split at h <;> cases h

/-! ## Values, counted sections, header, the whole program -/

theorem sim_value : RSim rValue pValue := by
  -- what the first `io.ReadFull` of one byte does
  have first : ∀ rd, GoodSrc rd.src →
      (rd.rest = [] → rReadFull 1 rd = .fail "unexpected EOF") ∧
      (∀ c t, rd.rest = c :: t → ∃ rd', rReadFull 1 rd = .ok [c] rd' ∧ GoodSrc rd'.src ∧ rd'.rest = t) := by
    intro rd hg
    refine ⟨fun h => ?_, fun c t h => ?_⟩
    · apply (sim_readFull 1).fail rd _ hg
      unfold pTake; rw [h]; rfl
    · have := (sim_readFull 1).ok rd [c] t hg (by unfold pTake; rw [h]; rfl)
      exact this
  have b1 := RSim.bind sim_uv (fun x => RSim.pure (Value.int (UInt64.ofNat x).toInt64))
  have b2 := RSim.bind (sim_peekTake 8 (by decide)) (fun b => RSim.pure (Value.float (UInt64.ofNat (beVal b))))
  have b3 := RSim.bind sim_uv (fun k => RSim.bind (sim_readFull k) (fun s => RSim.pure (Value.str s)))
  have b4 := RSim.bind (sim_readFull 1) (fun b => RSim.pure (Value.bool (b != [0])))
  refine ⟨?_, ?_, ?_⟩
  · intro rd a bs hg h
    obtain ⟨f1, f2⟩ := first rd hg
    cases hr : rd.rest with
    | nil => rw [hr] at h; cases h
    | cons c t =>
      rw [hr] at h
      obtain ⟨rd', e, hg', ht⟩ := f2 c t hr
      unfold rValue
      rw [e]
      simp only
      simp only [pValue] at h
      subst ht
      split at h
      · cases h; rename_i hc; simp only [hc, if_true]; exact ⟨rd', rfl, hg', rfl⟩
      · rename_i hc0
        simp only [hc0, if_false]
        split at h
        · rename_i hc; simp only [hc, if_true]; exact b1.ok rd' a bs hg' h
        · rename_i hc1
          simp only [hc1, if_false]
          split at h
          · rename_i hc; simp only [hc, if_true]; exact b2.ok rd' a bs hg' h
          · rename_i hc2
            simp only [hc2, if_false]
            split at h
            · rename_i hc; simp only [hc, if_true]; exact b3.ok rd' a bs hg' h
            · rename_i hc3
              simp only [hc3, if_false]
              split at h
              · rename_i hc; simp only [hc, if_true]; exact b4.ok rd' a bs hg' h
              · cases h
  · intro rd m hg h
    obtain ⟨f1, f2⟩ := first rd hg
    cases hr : rd.rest with
    | nil =>
      rw [hr] at h
      unfold rValue; rw [f1 hr]
      simp only [pValue] at h
      cases h; rfl
    | cons c t =>
      rw [hr] at h
      obtain ⟨rd', e, hg', ht⟩ := f2 c t hr
      unfold rValue
      rw [e]
      simp only
      simp only [pValue] at h
      subst ht
      split at h
      · cases h
      · rename_i hc0
        simp only [hc0, if_false]
        split at h
        · rename_i hc; simp only [hc, if_true]; exact b1.fail rd' m hg' h
        · rename_i hc1
          simp only [hc1, if_false]
          split at h
          · rename_i hc; simp only [hc, if_true]; exact b2.fail rd' m hg' h
          · rename_i hc2
            simp only [hc2, if_false]
            split at h
            · rename_i hc; simp only [hc, if_true]; exact b3.fail rd' m hg' h
            · rename_i hc3
              simp only [hc3, if_false]
              split at h
              · rename_i hc; simp only [hc, if_true]; exact b4.fail rd' m hg' h
              · cases h
  · intro rd hg h
    obtain ⟨f1, f2⟩ := first rd hg
    cases hr : rd.rest with
    | nil => rw [hr] at h; simp only [pValue] at h; cases h
    | cons c t =>
      rw [hr] at h
      obtain ⟨rd', e, hg', ht⟩ := f2 c t hr
      unfold rValue
      rw [e]
      simp only
      simp only [pValue] at h
      subst ht
      split at h
      · cases h
      · rename_i hc0
        simp only [hc0, if_false]
        split at h
        · rename_i hc; simp only [hc, if_true]; exact b1.panic rd' hg' h
        · rename_i hc1
          simp only [hc1, if_false]
          split at h
          · rename_i hc; simp only [hc, if_true]; exact b2.panic rd' hg' h
          · rename_i hc2
            simp only [hc2, if_false]
            split at h
            · rename_i hc; simp only [hc, if_true]; exact b3.panic rd' hg' h
            · rename_i hc3
              simp only [hc3, if_false]
              split at h
              · rename_i hc; simp only [hc, if_true]; exact b4.panic rd' hg' h
              · rename_i hc4; simp only [hc4, if_false]

theorem sim_many {α} (what : String) {r : R α} {p : P α} (h : RSim r p) :
    ∀ n i, RSim (rMany what r n i) (pMany what p n i) := by
  intro n
  induction n with
  | zero => intro i; exact RSim.pure []
  | succ n ih =>
    intro i
    exact RSim.bind (RSim.label _ h) (fun a => RSim.bind (ih (i+1)) (fun as => RSim.pure (a :: as)))

theorem sim_header : RSim rHeader pHeader := by
  have key : ∀ rd, GoodSrc rd.src →
      (∀ bs, pHeader rd.rest = .ok () bs → ∃ rd', rHeader rd = .ok () rd' ∧ GoodSrc rd'.src ∧ rd'.rest = bs) ∧
      (∀ m, pHeader rd.rest = .fail m → rHeader rd = .fail m) ∧
      (pHeader rd.rest ≠ .panic) := by
    intro rd hg
    have s2 := sim_readFull 2
    unfold pHeader rHeader
    by_cases h1 : rd.rest.length < 2
    · simp only [h1, if_true]
      have := s2.fail rd "unexpected EOF" hg (by unfold pTake; simp [h1])
      rw [this]
      exact ⟨fun _ h => (by cases h), ⟨fun m h => (by cases h; rfl), (by intro h; cases h)⟩⟩
    · simp only [h1, if_false]
      obtain ⟨rd1, e1, hg1, hr1⟩ := s2.ok rd (rd.rest.take 2) (rd.rest.drop 2) hg (by unfold pTake; simp [h1])
      rw [e1]
      simp only
      by_cases h2 : rd.rest.take 2 ≠ magic
      · simp only [if_pos h2]
        exact ⟨fun _ h => (by cases h), ⟨fun m h => (by cases h; rfl), (by intro h; cases h)⟩⟩
      · simp only [if_neg h2]
        rw [← hr1]
        match hr : rd1.rest with
        | [] =>
          have := s2.fail rd1 "unexpected EOF" hg1 (by unfold pTake; simp [hr])
          rw [this]
          exact ⟨fun _ h => (by cases h), ⟨fun m h => (by cases h; rfl), (by intro h; cases h)⟩⟩
        | [_] =>
          have := s2.fail rd1 "unexpected EOF" hg1 (by unfold pTake; simp [hr])
          rw [this]
          exact ⟨fun _ h => (by cases h), ⟨fun m h => (by cases h; rfl), (by intro h; cases h)⟩⟩
        | ma :: mi :: r =>
          obtain ⟨rd2, e2, hg2, hr2⟩ := s2.ok rd1 [ma, mi] r hg1 (by unfold pTake; simp [hr])
          rw [e2]
          simp only
          by_cases h3 : ma ≠ verMajor
          · simp only [if_pos h3]
            exact ⟨fun _ h => (by cases h), ⟨fun m h => (by cases h; rfl), (by intro h; cases h)⟩⟩
          · simp only [if_neg h3]
            by_cases h4 : mi > verMinor
            · simp only [if_pos h4]
              exact ⟨fun _ h => (by cases h), ⟨fun m h => (by cases h; rfl), (by intro h; cases h)⟩⟩
            · simp only [if_neg h4]
              exact ⟨fun bs h => (by cases h; exact ⟨rd2, rfl, hg2, hr2⟩), ⟨fun m h => (by cases h), (by intro h; cases h)⟩⟩
  refine ⟨?_, ?_, ?_⟩
  · intro rd a bs hg h; exact (key rd hg).1 bs h
  · intro rd m hg h; exact (key rd hg).2.1 m h
  · intro rd hg h; exact absurd h (key rd hg).2.2

theorem sim_prog : RSim rProg pProg := by
  unfold rProg pProg
  refine RSim.bind sim_header (fun _ => ?_)
  refine RSim.bind (RSim.label _ sim_uv) (fun n => ?_)
  refine RSim.bind (RSim.label _ (sim_readFull n)) (fun name => ?_)
  refine RSim.bind (RSim.label _ sim_uv) (fun n => ?_)
  refine RSim.bind (RSim.label _ (sim_readFull n)) (fun code => ?_)
  refine RSim.bind (RSim.label _ sim_uv) (fun n => ?_)
  refine RSim.bind (sim_many _ sim_value n 0) (fun consts => ?_)
  refine RSim.bind (RSim.label _ sim_uv) (fun n => ?_)
  refine RSim.bind (sim_many _ sim_uv n 0) (fun positions => ?_)
  refine RSim.bind (RSim.label _ sim_uv) (fun n => ?_)
  refine RSim.bind (sim_many _ sim_uv n 0) (fun lfs => ?_)
  exact RSim.pure _

/-- **`Load` is independent of how the reader hands the bytes over**: reading through the
4096-byte buffered reader from a source that delivers `chunks`, one non-empty piece per read
(pieces of any size, cut anywhere), gives what `load` gives on the concatenation. -/
theorem loadR_eq_load (chunks : List Bytes) (hg : GoodSrc chunks) : loadR chunks = load chunks.flatten := by
  unfold loadR load
  have hrest : (⟨[], chunks⟩ : BufRd).rest = chunks.flatten := rfl
  cases hp : pProg chunks.flatten with
  | ok p bs =>
    obtain ⟨rd', e, _, _⟩ := sim_prog.ok ⟨[], chunks⟩ p bs hg (by rw [hrest]; exact hp)
    rw [e]
  | fail m =>
    rw [sim_prog.fail ⟨[], chunks⟩ m hg (by rw [hrest]; exact hp)]
  | panic =>
    rw [sim_prog.panic ⟨[], chunks⟩ hg (by rw [hrest]; exact hp)]

end Bclv.Buf
