import Bclv.Proofs.Grammar2
import Bclv.Proofs.ParserFuel3
namespace Bclv

def typs (sk : List Token) : List TokType := sk.map (·.typ)
@[simp] theorem typs_append (a b : List Token) : typs (a ++ b) = typs a ++ typs b := by simp [typs]
@[simp] theorem typs_cons (t : Token) (a : List Token) : typs (t :: a) = t.typ :: typs a := rfl
@[simp] theorem typs_nil : typs [] = [] := rfl

def kindOf (prec : Nat) : GK := if prec ≤ precAssign then .expr else .cond

/-! ## what the rule table says about token kinds -/

theorem infix_of_prec (t : TokType) (h : 1 ≤ (getRule t).prec) : isInfix t := by
  unfold isInfix; cases t <;> simp [getRule] at h ⊢
theorem pre_cases (t : TokType) (r : Prefix) (h : (getRule t).pre = some r) :
    (r = .parens ∧ t = .LPAREN) ∨ (r = .unary ∧ (t = .MINUS ∨ t = .PLUS)) ∨ (r = .boolNot ∧ t = .NOT) ∨
    (r = .identRef ∧ t = .IDENT) ∨ (r = .stringLit ∧ t = .STR) ∨ (r = .intLit ∧ t = .INT) ∨ (r = .floatLit ∧ t = .FLOAT) ∨
    (r = .boolLit ∧ (t = .TRUE ∨ t = .FALSE)) ∨ (r = .nilLit ∧ t = .NIL) := by
  cases t <;> simp [getRule] at h <;> subst h <;> simp

/-! ## helpers that do not move the token cursor -/

structure TF {α : Type} (m : PM α) : Prop where
  h : ∀ p, (m p).2.cur = p.cur ∧ (m p).2.rest = p.rest ∧ (m p).2.prev = p.prev

theorem TF.pure {α} (a : α) : TF (pure a : PM α) := ⟨fun _ => ⟨rfl, rfl, rfl⟩⟩
theorem TF.bind {α β} {m : PM α} {f : α → PM β} (hm : TF m) (hf : ∀ a, TF (f a)) : TF (m >>= f) :=
  ⟨fun p => by
    have h1 := hm.h p
    have h2 := (hf (m p).1).h (m p).2
    exact ⟨h2.1.trans h1.1, h2.2.1.trans h1.2.1, h2.2.2.trans h1.2.2⟩⟩
theorem TF.get : TF (get : PM PState) := ⟨fun _ => ⟨rfl, rfl, rfl⟩⟩
theorem TF.ite {α} {c : Prop} [Decidable c] {x y : PM α} (hx : TF x) (hy : TF y) : TF (if c then x else y) := by
  split <;> assumption
theorem TF.modify_frame {g : PState → PState} (h1 : ∀ p, (g p).cur = p.cur) (h2 : ∀ p, (g p).rest = p.rest)
    (h3 : ∀ p, (g p).prev = p.prev) : TF (_root_.modify g : PM Unit) := ⟨fun p => ⟨h1 p, h2 p, h3 p⟩⟩
theorem TF.forIn {α β : Type} (l : List α) (f : α → β → PM (ForInStep β)) (hf : ∀ a b, TF (f a b)) :
    ∀ (init : β), TF (forIn l init f) := by
  induction l with
  | nil => intro init; simp only [List.forIn_nil]; exact TF.pure _
  | cons x xs ih =>
    intro init
    simp only [List.forIn_cons]
    apply TF.bind (hf x init)
    intro r
    cases r with
    | done b => exact TF.pure _
    | yield b => exact ih b

syntax "tf_known" : tactic
macro_rules | `(tactic| tf_known) => `(tactic| with_reducible exact TF.pure _)
macro_rules | `(tactic| tf_known) => `(tactic| with_reducible exact TF.get)
macro "tf" : tactic => `(tactic| repeat' (first
  | assumption
  | tf_known
  | with_reducible apply TF.bind
  | with_reducible apply TF.ite
  | with_reducible apply TF.forIn
  | ((with_reducible apply TF.modify_frame) <;> intro _ <;> rfl)
  | intro _
  | split
  | dsimp only))

theorem errorAt_tf (t : Token) (msg : Bytes) : TF (errorAt t msg) := ⟨fun _ => ⟨rfl, rfl, rfl⟩⟩
macro_rules | `(tactic| tf_known) => `(tactic| with_reducible exact errorAt_tf _ _)
theorem errorAtCurrent_tf (msg : Bytes) : TF (errorAtCurrent msg) := by unfold errorAtCurrent; tf
macro_rules | `(tactic| tf_known) => `(tactic| with_reducible exact errorAtCurrent_tf _)
theorem error_tf (msg : Bytes) : TF (error msg) := by unfold error; tf
macro_rules | `(tactic| tf_known) => `(tactic| with_reducible exact error_tf _)
theorem addConst_tf (v : Value) : TF (addConst v) := ⟨fun _ => ⟨rfl, rfl, rfl⟩⟩
macro_rules | `(tactic| tf_known) => `(tactic| with_reducible exact addConst_tf _)
theorem makeConst_tf (v : Value) : TF (makeConst v) := by unfold makeConst; tf
macro_rules | `(tactic| tf_known) => `(tactic| with_reducible exact makeConst_tf _)
theorem identConst_tf (n : Bytes) : TF (identConst n) := by unfold identConst; tf
macro_rules | `(tactic| tf_known) => `(tactic| with_reducible exact identConst_tf _)
theorem beginScope_tf : TF beginScope := by unfold beginScope; tf
theorem endScope_tf : TF endScope := ⟨fun _ => ⟨rfl, rfl, rfl⟩⟩
theorem addLocal_tf (n : Bytes) : TF (addLocal n) := by unfold addLocal; tf
macro_rules | `(tactic| tf_known) => `(tactic| with_reducible exact addLocal_tf _)
theorem declVar_tf : TF declVar := by unfold declVar; tf
theorem markInitialized_tf : TF markInitialized := by
  refine ⟨fun p => ?_⟩
  unfold markInitialized
  simp only [modify, modifyGet, MonadStateOf.modifyGet, StateT.modifyGet, pure]
  cases p.locals <;> exact ⟨rfl, rfl, rfl⟩
theorem bindTarget_tf (m : Bytes) : TF (bindTarget m) := by unfold bindTarget; tf

/-- a helper that keeps the cursor: nothing consumed -/
theorem wp_tf {α} {m : PM α} (hg : GR m) (ht : TF m) {p : PState} {Q : α → PState → Prop} (hi : GInv p)
    (k : ∀ a p', GM p p' → p'.cur = p.cur → p'.rest = p.rest → p'.prev = p.prev → Q a p') : wp m Q p :=
  k _ _ (hg.h p hi) (ht.h p).1 (ht.h p).2.1 (ht.h p).2.2

def PPpost (prec : Nat) (p : PState) : Expr → PState → Prop := fun _ p' =>
  GM p p' ∧ (NE p' → ∃ sk, Skips sk p p' ∧ G (kindOf prec) (typs sk) ∧ (getRule p'.cur.typ).prec < prec)

def ILpost (prec : Nat) (L : List TokType) (p : PState) : Expr → PState → Prop := fun _ p' =>
  GM p p' ∧ (NE p' → ∃ sk, Skips sk p p' ∧ (G .cond L → G .cond (L ++ typs sk)) ∧ G .expr (L ++ typs sk) ∧
    (getRule p'.cur.typ).prec < prec)

def PRpost (ca : Bool) (p : PState) : Expr → PState → Prop := fun _ p' =>
  GM p p' ∧ (NE p' → ∃ sk, Skips sk p p' ∧
    (G .cond (p.prev.typ :: typs sk) ∨ (ca = true ∧ G .expr (p.prev.typ :: typs sk) ∧ (getRule p'.cur.typ).prec = 0)))

theorem ne_false_of_err {p : PState} (h : p.hadError = true) : ¬ NE p := fun hne => by rw [hne.1] at h; cases h
theorem error_wp (msg : Bytes) (p : PState) (hi : GInv p) :
    wp (error msg) (fun _ p' => GM p p' ∧ p'.hadError = true) p := ⟨(error_gr msg).h p hi, rfl⟩
theorem errorAtCurrent_wp (msg : Bytes) (p : PState) (hi : GInv p) :
    wp (errorAtCurrent msg) (fun _ p' => GM p p' ∧ p'.hadError = true) p := ⟨(errorAtCurrent_gr msg).h p hi, rfl⟩

theorem parsePrecedence_g_step (f : Nat)
    (ihIL : ∀ prec left L p, 1 ≤ prec → GInv p → (NE p → G .cond L ∨ (G .expr L ∧ (getRule p.cur.typ).prec = 0)) →
      wp (infixLoop prec left f) (ILpost prec L p) p)
    (ihPR : ∀ rule ca p, GInv p → (getRule p.prev.typ).pre = some rule → wp (prefixRule rule ca f) (PRpost ca p) p)
    (prec : Nat) (p : PState) (hprec : 1 ≤ prec) (hi : GInv p) :
    wp (parsePrecedence prec (f+1)) (PPpost prec p) p := by
  unfold parsePrecedence
  rw [wp_bind]
  apply wp_mono (advance_cons p hi)
  intro _ p1 hq1
  obtain ⟨hg1, hprev, hsk1⟩ := hq1
  rw [wp_bind, wp_get]
  split
  · -- no prefix rule: an error
    rw [wp_bind]
    apply wp_mono (error_wp _ p1 hg1.inv)
    intro _ p2 hq2
    rw [wp_pure]
    exact ⟨hg1.trans hq2.1, fun hne => absurd hne (ne_false_of_err hq2.2)⟩
  · rename_i rule hrule
    have hne0 : p.cur.typ.isEnd = false := by
      cases he : p.cur.typ.isEnd with
      | false => rfl
      | true =>
        have := (rule_of_end _ he).1
        rw [hprev] at hrule
        rw [this] at hrule; cases hrule
    rw [wp_bind]
    apply wp_mono (ihPR rule (decide (prec ≤ precAssign)) p1 hg1.inv hrule)
    intro e p2 hq2
    obtain ⟨hg2, hpr⟩ := hq2
    -- the closing test for a stray `=`
    have fin : ∀ (e' : Expr) (p3 : PState), GM p p3 →
        (NE p3 → ∃ sk, Skips sk p p3 ∧ G (kindOf prec) (typs sk) ∧ (getRule p3.cur.typ).prec < prec) →
        wp (do
          if prec ≤ precAssign then
            if (← «match» .EQ) = true then error (str "invalid assignment target")
          return e') (PPpost prec p) p3 := by
      intro e' p3 hg3 h3
      split
      · rw [wp_bind]
        apply wp_mono (match_cons .EQ (by decide) p3 hg3.inv)
        intro b p4 hq4
        obtain ⟨hg4, hf4, _⟩ := hq4
        split
        · rw [wp_bind]
          apply wp_mono (error_wp _ p4 hg4.inv)
          intro _ p5 hq5
          rw [wp_pure]
          exact ⟨(hg3.trans hg4).trans hq5.1, fun hne => absurd hne (ne_false_of_err hq5.2)⟩
        · rename_i hb
          obtain ⟨rfl, _⟩ := hf4 (by simpa using hb)
          rw [wp_pure]
          exact ⟨hg3, h3⟩
      · rw [wp_pure]
        exact ⟨hg3, h3⟩
    by_cases hne2 : NE p2
    · obtain ⟨sk2, hs2, halt⟩ := hpr hne2
      have hne1 : NE p1 := hg2.ne hne2
      have hs1 := hsk1 hne1.1 hne0
      rw [wp_bind]
      apply wp_mono (ihIL prec e (p1.prev.typ :: typs sk2) p2 hprec hg2.inv (fun _ => by
        rcases halt with h | ⟨_, h, hstop⟩
        · exact .inl h
        · exact .inr ⟨h, hstop⟩))
      intro e' p3 hq3
      obtain ⟨hg3, hil⟩ := hq3
      apply fin e' p3 ((hg1.trans hg2).trans hg3)
      intro hne3
      obtain ⟨sk3, hs3, hc3, he3, hstop3⟩ := hil hne3
      refine ⟨[p.cur] ++ sk2 ++ sk3, (hs1.trans hs2).trans hs3, ?_, hstop3⟩
      have htoks : typs ([p.cur] ++ sk2 ++ sk3) = (p1.prev.typ :: typs sk2) ++ typs sk3 := by
        rw [hprev]; simp
      rw [htoks]
      unfold kindOf
      split
      · exact he3
      · rename_i hp
        rcases halt with h | ⟨hca, _, _⟩
        · exact hc3 h
        · exact absurd (by simpa using hca) hp
    · rw [wp_bind]
      apply wp_mono (ihIL prec e [] p2 hprec hg2.inv (fun h => absurd h hne2))
      intro e' p3 hq3
      apply fin e' p3 ((hg1.trans hg2).trans hq3.1)
      intro hne3
      exact absurd (hq3.1.ne hne3) hne2

theorem kindOf_cond (prec : Nat) (h : 2 ≤ prec) : kindOf prec = .cond := by
  unfold kindOf precAssign; rw [if_neg (by omega)]

theorem infixLoop_g_step (f : Nat)
    (ihPP : ∀ prec p, 1 ≤ prec → GInv p → wp (parsePrecedence prec f) (PPpost prec p) p)
    (ihIL : ∀ prec left L p, 1 ≤ prec → GInv p → (NE p → G .cond L ∨ (G .expr L ∧ (getRule p.cur.typ).prec = 0)) →
      wp (infixLoop prec left f) (ILpost prec L p) p)
    (prec : Nat) (left : Expr) (L : List TokType) (p : PState) (hprec : 1 ≤ prec) (hi : GInv p)
    (hL : NE p → G .cond L ∨ (G .expr L ∧ (getRule p.cur.typ).prec = 0)) :
    wp (infixLoop prec left (f+1)) (ILpost prec L p) p := by
  unfold infixLoop
  rw [wp_bind, wp_get]
  split
  · rename_i hcond
    have hinf : isInfix p.cur.typ := infix_of_prec _ (by omega)
    have hne0 : p.cur.typ.isEnd = false := by
      cases he : p.cur.typ.isEnd with
      | false => rfl
      | true => have := (rule_of_end _ he).2; rw [this] at hcond; omega
    -- here the left part is a condition: an assignment is followed by a token without precedence
    have hLc : NE p → G .cond L := by
      intro hne
      rcases hL hne with h | ⟨_, h0⟩
      · exact h
      · omega
    rw [wp_bind]
    apply wp_mono (advance_cons p hi)
    intro _ p1 hq1
    obtain ⟨hg1, hprev, hsk1⟩ := hq1
    rw [wp_bind, wp_get]
    -- once the right operand is parsed, go round again
    have again : ∀ (e : Expr) (p2 : PState), GM p1 p2 →
        (NE p2 → ∃ sk, Skips sk p1 p2 ∧ G .cond (typs sk)) →
        wp (infixLoop prec e f) (ILpost prec L p) p2 := by
      intro e p2 hg2 h2
      by_cases hne2 : NE p2
      · obtain ⟨sk2, hs2, hc2⟩ := h2 hne2
        have hne1 : NE p1 := hg2.ne hne2
        have hnep : NE p := hg1.ne hne1
        have hs1 := hsk1 hne1.1 hne0
        have hL' : G .cond (L ++ p.cur.typ :: typs sk2) := GCond.join (hLc hnep) _ hinf hc2
        apply wp_mono (ihIL prec e (L ++ p.cur.typ :: typs sk2) p2 hprec hg2.inv (fun _ => .inl hL'))
        intro e' p3 hq3
        refine ⟨(hg1.trans hg2).trans hq3.1, fun hne3 => ?_⟩
        obtain ⟨sk3, hs3, hc3, he3, hstop⟩ := hq3.2 hne3
        refine ⟨[p.cur] ++ sk2 ++ sk3, (hs1.trans hs2).trans hs3, ?_, ?_, hstop⟩
        · intro _
          have := hc3 hL'
          simpa [List.append_assoc] using this
        · simpa [List.append_assoc] using he3
      · apply wp_mono (ihIL prec e [] p2 hprec hg2.inv (fun h => absurd h hne2))
        intro e' p3 hq3
        exact ⟨(hg1.trans hg2).trans hq3.1, fun hne3 => absurd (hq3.1.ne hne3) hne2⟩
    dsimp only
    split
    · rw [wp_bind]
      have hq1 : 1 ≤ (getRule p1.prev.typ).prec := by rw [hprev]; omega
      apply wp_mono (ihPP _ p1 (Nat.succ_le_succ (Nat.zero_le _)) hg1.inv)
      intro rhs p2 hq2
      have h2 : NE p2 → ∃ sk, Skips sk p1 p2 ∧ G .cond (typs sk) := by
        intro hne
        obtain ⟨sk, hs, hk, _⟩ := hq2.2 hne
        rw [kindOf_cond _ (by omega)] at hk
        exact ⟨sk, hs, hk⟩
      split
      · rw [wp_bind, wp_get, wp_bind, wp_pure]; exact again _ p2 hq2.1 h2
      · rw [wp_bind, wp_pure]; exact again _ p2 hq2.1 h2
    · rw [wp_bind, wp_get, wp_bind]
      apply wp_mono (ihPP precAnd p1 (by decide) hg1.inv)
      intro rhs p2 hq2
      have h2 : NE p2 → ∃ sk, Skips sk p1 p2 ∧ G .cond (typs sk) := by
        intro hne
        obtain ⟨sk, hs, hk, _⟩ := hq2.2 hne
        rw [kindOf_cond _ (by decide)] at hk
        exact ⟨sk, hs, hk⟩
      split
      · rw [wp_bind]
        apply wp_mono (error_wp _ p2 hq2.1.inv)
        intro _ p3 hq3
        rw [wp_bind, wp_pure]
        exact again _ p3 (hq2.1.trans hq3.1) (fun hne => absurd hne (ne_false_of_err hq3.2))
      · rw [wp_bind, wp_pure]; exact again _ p2 hq2.1 h2
    · rw [wp_bind, wp_get, wp_bind]
      apply wp_mono (ihPP precOr p1 (by decide) hg1.inv)
      intro rhs p2 hq2
      have h2 : NE p2 → ∃ sk, Skips sk p1 p2 ∧ G .cond (typs sk) := by
        intro hne
        obtain ⟨sk, hs, hk, _⟩ := hq2.2 hne
        rw [kindOf_cond _ (by decide)] at hk
        exact ⟨sk, hs, hk⟩
      split
      · rw [wp_bind]
        apply wp_mono (error_wp _ p2 hq2.1.inv)
        intro _ p3 hq3
        rw [wp_bind, wp_pure]
        exact again _ p3 (hq2.1.trans hq3.1) (fun hne => absurd hne (ne_false_of_err hq3.2))
      · rw [wp_bind, wp_pure]; exact again _ p2 hq2.1 h2
    · -- an operator token always has an infix rule
      rename_i hnone
      exfalso
      unfold isInfix at hinf
      rw [hprev] at hnone
      exact hinf hnone
  · rename_i hcond
    rw [wp_pure]
    refine ⟨GM.refl hi, fun hne => ⟨[], rfl, ?_, ?_, by omega⟩⟩
    · intro h; simpa using h
    · rcases hL hne with h | ⟨h, _⟩
      · simpa using G.cond _ h
      · simpa using h

theorem kindOf_expr : kindOf precAssign = .expr := by unfold kindOf; simp

theorem prefixRule_g_step (f : Nat)
    (ihPP : ∀ prec p, 1 ≤ prec → GInv p → wp (parsePrecedence prec f) (PPpost prec p) p)
    (rule : Prefix) (ca : Bool) (p : PState) (hi : GInv p) (hrule : (getRule p.prev.typ).pre = some rule) :
    wp (prefixRule rule ca (f+1)) (PRpost ca p) p := by
  have hcases := pre_cases _ _ hrule
  -- a literal or a name by itself
  have atomic : isAtom p.prev.typ → ∀ (e : Expr) (p1 : PState), GM p p1 → p1.cur = p.cur → p1.rest = p.rest →
      PRpost ca p e p1 := by
    intro hat e p1 hg hc hr
    refine ⟨hg, fun _ => ⟨[], by unfold Skips; rw [hc, hr]; rfl, .inl ?_⟩⟩
    simpa using G.unit _ (G.atom _ hat)
  have failed : ∀ (e : Expr) (p1 : PState), GM p p1 → p1.hadError = true → PRpost ca p e p1 :=
    fun e p1 hg he => ⟨hg, fun hne => absurd hne (ne_false_of_err he)⟩
  unfold prefixRule
  rw [wp_bind, wp_get]
  cases rule with
  | parens =>
    have htyp : p.prev.typ = .LPAREN := by
      rcases hcases with h | h | h | h | h | h | h | h | h <;> first | exact h.2 | (cases h.1)
    simp only
    rw [wp_bind]
    apply wp_mono (ihPP _ p (by decide) hi)
    intro e p1 hq1
    rw [wp_bind]
    apply wp_mono (consume_cons .RPAREN _ (by decide) p1 hq1.1.inv)
    intro _ p2 hq2
    rw [wp_pure]
    refine ⟨hq1.1.trans hq2.1, fun hne => ?_⟩
    obtain ⟨ht, _, hs2⟩ := hq2.2 hne.1
    obtain ⟨sk1, hs1, hk1, _⟩ := hq1.2 (hq2.1.ne hne)
    rw [kindOf_expr] at hk1
    refine ⟨sk1 ++ [p1.cur], hs1.trans hs2, .inl ?_⟩
    rw [htyp]
    have := G.unit _ (G.paren _ hk1)
    simpa [ht] using this
  | unary =>
    have htyp : isPreOp p.prev.typ := by
      rcases hcases with h | h | h | h | h | h | h | h | h <;> first | (cases h.1; done) | skip
      rcases h.2 with h | h <;> rw [h] <;> simp [isPreOp]
    simp only
    rw [wp_bind]
    apply wp_mono (ihPP _ p (by decide) hi)
    intro e p1 hq1
    rw [wp_bind, wp_get, wp_pure]
    refine ⟨hq1.1, fun hne => ?_⟩
    obtain ⟨sk1, hs1, hk1, _⟩ := hq1.2 hne
    rw [kindOf_cond _ (by decide)] at hk1
    exact ⟨sk1, hs1, .inl (GCond.pre _ htyp hk1)⟩
  | boolNot =>
    have htyp : isPreOp p.prev.typ := by
      rcases hcases with h | h | h | h | h | h | h | h | h <;> first | (cases h.1; done) | skip
      rw [h.2]; simp [isPreOp]
    simp only
    rw [wp_bind]
    apply wp_mono (ihPP _ p (by decide) hi)
    intro e p1 hq1
    rw [wp_bind, wp_get, wp_pure]
    refine ⟨hq1.1, fun hne => ?_⟩
    obtain ⟨sk1, hs1, hk1, _⟩ := hq1.2 hne
    rw [kindOf_cond _ (by decide)] at hk1
    exact ⟨sk1, hs1, .inl (GCond.pre _ htyp hk1)⟩
  | intLit =>
    have hat : isAtom p.prev.typ := by
      rcases hcases with h | h | h | h | h | h | h | h | h <;> first | (cases h.1; done) | skip
      rw [h.2]; simp [isAtom]
    simp only
    split
    · rw [wp_bind]
      apply wp_mono (error_wp _ p hi)
      intro _ p1 hq1
      rw [wp_pure]; exact failed _ p1 hq1.1 hq1.2
    · rw [wp_pure]; exact atomic hat _ p (GM.refl hi) rfl rfl
    · rw [wp_pure]; exact atomic hat _ p (GM.refl hi) rfl rfl
    · rw [wp_bind]
      apply wp_tf (makeConst_gr _) (makeConst_tf _) hi
      intro idx p1 hg hc hr _
      rw [wp_pure]; exact atomic hat _ p1 hg hc hr
  | floatLit =>
    have hat : isAtom p.prev.typ := by
      rcases hcases with h | h | h | h | h | h | h | h | h <;> first | (cases h.1; done) | skip
      rw [h.2]; simp [isAtom]
    simp only
    split
    · rw [wp_bind]
      apply wp_mono (error_wp _ p hi)
      intro _ p1 hq1
      rw [wp_pure]; exact failed _ p1 hq1.1 hq1.2
    · rw [wp_bind]
      apply wp_tf (makeConst_gr _) (makeConst_tf _) hi
      intro idx p1 hg hc hr _
      rw [wp_pure]; exact atomic hat _ p1 hg hc hr
  | stringLit =>
    have hat : isAtom p.prev.typ := by
      rcases hcases with h | h | h | h | h | h | h | h | h <;> first | (cases h.1; done) | skip
      rw [h.2]; simp [isAtom]
    simp only
    split
    · rw [wp_bind]
      apply wp_mono (error_wp _ p hi)
      intro _ p1 hq1
      rw [wp_pure]; exact failed _ p1 hq1.1 hq1.2
    · rw [wp_bind]
      apply wp_tf (makeConst_gr _) (makeConst_tf _) hi
      intro idx p1 hg hc hr _
      rw [wp_pure]; exact atomic hat _ p1 hg hc hr
  | boolLit =>
    have hat : isAtom p.prev.typ := by
      rcases hcases with h | h | h | h | h | h | h | h | h <;> first | (cases h.1; done) | skip
      rcases h.2 with h | h <;> rw [h] <;> simp [isAtom]
    simp only; rw [wp_pure]; exact atomic hat _ p (GM.refl hi) rfl rfl
  | nilLit =>
    have hat : isAtom p.prev.typ := by
      rcases hcases with h | h | h | h | h | h | h | h | h <;> first | (cases h.1; done) | skip
      rw [h.2]; simp [isAtom]
    simp only; rw [wp_pure]; exact atomic hat _ p (GM.refl hi) rfl rfl
  | identRef =>
    have htyp : p.prev.typ = .IDENT := by
      rcases hcases with h | h | h | h | h | h | h | h | h <;> first | (cases h.1; done) | skip
      exact h.2
    have hat : isAtom p.prev.typ := by rw [htyp]; simp [isAtom]
    simp only
    rw [wp_bind, wp_get]
    have assign : ∀ (mk : Expr → Nat → Expr) (alt : Expr) (p1 : PState), GM p p1 → p1.cur = p.cur → p1.rest = p.rest →
        wp (do
          if ca = true then
            if (← «match» .EQ) = true then
              let e ← parsePrecedence precAssign f
              return mk e (← get).prev.pos
          return alt) (PRpost ca p) p1 := by
      intro mk alt p1 hg1 hc1 hr1
      split
      · rename_i hca
        rw [wp_bind]
        apply wp_mono (match_cons .EQ (by decide) p1 hg1.inv)
        intro b p2 hq2
        obtain ⟨hg2, hf2, ht2⟩ := hq2
        split
        · rename_i hb
          obtain ⟨heq, _, hs2⟩ := ht2 hb
          rw [wp_bind]
          apply wp_mono (ihPP _ p2 (by decide) hg2.inv)
          intro e p3 hq3
          rw [wp_bind, wp_get, wp_pure]
          refine ⟨(hg1.trans hg2).trans hq3.1, fun hne => ?_⟩
          obtain ⟨sk3, hs3, hk3, hstop⟩ := hq3.2 hne
          rw [kindOf_expr] at hk3
          have hne2 : NE p2 := hq3.1.ne hne
          have hs12 := (hs2 hne2.1).trans hs3
          refine ⟨[p1.cur] ++ sk3, ?_, .inr ⟨hca, ?_, by unfold precAssign at hstop; omega⟩⟩
          · unfold Skips at hs12 ⊢; rw [← hc1, ← hr1]; exact hs12
          · rw [htyp]
            have := G.assign _ hk3
            simpa [heq] using this
        · rename_i hb
          obtain ⟨rfl, _⟩ := hf2 (by simpa using hb)
          rw [wp_pure]
          exact atomic hat _ p2 hg1 hc1 hr1
      · rw [wp_pure]
        exact atomic hat _ p1 hg1 hc1 hr1
    split
    · exact assign _ _ p (GM.refl hi) rfl rfl
    · split
      · rw [wp_bind]
        apply wp_mono (error_wp _ p hi)
        intro _ p1 hq1
        rw [wp_pure]; exact failed _ p1 hq1.1 hq1.2
      · rw [wp_bind]
        apply wp_tf (identConst_gr _) (identConst_tf _) hi
        intro idx p1 hg hc hr _
        exact assign _ _ p1 hg hc hr

/-- **Expressions are sentences of the expression grammar**: what `parsePrecedence`,
`infixLoop` and `prefixRule` consume when they report no error. -/
theorem exprs_g : ∀ (f : Nat),
    (∀ prec p, 1 ≤ prec → GInv p → wp (parsePrecedence prec f) (PPpost prec p) p)
    ∧ (∀ prec left L p, 1 ≤ prec → GInv p → (NE p → G .cond L ∨ (G .expr L ∧ (getRule p.cur.typ).prec = 0)) →
        wp (infixLoop prec left f) (ILpost prec L p) p)
    ∧ (∀ rule ca p, GInv p → (getRule p.prev.typ).pre = some rule → wp (prefixRule rule ca f) (PRpost ca p) p)
  | 0 => by
    have stuck : ∀ (p p1 : PState), GM p p1 → p1.stuck = true → ¬ NE p1 := fun _ p1 _ h hne => by
      rw [hne.2] at h; cases h
    refine ⟨?_, ?_, ?_⟩
    · intro prec p _ hi
      unfold parsePrecedence
      rw [wp_bind]
      have : wp setStuck (fun _ p' => GM p p' ∧ p'.stuck = true) p := ⟨setStuck_gr.h p hi, rfl⟩
      apply wp_mono this
      intro _ p1 h
      rw [wp_pure]
      exact ⟨h.1, fun hne => absurd hne (stuck p p1 h.1 h.2)⟩
    · intro prec left L p _ hi _
      unfold infixLoop
      rw [wp_bind]
      have : wp setStuck (fun _ p' => GM p p' ∧ p'.stuck = true) p := ⟨setStuck_gr.h p hi, rfl⟩
      apply wp_mono this
      intro _ p1 h
      rw [wp_pure]
      exact ⟨h.1, fun hne => absurd hne (stuck p p1 h.1 h.2)⟩
    · intro rule ca p hi _
      unfold prefixRule
      rw [wp_bind]
      have : wp setStuck (fun _ p' => GM p p' ∧ p'.stuck = true) p := ⟨setStuck_gr.h p hi, rfl⟩
      apply wp_mono this
      intro _ p1 h
      rw [wp_pure]
      exact ⟨h.1, fun hne => absurd hne (stuck p p1 h.1 h.2)⟩
  | f+1 => by
    obtain ⟨ih1, ih2, ih3⟩ := exprs_g f
    exact ⟨fun prec p hp hi => parsePrecedence_g_step f ih2 ih3 prec p hp hi,
           fun prec left L p hp hi hL => infixLoop_g_step f ih1 ih2 prec left L p hp hi hL,
           fun rule ca p hi hr => prefixRule_g_step f ih1 rule ca p hi hr⟩

theorem expr_g (f : Nat) (p : PState) (hi : GInv p) : wp (expr f) (PPpost precAssign p) p := by
  unfold expr; exact (exprs_g f).1 _ p (by decide) hi

end Bclv
