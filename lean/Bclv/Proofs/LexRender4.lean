import Bclv.Proofs.LexRender3
namespace Bclv

/-! ## operators and punctuation -/

theorem byte_ne_eof (b : UInt8) : (((b.toNat : Int) : Rune) == eofR) = false := by
  have : (b.toNat : Int) ≠ -1 := by omega
  simp only [beq_eq_false_iff_ne, eofR]; exact this

/-- a one-rune token that starts no two-rune token -/
theorem op1_steps (f n p w : Nat) (b : UInt8) (typ : TokType) (x : Bytes) (T : List Token) (hb : b < 0x80)
    (h2 : twoRuneOf (b.toNat : Int) = none) (h1 : oneRuneOf (b.toNat : Int) = some typ) :
    lexRun Pf f (n + 1) .start ⟨⟨p, [], b :: x, w⟩, T⟩
      = lexRun Pf f n .start ⟨⟨p + 1, [], x, 1⟩, { typ := typ, val := [b] } :: T⟩ := by
  rw [lexRun]
  have e1 := Pf_next_ascii p w [] x b hb
  simp only [lexStep, e1, byte_ne_eof b, h2, h1, Bool.false_eq_true, if_false, emit]
  congr 2 <;> simp [Pf, LexPrims.noPos, Whole.prims]

/-- the first rune of a two-rune token, followed by something else -/
theorem op2first_steps (f n p w : Nat) (b : UInt8) (want : Nat) (t2 t1 : TokType) (x : Bytes) (T : List Token)
    (hb : b < 0x80) (h2 : twoRuneOf (b.toNat : Int) = some (want, t2)) (h1 : oneRuneOf (b.toNat : Int) = some t1)
    (hF : (firstRune x == (want : Int)) = false) :
    lexRun Pf f (n + 1) .start ⟨⟨p, [], b :: x, w⟩, T⟩
      = lexRun Pf f n .start ⟨⟨p + 1, [], x, (decodeRune x).2⟩, { typ := t1, val := [b] } :: T⟩ := by
  rw [lexRun]
  have e1 := Pf_next_ascii p w [] x b hb
  have e2 : (Pf.next ⟨p + 1, [b], x, 1⟩).1 = firstRune x := by rw [Pf_next_eq]
  have e3 := Pf_backup_next ⟨p + 1, [b], x, 1⟩
  simp only [lexStep, e1, byte_ne_eof b, h2, e2, hF, h1, e3, Bool.false_eq_true, if_false, emit]
  congr 2 <;> simp [Pf, LexPrims.noPos, Whole.prims]

/-- a two-rune token -/
theorem op2_steps (f n p w : Nat) (b c : UInt8) (t2 : TokType) (x : Bytes) (T : List Token)
    (hb : b < 0x80) (hc : c < 0x80) (h2 : twoRuneOf (b.toNat : Int) = some (c.toNat, t2)) :
    lexRun Pf f (n + 1) .start ⟨⟨p, [], b :: c :: x, w⟩, T⟩
      = lexRun Pf f n .start ⟨⟨p + 2, [], x, 1⟩, { typ := t2, val := [b, c] } :: T⟩ := by
  rw [lexRun]
  have e1 := Pf_next_ascii p w [] (c :: x) b hb
  have e2 := Pf_next_ascii (p + 1) 1 [b] x c hc
  simp only [lexStep, e1, byte_ne_eof b, h2, e2, beq_self_eq_true, Bool.false_eq_true, if_false, if_true, emit]
  congr 2 <;> simp [Pf, LexPrims.noPos, Whole.prims]

/-! ## string literals without escapes -/

/-- a byte that may stand inside a string literal as itself -/
def plainByte (b : UInt8) : Prop := b < 0x80 ∧ b ≠ 34 ∧ b ≠ 92 ∧ b ≠ 10

theorem plain_tests (b : UInt8) (h : plainByte b) :
    ((b.toNat : Int) == 92) = false ∧ (((b.toNat : Int) == eofR) || ((b.toNat : Int) == 10)) = false ∧
    ((b.toNat : Int) == 34) = false := by
  obtain ⟨_, h34, h92, h10⟩ := h
  have a : b.toNat ≠ 34 := fun e => h34 (UInt8.toNat_inj.mp e)
  have c : b.toNat ≠ 92 := fun e => h92 (UInt8.toNat_inj.mp e)
  have d : b.toNat ≠ 10 := fun e => h10 (UInt8.toNat_inj.mp e)
  have a' : (b.toNat : Int) ≠ 34 := by omega
  have c' : (b.toNat : Int) ≠ 92 := by omega
  have d' : (b.toNat : Int) ≠ 10 := by omega
  have e' : (b.toNat : Int) ≠ -1 := by omega
  refine ⟨by simp only [beq_eq_false_iff_ne]; exact c', ?_, by simp only [beq_eq_false_iff_ne]; exact a'⟩
  simp only [Bool.or_eq_false_iff, beq_eq_false_iff_ne, eofR]
  exact ⟨e', d'⟩

theorem quoteLoop_ascii : ∀ (body : Bytes) (f p w : Nat) (c x : Bytes), (∀ b ∈ body, plainByte b) → body.length < f →
    quoteLoop Pf f ⟨p, c, body ++ 34 :: x, w⟩ = (true, ⟨p + body.length + 1, 34 :: (body.reverse ++ c), x, 1⟩)
  | [], f, p, w, c, x, _, hf => by
    cases f with
    | zero => simp at hf
    | succ f =>
      show quoteLoop Pf (f+1) ⟨p, c, 34 :: x, w⟩ = _
      unfold quoteLoop
      rw [Pf_next_ascii p w c x 34 (by decide)]
      simp [eofR]
  | b :: body, f, p, w, c, x, hb, hf => by
    cases f with
    | zero => simp at hf
    | succ f =>
      have hpb := hb b (by simp)
      obtain ⟨t92, teof, t34⟩ := plain_tests b hpb
      show quoteLoop Pf (f+1) ⟨p, c, b :: (body ++ 34 :: x), w⟩ = _
      unfold quoteLoop
      rw [Pf_next_ascii p w c (body ++ 34 :: x) b hpb.1]
      dsimp only
      rw [t92]
      simp only [Bool.false_eq_true, if_false]
      rw [teof, t34]
      simp only [Bool.false_eq_true, if_false]
      rw [quoteLoop_ascii body f (p + 1) 1 (b :: c) x (fun y hy => hb y (by simp [hy])) (by simp at hf; omega)]
      simp [Nat.add_assoc, Nat.add_comm 1]

def FStr (x : Bytes) : Prop := isAlphaNumR (firstRune x) = false

def strText (body : Bytes) : Bytes := 34 :: (body ++ [34])

/-- the start state on `"` hands over to `lexQuote` -/
theorem start_on_quote (f : Nat) (s : Whole) (T : List Token) (hR : firstRune s.rest = 34) :
    lexStep Pf f .start ⟨s, T⟩ = (.quote, ⟨(Pf.next s).2, T⟩) := by
  have hr : (Pf.next s).1 = 34 := by rw [Pf_next_eq]; exact hR
  obtain ⟨h2, h1⟩ := tables_none 34 (by decide) (by decide) (by decide) (by decide) (by decide) (by decide)
    (by decide) (by decide) (by decide) (by decide) (by decide) (by decide) (by decide) (by decide)
  simp only [lexStep, hr, h2, h1]
  rfl

/-- **String literals** (no escapes, no line feed inside) -/
theorem str_steps (f n p w : Nat) (body x : Bytes) (T : List Token) (hb : ∀ b ∈ body, plainByte b) (hF : FStr x)
    (hf : body.length + 2 < f) :
    lexRun Pf f (n + 2) .start ⟨⟨p, [], strText body ++ x, w⟩, T⟩
      = lexRun Pf f n .start ⟨⟨p + (strText body).length, [], x, (decodeRune x).2⟩, { typ := .STR, val := strText body } :: T⟩ := by
  unfold strText
  simp only [List.cons_append, List.append_assoc, List.singleton_append, List.nil_append]
  rw [lexRun, start_on_quote f ⟨p, [], 34 :: (body ++ 34 :: x), w⟩ T (firstRune_ascii 34 _ (by decide))]
  dsimp only
  rw [lexRun]
  have e1 := Pf_next_ascii p w [] (body ++ 34 :: x) 34 (by decide)
  have e2 := quoteLoop_ascii body f (p + 1) 1 [34] x hb (by omega)
  have e3 := peekR_eq ⟨p + 1 + body.length + 1, 34 :: (body.reverse ++ [34]), x, 1⟩
  have hF' : isAlphaNumR (firstRune x) = false := hF
  simp only [lexStep, e1, e2, e3, hF', Bool.not_true, Bool.false_eq_true, if_false, emit]
  congr 2
  · simp [Pf, LexPrims.noPos, Whole.prims]; omega
  · simp [Pf, LexPrims.noPos, Whole.prims]

end Bclv
