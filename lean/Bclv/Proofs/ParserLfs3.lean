import Bclv.Proofs.ParserLfs2
namespace Bclv

/-- **The parser needs the line table only below its tokens.**  Two line tables that give the
same `line:col` for every offset up to `B`, where no token lies beyond `B`, give the same
parse: tree, constants, verdict, diagnostics and statistics. -/
theorem parse_lfs (toks : List Token) (l₁ l₂ : List Nat) (B : Nat)
    (hb : ∀ t ∈ toks, t.pos ≤ B) (hag : ∀ x, x ≤ B → fmtPos l₁ x = fmtPos l₂ x) :
    parseTokens toks l₁ = parseTokens toks l₂ := by
  have hrun : ∀ n, HomL B
      (do advance; let body ← topLoop n; let p ← get
          return ({ body, npop := p.locals.length, endPos := p.prev.pos } : Program))
      (do advance; let body ← topLoop n; let p ← get
          return ({ body, npop := p.locals.length, endPos := p.prev.pos } : Program)) := by
    intro n
    apply HomL.bind advance_homl
    intro _
    apply HomL.bind (topLoop_homl n)
    intro b
    apply HomL.get_bind
    intro q₁ q₂ hq
    rw [hq.locals, hq.prev]
    exact HomL.pure _
  have h0 : LF B ({ rest := toks, lfs := l₁ } : PState) ({ rest := toks, lfs := l₂ } : PState) :=
    ⟨rfl, rfl, rfl, rfl, rfl, rfl, rfl, rfl, rfl, rfl, rfl, rfl, rfl, rfl, rfl, hag, Nat.zero_le _, Nat.zero_le _, hb⟩
  obtain ⟨hs, hr⟩ := (hrun (4 * toks.length + 16)).h _ _ h0
  unfold parseTokens
  simp only [StateT.run]
  generalize ((advance >>= fun _ => do
      let body ← topLoop (4 * toks.length + 16)
      let p ← get
      pure ({ body := body, npop := p.locals.length, endPos := p.prev.pos } : Program) : PM Program)
      { rest := toks, lfs := l₁ }) = r₁ at hs hr ⊢
  generalize ((advance >>= fun _ => do
      let body ← topLoop (4 * toks.length + 16)
      let p ← get
      pure ({ body := body, npop := p.locals.length, endPos := p.prev.pos } : Program) : PM Program)
      { rest := toks, lfs := l₂ }) = r₂ at hs hr ⊢
  obtain ⟨a₁, p₁⟩ := r₁
  obtain ⟨a₂, p₂⟩ := r₂
  simp only at hs hr ⊢
  rw [hr, hs.consts, hs.hadError, hs.log, hs.tokens, hs.localMax, hs.depthMax, hs.stuck]

end Bclv
