import Bclv.Proofs.ParserScoped1
namespace Bclv

/-- `m` keeps the invariant, only extends the state, and its result satisfies `R`. -/
structure SpecR {α : Type} (m : PM α) (R : PState → α → PState → Prop) : Prop where
  h : ∀ p, PI p → PI (m p).2 ∧ Ext p (m p).2 ∧ R p (m p).1 (m p).2

theorem SpecR.toPresR {α} {m : PM α} {R} (h : SpecR m R) : PresR m := ⟨fun p hp => ⟨(h.h p hp).1, (h.h p hp).2.1⟩⟩

theorem refs_of_prefix {p p' : PState} (hpre : p.consts.toList <+: p'.consts.toList) (hr : p'.identRefs = p.identRefs)
    (h : ∀ name idx, (name, idx) ∈ p.identRefs → p.consts.toList[idx]? = some (.str name)) :
    ∀ name idx, (name, idx) ∈ p'.identRefs → p'.consts.toList[idx]? = some (.str name) := by
  intro name idx hm
  rw [hr] at hm
  have := h name idx hm
  obtain ⟨t, ht⟩ := hpre
  rw [← ht]
  have hlt := (List.getElem?_eq_some_iff.mp this).1
  rw [List.getElem?_append_left hlt]; exact this

theorem addConst_spec (v : Value) : SpecR (addConst v) (fun _ idx p' => p'.consts.toList[idx]? = some v) := by
  refine ⟨fun p hp => ?_⟩
  simp only [addConst, bind, StateT.bind, get, getThe, MonadStateOf.get, StateT.get, set, StateT.set, pure, StateT.pure]
  have hpre : p.consts.toList <+: (p.consts.push v).toList := by simp
  refine ⟨⟨?_, hp.pm, hp.tailInit, hp.depths, hp.nloc⟩, ⟨rfl, rfl, hpre, id, id⟩, ?_⟩
  · exact refs_of_prefix (p' := { p with consts := p.consts.push v }) hpre rfl hp.refs
  · simp

theorem lookup_mem' {α β} [BEq α] [LawfulBEq α] {l : List (α × β)} {k : α} {v : β} (h : l.lookup k = some v) : (k, v) ∈ l := by
  induction l with
  | nil => simp [List.lookup] at h
  | cons x xs ih =>
    obtain ⟨k', v'⟩ := x
    simp only [List.lookup] at h
    split at h
    · rename_i heq
      have : k = k' := by simpa using heq
      subst this
      simp at h; subst h; simp
    · exact List.mem_cons_of_mem _ (ih h)

theorem makeConst_eq (v : Value) (p : PState) : makeConst v p =
    if v = .str [] then
      (match p.identRefs.lookup [] with
       | some idx => (idx, p)
       | none => ((addConst v p).1, { (addConst v p).2 with identRefs := ([], (addConst v p).1) :: (addConst v p).2.identRefs }))
    else addConst v p := by
  unfold makeConst
  by_cases hv : v = .str []
  · subst hv
    simp only [if_true]
    show (do match (← get).identRefs.lookup [] with
              | some idx => pure idx
              | none => do
                let idx ← addConst (.str [])
                modify fun p => { p with identRefs := ([], idx) :: p.identRefs }
                pure idx : PM Nat) p = _
    simp only [bind, StateT.bind, get, getThe, MonadStateOf.get, StateT.get, pure]
    cases hl : p.identRefs.lookup [] with
    | some idx => rfl
    | none => rfl
  · simp only [hv, if_false]

theorem identConst_eq (name : Bytes) (p : PState) : identConst name p =
    (match p.identRefs.lookup name with
     | some idx => (idx, p)
     | none => ((makeConst (.str name) p).1,
        { (makeConst (.str name) p).2 with identRefs := (name, (makeConst (.str name) p).1) :: (makeConst (.str name) p).2.identRefs })) := by
  unfold identConst
  show (do match (← get).identRefs.lookup name with
            | some idx => pure idx
            | none => do
              let idx ← makeConst (.str name)
              modify fun p => { p with identRefs := (name, idx) :: p.identRefs }
              pure idx : PM Nat) p = _
  simp only [bind, StateT.bind, get, getThe, MonadStateOf.get, StateT.get, pure]
  cases hl : p.identRefs.lookup name with
  | some idx => rfl
  | none => rfl

theorem extend_refs {p1 : PState} (hpi : PI p1) (name : Bytes) (idx : Nat) (hidx : p1.consts.toList[idx]? = some (.str name)) :
    PI { p1 with identRefs := (name, idx) :: p1.identRefs } := by
  refine ⟨?_, hpi.pm, hpi.tailInit, hpi.depths, hpi.nloc⟩
  intro nm i hm
  simp only [List.mem_cons, Prod.mk.injEq] at hm
  rcases hm with ⟨rfl, rfl⟩ | hm
  · exact hidx
  · exact hpi.refs nm i hm

theorem makeConst_spec (v : Value) : SpecR (makeConst v) (fun _ idx p' => p'.consts.toList[idx]? = some v) := by
  refine ⟨fun p hp => ?_⟩
  rw [makeConst_eq]
  by_cases hv : v = .str []
  · subst hv
    simp only [if_true]
    cases hl : p.identRefs.lookup [] with
    | some idx => exact ⟨hp, Ext.refl p, hp.refs [] idx (lookup_mem' hl)⟩
    | none =>
      obtain ⟨hpi, hext, hidx⟩ := (addConst_spec (.str [])).h p hp
      exact ⟨extend_refs hpi [] _ hidx, ⟨hext.locals, hext.depth, hext.consts, hext.err, hext.stuck⟩, hidx⟩
  · simp only [hv, if_false]
    exact (addConst_spec v).h p hp

theorem identConst_spec (name : Bytes) : SpecR (identConst name) (fun _ idx p' => p'.consts.toList[idx]? = some (.str name)) := by
  refine ⟨fun p hp => ?_⟩
  rw [identConst_eq]
  cases hl : p.identRefs.lookup name with
  | some idx => exact ⟨hp, Ext.refl p, hp.refs name idx (lookup_mem' hl)⟩
  | none =>
    obtain ⟨hpi, hext, hidx⟩ := (makeConst_spec (.str name)).h p hp
    exact ⟨extend_refs hpi name _ hidx, ⟨hext.locals, hext.depth, hext.consts, hext.err, hext.stuck⟩, hidx⟩

/-- `error` raises the flag -/
theorem error_spec (msg : Bytes) : SpecR (error msg) (fun _ _ p' => p'.hadError = true) := by
  refine ⟨fun p hp => ?_⟩
  have := (error_presR msg).h p hp
  exact ⟨this.1, this.2, rfl⟩

theorem errorAtCurrent_spec (msg : Bytes) : SpecR (errorAtCurrent msg) (fun _ _ p' => p'.hadError = true) := by
  refine ⟨fun p hp => ?_⟩
  have := (errorAtCurrent_presR msg).h p hp
  exact ⟨this.1, this.2, rfl⟩

theorem setStuck_spec : SpecR setStuck (fun _ _ p' => p'.stuck = true) := by
  refine ⟨fun p hp => ?_⟩
  have := setStuck_presR.h p hp
  exact ⟨this.1, this.2, rfl⟩

end Bclv
