import Bclv.Proofs.CompileCorrect
import Bclv.Proofs.Progress
import Bclv.Proofs.Scoped
import Bclv.Verifier
/-!
# The compiler's output passes the bytecode checker (C10)

For a well-scoped tree the depth map is written down explicitly (`mapE`, `mapS`, `mapSs`,
`mapP`: one entry per instruction boundary, with the operand depth and block depth there),
and every entry is shown to satisfy the local check of `checkMap`.
-/
namespace Bclv

def St.push (s : St) : St := { s with d := s.d + 1 }

def opsMap (op : BinOp) (o : Nat) (s : St) : DepthMap :=
  match op.ops with
  | [_] => [(o, s.push.push)]
  | _ => [(o, s.push.push), (o + 1, s.push)]

def mapE : Expr → Nat → St → DepthMap
  | .lit _ _, o, s => [(o, s)]
  | .const _ _, o, s => [(o, s)]
  | .getLocal _ _, o, s => [(o, s)]
  | .getField _ _, o, s => [(o, s)]
  | .setLocal _ e _, o, s => mapE e o s ++ [(o + sizeE e, s.push)]
  | .setField _ e _, o, s => mapE e o s ++ [(o + sizeE e, s.push)]
  | .un _ e _, o, s => mapE e o s ++ [(o + sizeE e, s.push)]
  | .bin op a b _, o, s => mapE a o s ++ (mapE b (o + sizeE a) s.push ++ opsMap op (o + sizeE a + sizeE b) s)
  | .and a b _, o, s =>
    mapE a o s ++ ([(o + sizeE a, s.push), (o + sizeE a + 3, s.push)] ++ mapE b (o + sizeE a + 4) s)
  | .or a b _, o, s =>
    mapE a o s ++ ([(o + sizeE a, s.push), (o + sizeE a + 3, s.push), (o + sizeE a + 6, s.push)]
      ++ mapE b (o + sizeE a + 7) s)
  | .bad, _, _ => []

/-- the local check of one entry against a lookup function -/
def EntryOK (p : Prog) (M : Nat → Option St) (pc : Nat) (s : St) : Prop :=
  ∃ i succs, decodeAt p pc = some i ∧ i.next ≤ p.code.length ∧ flow p i s = some succs ∧
    ∀ e ∈ succs, M e.1 = some e.2

theorem Placed.len {p : Prog} {pre c post : PCode} (h : Placed p pre c post) :
    p.code.length = pre.length + c.length + post.length := by
  rw [h.code]; simp; omega

/-- the entry of a well-scoped expression is its first boundary -/
theorem mapE_head (K : List Value) (L : Nat) (B : Bool) : ∀ (e : Expr) (o : Nat) (s : St), ScE K L B e →
    (o, s) ∈ mapE e o s := by
  intro e
  induction e with
  | lit l p => intro o s _; simp [mapE]
  | const i p => intro o s _; simp [mapE]
  | getLocal i p => intro o s _; simp [mapE]
  | getField i p => intro o s _; simp [mapE]
  | setLocal i e p ih => intro o s h; simp only [ScE] at h; simp only [mapE]; exact List.mem_append_left _ (ih o s h.2)
  | setField i e p ih => intro o s h; simp only [ScE] at h; simp only [mapE]; exact List.mem_append_left _ (ih o s h.2.2)
  | un op e p ih => intro o s h; simp only [ScE] at h; simp only [mapE]; exact List.mem_append_left _ (ih o s h)
  | bin op a b p iha _ => intro o s h; simp only [ScE] at h; simp only [mapE]; exact List.mem_append_left _ (iha o s h.1)
  | and a b p iha _ => intro o s h; simp only [ScE] at h; simp only [mapE]; exact List.mem_append_left _ (iha o s h.1)
  | or a b p iha _ => intro o s h; simp only [ScE] at h; simp only [mapE]; exact List.mem_append_left _ (iha o s h.1)
  | bad => intro o s h; simp only [ScE] at h

/-! ## single instructions -/

theorem ok_op0 {p : Prog} {M : Nat → Option St} {pre post : PCode} {o : Op} {pos : Nat} {s : St}
    {succs : List (Nat × St)} (hpl : Placed p pre (opAt o pos) post) (hk : o.kind = 0)
    (hf : flow p { op := o, next := pre.length + 1 } s = some succs) (hs : ∀ e ∈ succs, M e.1 = some e.2) :
    EntryOK p M pre.length s := by
  have hb := hpl.bytes.1
  have hd := decode0 (A := pre.map Prod.fst) (B := post.map Prod.fst) o hk (by rw [hb]; simp [opAt])
  simp only [List.length_map] at hd
  refine ⟨_, succs, hd, ?_, hf, hs⟩
  have := hpl.len; simp [opAt] at this ⊢; omega

theorem ok_op1 {p : Prog} {M : Nat → Option St} {pre post : PCode} {o : Op} {x pos : Nat} {s : St}
    {succs : List (Nat × St)} (hpl : Placed p pre (opArg o x pos) post) (hk : o.kind = 1) (hx : x < 2 ^ 64)
    (hf : flow p { op := o, a := x, next := pre.length + 1 + (uvEnc x).length } s = some succs)
    (hs : ∀ e ∈ succs, M e.1 = some e.2) :
    EntryOK p M pre.length s := by
  have hb := hpl.bytes.1
  have hd := decode1 (A := pre.map Prod.fst) (B := post.map Prod.fst) o x hk hx
    (by rw [hb]; simp [opArg, atPos_fst])
  simp only [List.length_map] at hd
  refine ⟨_, succs, hd, ?_, hf, hs⟩
  have := hpl.len; simp [opArg, atPos] at this ⊢; omega

theorem ok_op3 {p : Prog} {M : Nat → Option St} {pre post : PCode} {o : Op} {d pos : Nat} {s : St}
    {succs : List (Nat × St)} (hpl : Placed p pre (jumpAt o d pos) post) (hk : o.kind = 3) (hd : d < 65536)
    (hf : flow p { op := o, a := d, next := pre.length + 3 } s = some succs)
    (hs : ∀ e ∈ succs, M e.1 = some e.2) :
    EntryOK p M pre.length s := by
  have hb := hpl.bytes.1
  have hdec := decode3 (A := pre.map Prod.fst) (B := post.map Prod.fst) o d hk hd
    (by rw [hb]; simp [jumpAt, atPos])
  simp only [List.length_map] at hdec
  refine ⟨_, succs, hdec, ?_, hf, hs⟩
  have := hpl.len; simp [jumpAt, atPos] at this ⊢; omega

theorem push_d (s : St) : s.push.d = s.d + 1 := rfl
theorem push_b (s : St) : s.push.b = s.b := rfl

def Op.arith (o : Op) : Bool := o == .EQ || o == .LT || o == .GT || o == .ADD || o == .SUB || o == .MUL || o == .DIV

theorem ok_arith {p : Prog} {M : Nat → Option St} {pre post : PCode} {X : Op} {pos : Nat} {s : St}
    (hX : X.arith = true) (hpl : Placed p pre (opAt X pos) post) (hd : 2 ≤ s.d)
    (hex : M (pre.length + 1) = some { s with d := s.d - 1 }) : EntryOK p M pre.length s := by
  refine ok_op0 hpl (by cases X <;> first | (exact absurd hX (by decide)) | rfl) (succs := [(pre.length + 1, { s with d := s.d - 1 })]) ?_ ?_
  · cases X <;> first | (exact absurd hX (by decide)) | (simp only [flow, hd, if_true])
  · intro e he; simp only [List.mem_singleton] at he; subst he; exact hex

theorem ok_not {p : Prog} {M : Nat → Option St} {pre post : PCode} {pos : Nat} {s : St}
    (hpl : Placed p pre (opAt .NOT pos) post) (hd : 1 ≤ s.d)
    (hex : M (pre.length + 1) = some s) : EntryOK p M pre.length s := by
  refine ok_op0 hpl rfl (succs := [(pre.length + 1, s)]) ?_ ?_
  · simp only [flow, hd, if_true]
  · intro e he; simp only [List.mem_singleton] at he; subst he; exact hex

theorem ok_pop {p : Prog} {M : Nat → Option St} {pre post : PCode} {pos : Nat} {s : St}
    (hpl : Placed p pre (opAt .POP pos) post) (hd : 1 ≤ s.d)
    (hex : M (pre.length + 1) = some { s with d := s.d - 1 }) : EntryOK p M pre.length s := by
  refine ok_op0 hpl rfl (succs := [(pre.length + 1, { s with d := s.d - 1 })]) ?_ ?_
  · simp only [flow, hd, if_true]
  · intro e he; simp only [List.mem_singleton] at he; subst he; exact hex

theorem push_pop (s : St) : ({ s.push with d := s.push.d - 1 } : St) = s := by
  cases s; simp [St.push]
theorem push2_pop (s : St) : ({ s.push.push with d := s.push.push.d - 1 } : St) = s.push := by
  cases s; simp [St.push]

theorem ok_cmp_not {p : Prog} {M : Nat → Option St} {P post : PCode} {X : Op} {pos : Nat} (s : St)
    (hX : X.arith = true) (hpo : Placed p P [(X.toByte, pos), (Op.NOT.toByte, pos)] post)
    (hMn : M (P.length + 1) = some s.push) (hex : M (P.length + 2) = some s.push) :
    EntryOK p M P.length s.push.push ∧ EntryOK p M (P.length + 1) s.push := by
  have hp1 : Placed p P (opAt X pos) (opAt .NOT pos ++ post) :=
    Placed.left (a := [(X.toByte, pos)]) (b := [(Op.NOT.toByte, pos)]) hpo
  have hp2 : Placed p (P ++ opAt X pos) (opAt .NOT pos) post :=
    Placed.right (a := [(X.toByte, pos)]) (b := [(Op.NOT.toByte, pos)]) hpo
  have hl3 : (P ++ opAt X pos).length = P.length + 1 := by simp [opAt]
  constructor
  · exact ok_arith hX hp1 (by simp only [push_d]; omega) (by rw [push2_pop]; exact hMn)
  · rw [← hl3]
    exact ok_not hp2 (by simp only [push_d]; omega) (by rw [hl3]; exact hex)

theorem isStrConst_of {p : Prog} {i : Nat} (h : isStrAt p.consts i) : isStrConst p i = true := by
  obtain ⟨s, hs⟩ := constStr_of_isStrAt h
  simp [isStrConst, hs]


/-- **Expressions**: every boundary of the code of a well-scoped expression passes the local
check, provided the lookup agrees with the expression's own map and carries the exit state
(one more operand) right behind it. -/
theorem mapE_ok (p : Prog) (M : Nat → Option St) (L : Nat) (B : Bool) (hK : p.consts.length < 2 ^ 64) (hL : L ≤ 1024) :
    ∀ (e : Expr) (pre post : PCode) (s : St), Placed p pre (compileE e) post → ScE p.consts L B e →
      L ≤ s.d → (B = true → 1 ≤ s.b) →
      (∀ x ∈ mapE e pre.length s, M x.1 = some x.2) → M (pre.length + sizeE e) = some s.push →
      ∀ x ∈ mapE e pre.length s, EntryOK p M x.1 x.2 := by
  intro e
  induction e with
  | lit l pos =>
    intro pre post s hpl _ _ _ _ hex x hx
    simp only [mapE, List.mem_singleton] at hx; subst hx
    simp only [compileE] at hpl
    simp only [sizeE] at hex
    refine ok_op0 hpl (by cases l <;> rfl) (succs := [(pre.length + 1, s.push)]) (by cases l <;> rfl) ?_
    intro e he; simp only [List.mem_singleton] at he; subst he; exact hex
  | const idx pos =>
    intro pre post s hpl hsc _ _ _ hex x hx
    simp only [mapE, List.mem_singleton] at hx; subst hx
    simp only [compileE] at hpl
    simp only [ScE] at hsc
    simp only [sizeE] at hex
    refine ok_op1 hpl rfl (by omega) (succs := [(pre.length + 1 + (uvEnc idx).length, s.push)]) ?_ ?_
    · simp only [flow, hsc, if_true]; rfl
    · intro e he; simp only [List.mem_singleton] at he; subst he
      rw [← hex]; congr 1; omega
  | getLocal slot pos =>
    intro pre post s hpl hsc hd _ _ hex x hx
    simp only [mapE, List.mem_singleton] at hx; subst hx
    simp only [compileE] at hpl
    simp only [ScE] at hsc
    simp only [sizeE] at hex
    refine ok_op1 hpl rfl (by omega) (succs := [(pre.length + 1 + (uvEnc slot).length, s.push)]) ?_ ?_
    · have : slot < s.d := by omega
      simp only [flow, this, if_true]; rfl
    · intro e he; simp only [List.mem_singleton] at he; subst he
      rw [← hex]; congr 1; omega
  | getField idx pos =>
    intro pre post s hpl hsc _ hb _ hex x hx
    simp only [mapE, List.mem_singleton] at hx; subst hx
    simp only [compileE] at hpl
    simp only [ScE] at hsc
    simp only [sizeE] at hex
    have hidx : idx < 2 ^ 64 := by
      obtain ⟨v, hv⟩ := hsc.1
      have := (List.getElem?_eq_some_iff.mp hv).1
      omega
    refine ok_op1 hpl rfl hidx (succs := [(pre.length + 1 + (uvEnc idx).length, s.push)]) ?_ ?_
    · have h1 := isStrConst_of hsc.1
      have h2 : 1 ≤ s.b := hb hsc.2
      simp only [flow, h1, h2, Bool.true_and, decide_true, if_true]; rfl
    · intro e he; simp only [List.mem_singleton] at he; subst he
      rw [← hex]; congr 1; omega
  | setLocal slot e pos ih =>
    intro pre post s hpl hsc hd hb hM hex x hx
    simp only [compileE] at hpl
    simp only [ScE] at hsc
    simp only [sizeE] at hex
    simp only [mapE, List.mem_append, List.mem_singleton] at hx hM
    rcases hx with hx | hx
    · exact ih pre _ s hpl.left hsc.2 hd hb (fun y hy => hM y (.inl hy)) (hM (_, _) (.inr rfl)) x hx
    · subst hx
      have hr := hpl.right
      have hlen : (pre ++ compileE e).length = pre.length + sizeE e := by simp [compileE_length]
      rw [← hlen]
      refine ok_op1 hr rfl (by omega) (succs := [((pre ++ compileE e).length + 1 + (uvEnc slot).length, s.push)]) ?_ ?_
      · have : slot < s.push.d := by rw [push_d]; omega
        simp only [flow, this, if_true]
      · intro y hy; simp only [List.mem_singleton] at hy; subst hy
        rw [← hex, hlen]; congr 1; omega
  | setField idx e pos ih =>
    intro pre post s hpl hsc hd hb hM hex x hx
    simp only [compileE] at hpl
    simp only [ScE] at hsc
    simp only [sizeE] at hex
    simp only [mapE, List.mem_append, List.mem_singleton] at hx hM
    rcases hx with hx | hx
    · exact ih pre _ s hpl.left hsc.2.2 hd hb (fun y hy => hM y (.inl hy)) (hM (_, _) (.inr rfl)) x hx
    · subst hx
      have hr := hpl.right
      have hlen : (pre ++ compileE e).length = pre.length + sizeE e := by simp [compileE_length]
      rw [← hlen]
      have hidx : idx < 2 ^ 64 := by
        obtain ⟨v, hv⟩ := hsc.1
        have := (List.getElem?_eq_some_iff.mp hv).1
        omega
      refine ok_op1 hr rfl hidx (succs := [((pre ++ compileE e).length + 1 + (uvEnc idx).length, s.push)]) ?_ ?_
      · have h1 := isStrConst_of hsc.1
        have h2 : 1 ≤ s.push.b := hb hsc.2.1
        have h3 : 1 ≤ s.push.d := by rw [push_d]; omega
        simp only [flow, h1, h2, h3, Bool.true_and, decide_true, if_true]
      · intro y hy; simp only [List.mem_singleton] at hy; subst hy
        rw [← hex, hlen]; congr 1; omega
  | un op e pos ih =>
    intro pre post s hpl hsc hd hb hM hex x hx
    simp only [compileE] at hpl
    simp only [ScE] at hsc
    simp only [sizeE] at hex
    simp only [mapE, List.mem_append, List.mem_singleton] at hx hM
    rcases hx with hx | hx
    · exact ih pre _ s hpl.left hsc hd hb (fun y hy => hM y (.inl hy)) (hM (_, _) (.inr rfl)) x hx
    · subst hx
      have hr := hpl.right
      have hlen : (pre ++ compileE e).length = pre.length + sizeE e := by simp [compileE_length]
      rw [← hlen]
      refine ok_op0 hr (by cases op <;> rfl) (succs := [((pre ++ compileE e).length + 1, s.push)]) ?_ ?_
      · have h3 : 1 ≤ s.push.d := by rw [push_d]; omega
        cases op <;> simp only [UnOp.op, flow, h3, if_true]
      · intro y hy; simp only [List.mem_singleton] at hy; subst hy
        rw [← hex, hlen]; congr 1
  | bin op a b pos iha ihb =>
    intro pre post s hpl hsc hd hb hM hex x hx
    simp only [compileE] at hpl
    simp only [ScE] at hsc
    simp only [sizeE] at hex
    simp only [mapE, List.mem_append] at hx hM
    have hla : (pre ++ compileE a).length = pre.length + sizeE a := by simp [compileE_length]
    have hlb : ((pre ++ compileE a) ++ compileE b).length = pre.length + sizeE a + sizeE b := by
      simp [compileE_length]; omega
    have hpa := hpl.left
    have hpb := hpl.right.left
    have hpo := hpl.right.right
    have hMb : M (pre.length + sizeE a) = some s.push :=
      hM (_, _) (.inr (.inl (mapE_head _ _ _ b _ _ hsc.2)))
    have hMo : M (pre.length + sizeE a + sizeE b) = some s.push.push :=
      hM (_, _) (.inr (.inr (by cases op <;> simp [opsMap, BinOp.ops, St.push])))
    rcases hx with hx | hx | hx
    · exact iha pre _ s hpa hsc.1 hd hb (fun y hy => hM y (.inl hy)) hMb x hx
    · exact ihb (pre ++ compileE a) _ s.push hpb hsc.2 (by rw [push_d]; omega) (by rw [push_b]; exact hb)
        (by rw [hla]; exact fun y hy => hM y (.inr (.inl hy))) (by rw [hla]; exact hMo) x (by rw [hla]; exact hx)
    · have h2 : 2 ≤ s.push.push.d := by simp only [push_d]; omega
      have h1 : 1 ≤ s.push.d := by simp only [push_d]; omega
      rw [← hlb] at hx hMo
      cases op
      all_goals simp only [opsMap, BinOp.ops, List.mem_cons, List.mem_singleton, List.not_mem_nil, or_false] at hx
      all_goals simp only [BinOp.ops, List.map_cons, List.map_nil, List.length_cons, List.length_nil] at hpo hex
      -- one instruction
      case eq | lt | gt | add | sub | mul | div =>
        subst hx
        exact ok_arith (by rfl) hpo h2 (by rw [push2_pop]; rw [← hex]; congr 1; omega)
      -- comparison followed by NOT
      all_goals
        have hMn : M ((pre ++ compileE a ++ compileE b).length + 1) = some s.push :=
          hM (_, _) (.inr (.inr (by rw [← hlb]; simp [opsMap, BinOp.ops, St.push])))
        have hex' : M ((pre ++ compileE a ++ compileE b).length + 2) = some s.push := by
          rw [← hex]; congr 1; omega
        have both := ok_cmp_not s (by rfl) hpo hMn hex'
        rcases hx with hx | hx
        · subst hx; exact both.1
        · subst hx; exact both.2
  | and a b pos iha ihb =>
    intro pre post s hpl hsc hd hb hM hex x hx
    simp only [compileE] at hpl
    simp only [ScE] at hsc
    simp only [sizeE] at hex
    simp only [mapE, List.mem_append, List.mem_cons, List.not_mem_nil, or_false] at hx hM
    have hla : (pre ++ compileE a).length = pre.length + sizeE a := by simp [compileE_length]
    have hpa := hpl.left
    have hpj := hpl.right.left          -- JFALSE
    have hpp := hpl.right.right.left    -- POP
    have hpb := hpl.right.right.right   -- b
    have hlj : (pre ++ compileE a ++ jumpAt .JFALSE (1 + sizeE b) pos).length = pre.length + sizeE a + 3 := by
      simp [compileE_length, jumpAt, atPos]; omega
    have hlp : (pre ++ compileE a ++ jumpAt .JFALSE (1 + sizeE b) pos ++ opAt .POP pos).length = pre.length + sizeE a + 4 := by
      simp [compileE_length, jumpAt, atPos, opAt]; omega
    have hMj : M (pre.length + sizeE a) = some s.push := hM (_, _) (.inr (.inl (.inl rfl)))
    have hMp : M (pre.length + sizeE a + 3) = some s.push := hM (_, _) (.inr (.inl (.inr rfl)))
    have hMb : M (pre.length + sizeE a + 4) = some s := hM (_, _) (.inr (.inr (mapE_head _ _ _ b _ _ hsc.2.1)))
    rcases hx with hx | (hx | hx) | hx
    · exact iha pre _ s hpa hsc.1 hd hb (fun y hy => hM y (.inl hy)) hMj x hx
    · subst hx
      rw [← hla]
      refine ok_op3 hpj rfl hsc.2.2 (succs := [((pre ++ compileE a).length + 3, s.push),
        ((pre ++ compileE a).length + 3 + (1 + sizeE b), s.push)]) ?_ ?_
      · have : 1 ≤ s.push.d := by rw [push_d]; omega
        simp only [flow, this, if_true]
      · intro y hy
        simp only [List.mem_cons, List.not_mem_nil, or_false] at hy
        rcases hy with rfl | rfl
        · rw [hla]; exact hMp
        · rw [hla, ← hex]; congr 1; omega
    · subst hx
      rw [← hlj]
      exact ok_pop hpp (by rw [push_d]; omega) (by rw [push_pop, hlj]; exact hMb)
    · exact ihb _ _ s hpb hsc.2.1 hd hb (by rw [hlp]; exact fun y hy => hM y (.inr (.inr hy)))
        (by rw [hlp, ← hex]; congr 1; omega) x (by rw [hlp]; exact hx)
  | or a b pos iha ihb =>
    intro pre post s hpl hsc hd hb hM hex x hx
    simp only [compileE] at hpl
    simp only [ScE] at hsc
    simp only [sizeE] at hex
    simp only [mapE, List.mem_append, List.mem_cons, List.not_mem_nil, or_false] at hx hM
    have hla : (pre ++ compileE a).length = pre.length + sizeE a := by simp [compileE_length]
    have hpa := hpl.left
    have hpj := hpl.right.left                  -- JFALSE 3
    have hpu := hpl.right.right.left            -- JUMP
    have hpp := hpl.right.right.right.left      -- POP
    have hpb := hpl.right.right.right.right     -- b
    have hlj : (pre ++ compileE a ++ jumpAt .JFALSE 3 pos).length = pre.length + sizeE a + 3 := by
      simp [compileE_length, jumpAt, atPos]; omega
    have hlu : (pre ++ compileE a ++ jumpAt .JFALSE 3 pos ++ jumpAt .JUMP (1 + sizeE b) pos).length
        = pre.length + sizeE a + 6 := by
      simp [compileE_length, jumpAt, atPos]; omega
    have hlp : (pre ++ compileE a ++ jumpAt .JFALSE 3 pos ++ jumpAt .JUMP (1 + sizeE b) pos ++ opAt .POP pos).length
        = pre.length + sizeE a + 7 := by
      simp [compileE_length, jumpAt, atPos, opAt]; omega
    have hMj : M (pre.length + sizeE a) = some s.push := hM (_, _) (.inr (.inl (.inl rfl)))
    have hMu : M (pre.length + sizeE a + 3) = some s.push := hM (_, _) (.inr (.inl (.inr (.inl rfl))))
    have hMp : M (pre.length + sizeE a + 6) = some s.push := hM (_, _) (.inr (.inl (.inr (.inr rfl))))
    have hMb : M (pre.length + sizeE a + 7) = some s := hM (_, _) (.inr (.inr (mapE_head _ _ _ b _ _ hsc.2.1)))
    rcases hx with hx | (hx | hx | hx) | hx
    · exact iha pre _ s hpa hsc.1 hd hb (fun y hy => hM y (.inl hy)) hMj x hx
    · subst hx
      rw [← hla]
      refine ok_op3 hpj rfl (by omega) (succs := [((pre ++ compileE a).length + 3, s.push),
        ((pre ++ compileE a).length + 3 + 3, s.push)]) ?_ ?_
      · have : 1 ≤ s.push.d := by rw [push_d]; omega
        simp only [flow, this, if_true]
      · intro y hy
        simp only [List.mem_cons, List.not_mem_nil, or_false] at hy
        rcases hy with rfl | rfl
        · rw [hla]; exact hMu
        · rw [hla]; exact hMp
    · subst hx
      rw [← hlj]
      refine ok_op3 hpu rfl hsc.2.2 (succs := [((pre ++ compileE a ++ jumpAt .JFALSE 3 pos).length + 3 + (1 + sizeE b), s.push)]) ?_ ?_
      · simp only [flow]
      · intro y hy
        simp only [List.mem_singleton] at hy
        subst hy
        rw [hlj, ← hex]; congr 1; omega
    · subst hx
      rw [← hlu]
      exact ok_pop hpp (by rw [push_d]; omega) (by rw [push_pop, hlu]; exact hMb)
    · exact ihb _ _ s hpb hsc.2.1 hd hb (by rw [hlp]; exact fun y hy => hM y (.inr (.inr hy)))
        (by rw [hlp, ← hex]; congr 1; omega) x (by rw [hlp]; exact hx)
  | bad => intro pre post s _ hsc; simp only [ScE] at hsc

end Bclv
