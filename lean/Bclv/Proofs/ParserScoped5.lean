import Bclv.Proofs.ParserScoped4
namespace Bclv

/-! ## statements: what changes, and what is promised -/

def AllInit (p : PState) : Prop := ∀ l ∈ p.locals, l.depth ≠ -1

/-- What a statement-level function may change: it may add locals of the current depth. -/
structure ExtS (p p' : PState) : Prop where
  depth : p'.depth = p.depth
  consts : p.consts.toList <+: p'.consts.toList
  err : p.hadError = true → p'.hadError = true
  stuck : p.stuck = true → p'.stuck = true
  locals : NE p' → ∃ news, p'.locals = news ++ p.locals ∧ ∀ l ∈ news, l.depth = (p.depth : Int)

theorem ExtS.refl (p : PState) : ExtS p p := ⟨rfl, List.prefix_refl _, id, id, fun _ => ⟨[], rfl, by simp⟩⟩

theorem Ext.toS {p p' : PState} (h : Ext p p') : ExtS p p' :=
  ⟨h.depth, h.consts, h.err, h.stuck, fun _ => ⟨[], by simp [h.locals], by simp⟩⟩

theorem ExtS.ne {p p' : PState} (h : ExtS p p') (hne : NE p') : NE p := by
  constructor
  · cases hh : p.hadError with
    | false => rfl
    | true => have := h.err hh; rw [hne.1] at this; cases this
  · cases hh : p.stuck with
    | false => rfl
    | true => have := h.stuck hh; rw [hne.2] at this; cases this

theorem ExtS.trans {a b c : PState} (h1 : ExtS a b) (h2 : ExtS b c) : ExtS a c := by
  refine ⟨h2.depth.trans h1.depth, h1.consts.trans h2.consts, fun h => h2.err (h1.err h), fun h => h2.stuck (h1.stuck h), ?_⟩
  intro hne
  obtain ⟨n2, hl2, hd2⟩ := h2.locals hne
  obtain ⟨n1, hl1, hd1⟩ := h1.locals (h2.ne hne)
  refine ⟨n2 ++ n1, by rw [hl2, hl1, List.append_assoc], ?_⟩
  intro l hl
  simp only [List.mem_append] at hl
  rcases hl with hl | hl
  · rw [hd2 l hl, h1.depth]
  · exact hd1 l hl

mutual
theorem ScS_mono {K K' : List Value} (h : K <+: K') : ∀ (st : Stmt) (B : Bool) (L L' : Nat), ScS K B L st L' → ScS K' B L st L'
  | .var (some e) _, B, L, L', hs => by simp only [ScS] at hs ⊢; exact ⟨ScE_mono h _ _ e hs.1, hs.2⟩
  | .var none _, B, L, L', hs => hs
  | .print e _, B, L, L', hs => by simp only [ScS] at hs ⊢; exact ⟨ScE_mono h _ _ e hs.1, hs.2⟩
  | .eval e _, B, L, L', hs => by simp only [ScS] at hs ⊢; exact ⟨ScE_mono h _ _ e hs.1, hs.2⟩
  | .block ti ni _ body npop _, B, L, L', hs => by
    simp only [ScS] at hs ⊢
    exact ⟨isStrAt_mono h hs.1, isStrAt_mono h hs.2.1, hs.2.2.1, ScSs_mono h body true L (L + npop) hs.2.2.2⟩
  | .bind ti _ _, B, L, L', hs => by simp only [ScS] at hs ⊢; exact ⟨isStrAt_mono h hs.1, hs.2⟩
  | .bad, B, L, L', hs => by simp [ScS] at hs
theorem ScSs_mono {K K' : List Value} (h : K <+: K') : ∀ (ss : Stmts) (B : Bool) (L L' : Nat), ScSs K B L ss L' → ScSs K' B L ss L'
  | .nil, B, L, L', hs => hs
  | .cons st rest, B, L, L', hs => by
    simp only [ScSs] at hs ⊢
    obtain ⟨L1, h1, h2⟩ := hs
    exact ⟨L1, ScS_mono h st B L L1 h1, ScSs_mono h rest B L1 L' h2⟩
end

/-- What the statement parsers promise, relative to the state `p0` before the statement. -/
def QS (p0 : PState) : Stmt → PState → Prop := fun st p' =>
  PI p' ∧ ExtS p0 p' ∧ AllInit p' ∧
  (NE p' → ScS p'.consts.toList (decide (p0.depth > 0)) p0.locals.length st p'.locals.length)

def QSs (p0 : PState) : Stmts → PState → Prop := fun ss p' =>
  PI p' ∧ ExtS p0 p' ∧ AllInit p' ∧
  (NE p' → ScSs p'.consts.toList (decide (p0.depth > 0)) p0.locals.length ss p'.locals.length)

theorem initCount_allInit {ls : List Local} (h : ∀ l ∈ ls, l.depth ≠ -1) : initCount ls = ls.length := by
  cases ls with
  | nil => rfl
  | cons l rest => simp [initCount, h l (by simp)]

/-! ## scope helpers -/

theorem addLocal_eq (name : Bytes) (p : PState) : addLocal name p =
    if (p.locals.length == localsMaxSize) = true then error (str "too many local variables") p
    else ((), { p with locals := { name := name, depth := -1 } :: p.locals,
                        localMax := max p.localMax (p.locals.length + 1) }) := by
  unfold addLocal
  simp only [bind, StateT.bind, get, getThe, MonadStateOf.get, StateT.get, pure]
  split <;> rfl

/-- `declVar`: either an error was raised, or a new, not yet initialised local is on top. -/
structure Decl (p p' : PState) : Prop where
  pi : PI p'
  depth : p'.depth = p.depth
  consts : p.consts.toList <+: p'.consts.toList
  err : p.hadError = true → p'.hadError = true
  stuck : p.stuck = true → p'.stuck = true
  locals : (∃ nm, p'.locals = { name := nm, depth := -1 } :: p.locals) ∨ (p'.locals = p.locals ∧ p'.hadError = true)

theorem PresR.forIn {α β : Type} (l : List α) (f : α → β → PM (ForInStep β)) (hf : ∀ a b, PresR (f a b)) :
    ∀ (init : β), PresR (forIn l init f) := by
  induction l with
  | nil => intro init; simp only [List.forIn_nil]; exact PresR.pure _
  | cons x xs ih =>
    intro init
    simp only [List.forIn_cons]
    apply PresR.bind (hf x init)
    intro r
    cases r with
    | done b => exact PresR.pure _
    | yield b => exact ih b

theorem declVar_wp (p : PState) (hpi : PI p) (hinit : AllInit p) : wp declVar (fun _ p' => Decl p p') p := by
  unfold declVar
  simp only [wp_bind, wp_get]
  apply wp_pres (PresR.forIn _ _ (by intro a b; presr) _) hpi (Ext.refl p)
  intro _ p1 hpi1 he1 _
  show Decl p (addLocal p.prev.val p1).2
  rw [addLocal_eq]
  split
  · have hx := (error_spec (str "too many local variables")).h p1 hpi1
    exact ⟨hx.1, hx.2.1.depth.trans he1.depth, he1.consts.trans hx.2.1.consts, fun h => hx.2.1.err (he1.err h),
      fun h => hx.2.1.stuck (he1.stuck h), .inr ⟨hx.2.1.locals.trans he1.locals, hx.2.2⟩⟩
  · rename_i hlen
    have hlt : p1.locals.length < 1024 := by
      have := hpi1.nloc
      simp only [localsMaxSize, beq_iff_eq] at hlen
      omega
    refine ⟨⟨hpi1.refs, hpi1.pm, ?_, ?_, by simp; omega⟩, he1.depth, he1.consts, he1.err, he1.stuck, .inl ⟨_, by rw [he1.locals]⟩⟩
    · intro l hl
      simp only [List.tail_cons] at hl
      rw [he1.locals] at hl
      exact hinit l hl
    · intro h1 h2 l hl
      simp only [List.mem_cons] at hl
      rcases hl with rfl | hl
      · simp only; omega
      · exact hpi1.depths h1 h2 l hl

/-- `markInitialized`: the newest local gets the current depth; nothing else changes. -/
structure Marked (p p' : PState) : Prop where
  pi : PI p'
  init : AllInit p'
  depth : p'.depth = p.depth
  consts : p'.consts = p.consts
  err : p'.hadError = p.hadError
  stuck : p'.stuck = p.stuck
  locals : (p.locals = [] ∧ p'.locals = []) ∨ (∃ l ls, p.locals = l :: ls ∧ p'.locals = { l with depth := (p.depth : Int) } :: ls)

theorem markInitialized_wp (p : PState) (hpi : PI p) : wp markInitialized (fun _ p' => Marked p p') p := by
  unfold markInitialized
  rw [wp_modify]
  cases hl : p.locals with
  | nil =>
    simp only [hl]
    exact ⟨hpi, by intro l h; rw [hl] at h; simp at h, rfl, rfl, rfl, rfl, .inl ⟨hl, hl⟩⟩
  | cons l ls =>
    simp only [hl]
    have htail : ∀ x ∈ ls, x.depth ≠ -1 := by
      intro x hx; have := hpi.tailInit x (by rw [hl]; exact hx); exact this
    refine ⟨⟨hpi.refs, hpi.pm, htail, ?_, by have := hpi.nloc; rw [hl] at this; exact this⟩, ?_, rfl, rfl, rfl, rfl,
      .inr ⟨l, ls, hl, rfl⟩⟩
    · intro h1 h2 x hx
      simp only [List.mem_cons] at hx
      rcases hx with rfl | hx
      · exact Int.le_refl _
      · exact hpi.depths h1 h2 x (by rw [hl]; simp [hx])
    · intro x hx
      simp only [List.mem_cons] at hx
      rcases hx with rfl | hx
      · simp only; omega
      · exact htail x hx

theorem varDecl_wp (f : Nat) (p : PState) (hpi : PI p) (hinit : AllInit p) : wp (varDecl f) (QS p) p := by
  unfold varDecl
  simp only [wp_bind, wp_get]
  apply wp_pres (consume_presR _ _) hpi (Ext.refl p)
  intro _ p1 hpi1 he1 _
  have hinit1 : AllInit p1 := by intro l hl; rw [he1.locals] at hl; exact hinit l hl
  split
  · rename_i hpm
    simp only [wp_pure]
    exact ⟨hpi1, he1.toS, hinit1, fun hne => by have := hpi1.pm hpm; rw [hne.1] at this; cases this⟩
  · simp only [wp_bind]
    apply wp_mono (declVar_wp p1 hpi1 hinit1)
    intro _ p2 hd
    -- the facts about the state after the declaration that the rest needs
    have key : ∀ (st : Stmt) (p4 p5 : PState), PI p4 → p4.locals = p2.locals → p4.depth = p2.depth →
        p2.consts.toList <+: p4.consts.toList → (p2.hadError = true → p4.hadError = true) → (p2.stuck = true → p4.stuck = true) →
        Marked p4 p5 →
        (NE p5 → ∀ nm, p2.locals = { name := nm, depth := -1 } :: p1.locals →
          ScS p5.consts.toList (decide (p.depth > 0)) p.locals.length st (p.locals.length + 1)) →
        QS p st p5 := by
      intro st p4 p5 hpi4 hl4 hd4 hc4 herr4 hst4 hm hsc
      have hne1 : NE p5 → ∃ nm, p2.locals = { name := nm, depth := -1 } :: p1.locals := by
        intro hne
        rcases hd.locals with h | ⟨_, herr⟩
        · exact h
        · have := herr4 herr; rw [← hm.err, hne.1] at this; cases this
      refine ⟨hm.pi, ⟨?_, ?_, ?_, ?_, ?_⟩, hm.init, ?_⟩
      · rw [hm.depth, hd4, hd.depth, he1.depth]
      · rw [hm.consts]; exact (he1.consts.trans hd.consts).trans hc4
      · intro h; rw [hm.err]; exact herr4 (hd.err (he1.err h))
      · intro h; rw [hm.stuck]; exact hst4 (hd.stuck (he1.stuck h))
      · intro hne
        obtain ⟨nm, hnm⟩ := hne1 hne
        rcases hm.locals with ⟨h4, _⟩ | ⟨l, ls, h4, h5⟩
        · rw [hl4, hnm] at h4; cases h4
        · rw [hl4, hnm] at h4
          obtain ⟨rfl, rfl⟩ := List.cons.inj h4
          refine ⟨[{ name := nm, depth := (p4.depth : Int) }], by rw [h5, he1.locals]; rfl, ?_⟩
          intro x hx
          simp only [List.mem_singleton] at hx
          subst hx
          simp only
          rw [hd4, hd.depth, he1.depth]
      · intro hne
        obtain ⟨nm, hnm⟩ := hne1 hne
        have hlen : p5.locals.length = p.locals.length + 1 := by
          rcases hm.locals with ⟨h4, _⟩ | ⟨l, ls, h4, h5⟩
          · rw [hl4, hnm] at h4; cases h4
          · rw [hl4, hnm] at h4
            obtain ⟨_, rfl⟩ := List.cons.inj h4
            rw [h5, he1.locals]; simp
        rw [hlen]
        exact hsc hne nm hnm
    apply wp_pres (match_presR _) hd.pi (Ext.refl p2)
    intro b p3 hpi3 he3 _
    split
    · -- with an initializer
      simp only [wp_bind, wp_pure]
      apply wp_mono (expr_scoped f p3 p3 hpi3 (Ext.refl _))
      intro e p4 hq4
      apply wp_mono (markInitialized_wp p4 hq4.1)
      intro _ p5 hm
      apply key _ p4 p5 hq4.1 (hq4.2.1.locals.trans he3.locals) (hq4.2.1.depth.trans he3.depth)
        (he3.consts.trans hq4.2.1.consts) (fun h => hq4.2.1.err (he3.err h)) (fun h => hq4.2.1.stuck (he3.stuck h)) hm
      intro hne nm hnm
      have hne4 : NE p4 := ⟨by rw [← hm.err]; exact hne.1, by rw [← hm.stuck]; exact hne.2⟩
      have hsc := hq4.2.2 hne4
      rw [he3.locals, hnm, he3.depth, hd.depth, he1.depth] at hsc
      have hL : initCount ({ name := nm, depth := -1 } :: p1.locals) = p.locals.length := by
        simp [initCount, he1.locals]
      rw [hL] at hsc
      refine ⟨by rw [hm.consts]; exact hsc, rfl, ?_⟩
      have := hm.pi.nloc
      rcases hm.locals with ⟨h4, _⟩ | ⟨l, ls, h4, h5⟩
      · rw [hq4.2.1.locals, he3.locals, hnm] at h4; cases h4
      · rw [hq4.2.1.locals, he3.locals, hnm] at h4
        obtain ⟨_, rfl⟩ := List.cons.inj h4
        rw [h5] at this
        simp only [List.length_cons] at this
        rw [he1.locals] at this
        exact this
    · -- without
      simp only [wp_bind, wp_get, wp_pure]
      apply wp_mono (markInitialized_wp p3 hpi3)
      intro _ p5 hm
      apply key _ p3 p5 hpi3 he3.locals he3.depth he3.consts he3.err he3.stuck hm
      intro hne nm hnm
      refine ⟨rfl, ?_⟩
      have := hm.pi.nloc
      rcases hm.locals with ⟨h4, _⟩ | ⟨l, ls, h4, h5⟩
      · rw [he3.locals, hnm] at h4; cases h4
      · rw [he3.locals, hnm] at h4
        obtain ⟨_, rfl⟩ := List.cons.inj h4
        rw [h5] at this
        simp only [List.length_cons] at this
        rw [he1.locals] at this
        exact this

end Bclv
