import Bclv.Model.Vm
/-!
# An executable bytecode verifier

`infer` walks the code once (the compiler only emits forward jumps) and assigns an
operand-stack depth and a block depth to every instruction boundary.  `checkMap`
then checks that assignment *locally*: for every boundary the instruction there is
well-formed under the assigned depths and every successor carries the depths that
result.  Only `checkMap` matters for soundness (`Props/C10`): `infer` is an
untrusted way of producing the certificate.
-/
namespace Bclv

/-- Depths assigned to a boundary. -/
structure St where
  d : Nat     -- operand stack depth
  b : Nat     -- block depth
  deriving DecidableEq, Repr

abbrev DepthMap := List (Nat × St)

def isStrConst (p : Prog) (idx : Nat) : Bool := (constStr p idx).isSome

/-- Successor states of an instruction under `s`, or `none` if it is ill-formed there.
`RET` has no successor. -/
def flow (p : Prog) (i : Instr) (s : St) : Option (List (Nat × St)) :=
  let nx := i.next
  match i.op with
  | .NOP => some [(nx, s)]
  | .CONST => if i.a < p.consts.length then some [(nx, { s with d := s.d + 1 })] else none
  | .ZERO | .ONE | .TRUE | .FALSE | .NIL => some [(nx, { s with d := s.d + 1 })]
  | .EQ | .LT | .GT | .ADD | .SUB | .MUL | .DIV =>
    if 2 ≤ s.d then some [(nx, { s with d := s.d - 1 })] else none
  | .NEG | .UNPLUS | .NOT => if 1 ≤ s.d then some [(nx, s)] else none
  | .JUMP => some [(nx + i.a, s)]
  | .JFALSE => if 1 ≤ s.d then some [(nx, s), (nx + i.a, s)] else none
  | .LOOP => none
  | .POP => if 1 ≤ s.d then some [(nx, { s with d := s.d - 1 })] else none
  | .POPN => if i.a ≤ s.d then some [(nx, { s with d := s.d - i.a })] else none
  | .PRINT => if 1 ≤ s.d then some [(nx, { s with d := s.d - 1 })] else none
  | .GETLOCAL => if i.a < s.d then some [(nx, { s with d := s.d + 1 })] else none
  | .SETLOCAL => if i.a < s.d then some [(nx, s)] else none
  | .DEFBLOCK =>
    if isStrConst p i.a && isStrConst p i.b then some [(nx, { s with b := s.b + 1 })] else none
  | .ENDBLOCK => if 1 ≤ s.b then some [(nx, { s with b := s.b - 1 })] else none
  | .GETFIELD => if isStrConst p i.a && 1 ≤ s.b then some [(nx, { s with d := s.d + 1 })] else none
  | .SETFIELD => if isStrConst p i.a && 1 ≤ s.b && 1 ≤ s.d then some [(nx, s)] else none
  | .BIND => if isStrConst p i.a then some [(nx, s)] else none
  | .RET => if s.d = 0 && s.b = 0 && nx = p.code.length then some [] else none

/-- The local check: offset 0 is a boundary at depth 0/0; every boundary decodes,
has a source position for each of its bytes, and flows into boundaries that carry
the resulting depths. -/
def checkMap (p : Prog) (m : DepthMap) : Bool :=
  m.lookup 0 == some ⟨0, 0⟩
  && p.positions.length == p.code.length
  && m.all (fun (pc, s) =>
      match decodeAt p pc with
      | none => false
      | some i =>
        i.next ≤ p.code.length &&
        match flow p i s with
        | none => false
        | some succs => succs.all (fun (pc', s') => m.lookup pc' == some s'))

/-- Single forward pass computing the map (pending jump targets are merged when
reached).  Returns `none` when depths disagree at a join, code is unreachable or
runs off the end. -/
def inferLoop (p : Prog) : Nat → Nat → Option St → List (Nat × St) → DepthMap → Option DepthMap
  | 0, _, _, _, _ => none
  | f+1, pc, cur, pending, acc =>
    if pc ≥ p.code.length then
      if pc = p.code.length && cur.isNone && pending.isEmpty then some acc.reverse else none
    else
      -- merge pending jump targets that land here
      let here := pending.filter (fun e => e.1 == pc)
      let pending := pending.filter (fun e => e.1 != pc)
      let cur? : Option (Option St) :=
        here.foldl (fun acc e => match acc with
          | none => none
          | some none => some (some e.2)
          | some (some s) => if s = e.2 then some (some s) else none) (some cur)
      match cur? with
      | none | some none => none
      | some (some s) =>
        match decodeAt p pc with
        | none => none
        | some i =>
          match flow p i s with
          | none => none
          | some succs =>
            let fall := succs.find? (fun e => e.1 == i.next)
            let jumps := succs.filter (fun e => e.1 != i.next)
            if jumps.any (fun e => e.1 ≤ pc) then none else
            inferLoop p f i.next (fall.map (·.2)) (jumps ++ pending) ((pc, s) :: acc)

def infer (p : Prog) : Option DepthMap :=
  inferLoop p (p.code.length + 1) 0 (some ⟨0, 0⟩) [] []

structure VerifyOk where
  maxDepth : Nat
  maxBlocks : Nat
  instrs : Nat
  deriving Repr

/-- The verifier: infer the certificate, then check it. -/
def verify (p : Prog) : Option VerifyOk :=
  match infer p with
  | none => none
  | some m =>
    if checkMap p m then
      -- depth after a push can exceed the depth before by one
      some { maxDepth := m.foldl (fun a e => max a (e.2.d + 1)) 0,
             maxBlocks := m.foldl (fun a e => max a (e.2.b + 1)) 0, instrs := m.length }
    else none

end Bclv
