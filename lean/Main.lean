import Bclv.Model.Api
import Bclv.Spec.Sem
import Bclv.Verifier
import Bclv.Model.Args
import Bclv.Model.ProtoRun
import Bclv.Model.BindWire
import Bclv.Model.Scoped
import Bclv.Model.Bufio
import Bclv.Model.DumpW
/-!
# Line-protocol driver: one operation per input line, one result line per operation.
All payloads are hexadecimal.
-/
open Bclv Bclv.Buf

def hexDigit (n : Nat) : Char := if n < 10 then Char.ofNat (48 + n) else Char.ofNat (87 + n)

def toHex (bs : Bytes) : String :=
  String.ofList (bs.foldr (fun b acc => hexDigit (b.toNat / 16) :: hexDigit (b.toNat % 16) :: acc) [])

def hexVal (c : Char) : Nat :=
  let n := c.toNat
  if 48 ≤ n && n ≤ 57 then n - 48 else if 97 ≤ n && n ≤ 102 then n - 87 else if 65 ≤ n && n ≤ 70 then n - 55 else 0

def fromHexChars : List Char → Bytes
  | a :: b :: rest => UInt8.ofNat (hexVal a * 16 + hexVal b) :: fromHexChars rest
  | _ => []

def fromHex (s : String) : Bytes := if s == "-" then [] else fromHexChars s.toList

def hexOrDash (bs : Bytes) : String := if bs.isEmpty then "-" else toHex bs

def fmtFloatBits (b : UInt64) : String :=
  let n := b.toNat
  if n / 2 ^ 52 % 2048 == 2047 && n % 2 ^ 52 != 0 then "NaN" else toString n

def fmtVal : Value → String
  | .nil => "n"
  | .bool b => if b then "b1" else "b0"
  | .int i => "i" ++ toString i.toInt
  | .float b => "f" ++ fmtFloatBits b
  | .str s => "s" ++ toHex s

mutual
partial def fmtBlock (b : Block) : String :=
  "B(" ++ hexOrDash b.typ ++ "," ++ hexOrDash b.name ++ ",[" ++ ";".intercalate (fmtFields b.fields) ++ "])"
partial def fieldList : Fields → List (Bytes × String)
  | .nil => []
  | .val k v rest => (k, fmtVal v) :: fieldList rest
  | .child k b rest => (k, fmtBlock b) :: fieldList rest
partial def fmtFields (f : Fields) : List String :=
  let l := (fieldList f).toArray.qsort (fun a b => bytesLt a.1 b.1)
  l.toList.map (fun (k, v) => hexOrDash k ++ "=" ++ v)
end

def fmtBinding : Option Binding → String
  | none => "nil"
  | some (.struct b) => "struct:" ++ fmtBlock b
  | some (.slice bs) => "slice:" ++ "+".intercalate (bs.map fmtBlock)

def fmtTok (t : Token) : String :=
  s!"{t.typ.name}:{hexOrDash t.val}:{hexOrDash t.err}:{t.pos}"

def natList (l : List Nat) : String := ",".intercalate (l.map toString)

def fmtProg (p : Prog) : String :=
  s!"name={hexOrDash p.name} code={hexOrDash p.code} consts={",".intercalate (p.consts.map fmtVal)} pos={natList p.positions} lfs={natList p.lfs}"

def outBytes (evs : List OutEv) : Bytes :=
  (evs.reverse.map (fun e => match e with | .print l => l | .trace t => t)).flatten

def runOp (words : List String) : String :=
  match words with
  | ["LEX", chunks] =>
    let cs := (chunks.splitOn ",").map fromHex
    let (toks, lfs) := lexChunks cs
    " ".intercalate (toks.map fmtTok) ++ " | " ++ natList lfs
  | ["LEXW", src] =>
    let input := fromHex src
    " ".intercalate ((lexWhole input).map fmtTok) ++ " | " ++ natList (newlinesFrom 0 input)
  | ["PARSE", name, src, wantDisasm] =>
    let c := parseWhole (fromHex name) (fromHex src)
    if c.stuck then "STUCK" else
    let dis := if c.ok && wantDisasm == "1" then
        (match disasm c.prog with | some t => hexOrDash t | none => "PANIC") else "-"
    if c.ok then s!"ok=1 dump={toHex (dump c.prog)} log={hexOrDash c.log} pstats={natList c.pstats} disasm={dis}"
    else s!"ok=0 log={hexOrDash c.log} pstats={natList c.pstats}"
  | ["PARSEC", name, chunks] =>
    let cs := (chunks.splitOn ",").map fromHex
    let c := parseChunks (fromHex name) cs
    if c.stuck then "STUCK" else
    if c.ok then s!"ok=1 dump={toHex (dump c.prog)} log={hexOrDash c.log} pstats={natList c.pstats}"
    else s!"ok=0 log={hexOrDash c.log} pstats={natList c.pstats}"
  | ["RUN", dumpHex, trace] =>
    match load (fromHex dumpHex) with
    | .ok p =>
      let r := execute p (trace == "1") 10000000
      let show_ (tag : String) (vm : VM) (h : Halt) : String :=
        let e := match h.err with | some m => toHex m | none => "-"
        s!"{tag} err={e} out={hexOrDash (outBytes vm.out)} log={hexOrDash vm.log.reverse.flatten} blocks={"+".intercalate (vm.result.map fmtBlock)} binding={fmtBinding vm.binding} xstats={vm.tosMax},{vm.blockTosMax},{vm.opsRead},{vm.pc}"
      match r with
      | .done vm err => show_ "done" vm err
      | .panic _ => "panic"
      | .timeout _ => "timeout"
    | .err m => "loaderr " ++ m
    | .panic => "loadpanic"
  | ["INTERP", src] =>
    -- end to end, as `Interpret` does: parse, and if accepted execute
    let c := parseWhole (str "input") (fromHex src)
    if c.stuck then "STUCK" else
    if !c.ok then s!"rejected log={hexOrDash c.log}" else
    match execute c.prog false 10000000 with
    | .done vm h =>
      let e := match h.err with | some m => toHex m | none => "-"
      s!"accepted log={hexOrDash (c.log ++ vm.log.reverse.flatten)} err={e} out={hexOrDash (outBytes vm.out)} blocks={"+".intercalate (vm.result.map fmtBlock)} binding={fmtBinding vm.binding}"
    | .panic _ => "panic"
    | .timeout _ => "timeout"
  | ["SEM", src] =>
    -- the same, by the big-step evaluator of Spec/Sem.lean (the language definition) on the parser's tree
    let input := fromHex src
    let c := parseWhole (str "input") input
    if c.stuck then "STUCK" else
    if !c.ok then s!"rejected log={hexOrDash c.log}" else
    let r := parseTokens (lexWhole input) (newlinesFrom 0 input)
    match evalP c.prog r.prog with
    | .ok s =>
      let e := if s.stack.isEmpty then "-" else toHex (str "internal error: non-empty stack on prog end; tos=" ++ natDec s.stack.length)
      s!"accepted log={hexOrDash (c.log ++ s.log.reverse.flatten)} err={e} out={hexOrDash (outBytes s.out)} blocks={"+".intercalate (s.result.map fmtBlock)} binding={fmtBinding s.binding}"
    | .err pos msg => "err " ++ toHex (rtText c.prog pos msg)
    | .wrong => "wrong"
  | ["WF", hex] =>
    match load (fromHex hex) with
    | .ok p => (match verify p with
        | some v => s!"ok {v.maxDepth} {v.maxBlocks} {v.instrs}"
        | none => "reject")
    | .err m => "loaderr " ++ m
    | .panic => "loadpanic"
  | ["PROTO", cap, name, items] =>
    let parseItem (t : String) : Bclv.Proto.Item :=
      if t == "z" then .zero else if t == "E" then .eof else if t == "X" then .err
      else if t.startsWith "d" then .data (fromHex (t.drop 1).toString)
      else .dataEof (fromHex (t.drop 1).toString)
    let its := if items == "-" then [] else (items.splitOn ",").map parseItem
    Bclv.Proto.protoAnswer cap.toNat! (fromHex name) its
  | ["SCOPED", src] =>
    let input := fromHex src
    let r := parseTokens (lexWhole input) (newlinesFrom 0 input)
    if !r.ok then "rejected" else
    s!"scoped={if scP r.consts r.prog then 1 else 0} consts={r.consts.length}"
  | ["BIND", payload] => Bclv.Bind.bindAnswer payload
  | ["ARGS", argv] =>
    let args : List Bclv.Args.Arg := if argv == "-" then [] else
      (argv.splitOn ",").map (fun h => (fromHex h).map (fun b => Char.ofNat b.toNat))
    let showP (p : Bclv.Args.Parsed) (help : Bool) : String :=
      let hx (a : Bclv.Args.Arg) : String := hexOrDash (a.map (fun c => UInt8.ofNat c.toNat))
      let b (x : Bool) : String := if x then "1" else "0"
      s!"file={hx p.file} disasm={b p.disasm} trace={b p.trace} result={b p.result} stats={b p.stats} bdump={b p.bdump} bload={b p.bload} bdumpFile={hx p.bdumpFile} bloadFile={hx p.bloadFile} help={b help}"
    match Bclv.Args.parseArgs args with
    | .ok p => showP p false
    | .help p => showP p true
    | .usage _ => "usage-error"
  | ["LOAD", hex] =>
    match load (fromHex hex) with
    | .ok p => "ok " ++ fmtProg p
    | .err m => "err " ++ m
    | .panic => "panic"
  | ["DUMPW", hex] =>
    -- the sizes of the writes Dump hands to its destination (through the buffered writer)
    match load (fromHex hex) with
    | .ok p => (match dumpW p with
        | some ws => "ok " ++ natList (ws.map List.length) ++ (if ws.flatten == dump p then " same" else " DIFFERENT")
        | none => "panic")
    | .err m => "loaderr " ++ m
    | .panic => "loadpanic"
  | ["LOADC", chunks] =>
    -- Load through the model of the 4096-byte buffered reader, one piece per read
    let cs := if chunks == "." then [] else (chunks.splitOn ",").map fromHex
    match loadR cs with
    | .ok p => "ok " ++ fmtProg p
    | .err m => "err " ++ m
    | .panic => "panic"
  | ["DISASM", hex] =>
    match load (fromHex hex) with
    | .ok p => (match disasm p with | some t => "ok " ++ hexOrDash t | none => "panic")
    | .err m => "loaderr " ++ m
    | .panic => "loadpanic"
  | ["LINECOL", lfs, pos] =>
    let l := if lfs == "-" then [] else (lfs.splitOn ",").map String.toNat!
    let (a, b) := lineColAt l pos.toNat!
    s!"{a}:{b}"
  | ["UVENC", x] => toHex (uvEnc x.toNat!)
  | ["UVDEC", hex] =>
    match uvDec (fromHex hex) with
    | some (x, rest) => s!"{x} {rest.length}"
    | none => "short"
  | ["FMTV", bits] => toHex (formatFloatV (UInt64.ofNat bits.toNat!))
  | ["FMTF", bits] => toHex (formatFloatF (UInt64.ofNat bits.toNat!))
  | ["PARSEF", hex] =>
    match parseFloatLit (fromHex hex) with
    | some b => toString b.toNat
    | none => "err"
  | ["PARSEI", hex] =>
    match parseIntLit (fromHex hex) with
    | some n => toString n
    | none => "err"
  | ["UNQUOTE", hex] =>
    match unquote (fromHex hex) with
    | some b => "ok " ++ hexOrDash b
    | none => "err"
  | _ => "bad-op"

partial def loop (hIn hOut : IO.FS.Stream) : IO Unit := do
  let line ← hIn.getLine
  if line.isEmpty then return ()
  let words := (line.trimAscii.toString.splitOn " ").filter (· ≠ "")
  hOut.putStrLn (runOp words)
  hOut.flush
  loop hIn hOut

def main : IO Unit := do
  let hIn ← IO.getStdin
  let hOut ← IO.getStdout
  loop hIn hOut
  hOut.flush
