import Bclv.Basic
import Bclv.Model.Varint
import Bclv.Model.Value
import Bclv.Model.Prog
import Bclv.Model.LineCalc
