package main

import (
	"bytes"
	"fmt"
	"go/ast"
	"go/build/constraint"
	"go/parser"
	"go/printer"
	"go/token"
	"os"
	"path/filepath"
	"sort"
	"strconv"
	"strings"
)

// pkg is the parsed root package of the repository (non-test files whose
// build constraint holds without extra tags), indexed for the extractors.
type pkg struct {
	root  string
	fset  *token.FileSet
	names []string // file base names, sorted
	files map[string]*ast.File

	consts map[string]*constDef
	blocks []*constBlock
	funcs  map[string][]*ast.FuncDecl // "name" or "Recv.name"
	types  map[string]*ast.TypeSpec
	vars   map[string][]pkgVar
}

type pkgVar struct {
	name  *ast.Ident
	value ast.Expr // nil if no initializer
}

type constDef struct {
	name  string
	expr  ast.Expr // nil if the block's first spec had no value (invalid Go)
	iota  int64
	typ   string // declared or inherited type identifier, "" if untyped
	ident *ast.Ident
	block *constBlock

	state int // 0 new, 1 in progress, 2 done
	val   cval
	err   error
}

type constBlock struct {
	decl *ast.GenDecl
	typ  string // type identifier of the first spec, "" if none
	defs []*constDef
}

// cval is a constant value: an integer or a string.
type cval struct {
	isStr bool
	i     int64
	s     string
}

func loadPkg(root string) (*pkg, []string, error) {
	ents, err := os.ReadDir(root)
	if err != nil {
		return nil, nil, err
	}
	p := &pkg{
		root:   root,
		fset:   token.NewFileSet(),
		files:  map[string]*ast.File{},
		consts: map[string]*constDef{},
		funcs:  map[string][]*ast.FuncDecl{},
		types:  map[string]*ast.TypeSpec{},
		vars:   map[string][]pkgVar{},
	}
	var warns []string
	for _, e := range ents {
		n := e.Name()
		if e.IsDir() || !strings.HasSuffix(n, ".go") || strings.HasSuffix(n, "_test.go") {
			continue
		}
		p.names = append(p.names, n)
	}
	sort.Strings(p.names)
	var kept []string
	for _, n := range p.names {
		src, err := os.ReadFile(filepath.Join(root, n))
		if err != nil {
			warns = append(warns, fmt.Sprintf("file %s unreadable: %v", n, err))
			continue
		}
		if !buildOK(src) {
			continue
		}
		// The file name registered in the file set is the repo-relative one,
		// so that positions print deterministically.
		f, err := parser.ParseFile(p.fset, n, src, parser.ParseComments|parser.SkipObjectResolution)
		if f == nil || err != nil {
			// A partial AST could make a fact look unchanged; drop the file so
			// that every fact that depends on it becomes a placeholder.
			warns = append(warns, fmt.Sprintf("file %s skipped, syntax errors: %v", n, err))
			continue
		}
		p.files[n] = f
		kept = append(kept, n)
	}
	p.names = kept
	if len(p.names) == 0 {
		return nil, warns, fmt.Errorf("no parsable Go files in %s", root)
	}
	p.index()
	return p, warns, nil
}

// buildOK evaluates a //go:build line (if any) with the default tag set.
func buildOK(src []byte) bool {
	for _, line := range strings.Split(string(src), "\n") {
		t := strings.TrimSpace(line)
		if strings.HasPrefix(t, "package ") {
			break
		}
		if constraint.IsGoBuild(t) {
			x, err := constraint.Parse(t)
			if err != nil {
				return true
			}
			return x.Eval(func(tag string) bool {
				switch tag {
				case "linux", "unix", "amd64", "gc":
					return true
				}
				return strings.HasPrefix(tag, "go1.")
			})
		}
	}
	return true
}

func (p *pkg) index() {
	for _, n := range p.names {
		f := p.files[n]
		for _, d := range f.Decls {
			switch d := d.(type) {
			case *ast.FuncDecl:
				key := d.Name.Name
				if d.Recv != nil && len(d.Recv.List) == 1 {
					key = recvTypeName(d.Recv.List[0].Type) + "." + key
				}
				p.funcs[key] = append(p.funcs[key], d)
			case *ast.GenDecl:
				switch d.Tok {
				case token.TYPE:
					for _, s := range d.Specs {
						if ts, ok := s.(*ast.TypeSpec); ok {
							p.types[ts.Name.Name] = ts
						}
					}
				case token.VAR:
					for _, s := range d.Specs {
						vs, ok := s.(*ast.ValueSpec)
						if !ok {
							continue
						}
						for i, id := range vs.Names {
							var v ast.Expr
							if len(vs.Values) == len(vs.Names) {
								v = vs.Values[i]
							}
							p.vars[id.Name] = append(p.vars[id.Name], pkgVar{id, v})
						}
					}
				case token.CONST:
					p.indexConstBlock(d)
				}
			}
		}
	}
}

func recvTypeName(e ast.Expr) string {
	switch e := e.(type) {
	case *ast.StarExpr:
		return recvTypeName(e.X)
	case *ast.Ident:
		return e.Name
	case *ast.IndexExpr:
		return recvTypeName(e.X)
	}
	return "?"
}

func (p *pkg) indexConstBlock(d *ast.GenDecl) {
	b := &constBlock{decl: d}
	var curVals []ast.Expr
	var curTyp string
	for i, s := range d.Specs {
		vs, ok := s.(*ast.ValueSpec)
		if !ok {
			continue
		}
		if len(vs.Values) > 0 || vs.Type != nil {
			// a spec with a type or values starts a new implicit-repetition group
			curVals = vs.Values
			curTyp = ""
			if id, ok := vs.Type.(*ast.Ident); ok {
				curTyp = id.Name
			} else if vs.Type != nil {
				curTyp = "?"
			}
		}
		if i == 0 {
			b.typ = curTyp
		}
		for j, id := range vs.Names {
			def := &constDef{name: id.Name, iota: int64(i), typ: curTyp, ident: id, block: b}
			if j < len(curVals) {
				def.expr = curVals[j]
			}
			b.defs = append(b.defs, def)
			if id.Name != "_" {
				if _, dup := p.consts[id.Name]; !dup {
					p.consts[id.Name] = def
				}
			}
		}
	}
	p.blocks = append(p.blocks, b)
}

// pos renders a position as "file.go:line".
func (p *pkg) pos(n ast.Node) string {
	if n == nil {
		return "?"
	}
	ps := p.fset.Position(n.Pos())
	return fmt.Sprintf("%s:%d", ps.Filename, ps.Line)
}

// src renders a node as Go source text on one line.
func (p *pkg) src(n ast.Node) string {
	var b bytes.Buffer
	if err := printer.Fprint(&b, p.fset, n); err != nil {
		return "<unprintable>"
	}
	return strings.Join(strings.Fields(b.String()), " ")
}

// ---- constant evaluation ----

func (p *pkg) constVal(name string) (cval, *constDef, error) {
	d, ok := p.consts[name]
	if !ok {
		return cval{}, nil, fmt.Errorf("constant %s not found", name)
	}
	switch d.state {
	case 2:
		return d.val, d, d.err
	case 1:
		return cval{}, d, fmt.Errorf("constant %s: cyclic definition", name)
	}
	d.state = 1
	if d.expr == nil {
		d.err = fmt.Errorf("constant %s has no value expression", name)
	} else {
		d.val, d.err = p.eval(d.expr, d.iota, true)
		if d.err != nil {
			d.err = fmt.Errorf("constant %s: %w", name, d.err)
		}
	}
	d.state = 2
	return d.val, d, d.err
}

func (p *pkg) constInt(name string) (int64, *constDef, error) {
	v, d, err := p.constVal(name)
	if err != nil {
		return 0, d, err
	}
	if v.isStr {
		return 0, d, fmt.Errorf("constant %s is a string, integer expected", name)
	}
	return v.i, d, nil
}

var basicTypes = map[string]bool{
	"int": true, "int8": true, "int16": true, "int32": true, "int64": true,
	"uint": true, "uint8": true, "uint16": true, "uint32": true, "uint64": true, "uintptr": true,
	"byte": true, "rune": true,
}

// eval evaluates a constant expression. inConst says whether iota is defined.
func (p *pkg) eval(e ast.Expr, iota int64, inConst bool) (cval, error) {
	switch e := e.(type) {
	case *ast.BasicLit:
		switch e.Kind {
		case token.INT:
			i, err := strconv.ParseInt(e.Value, 0, 64)
			if err != nil {
				return cval{}, fmt.Errorf("integer literal %s: %v", e.Value, err)
			}
			return cval{i: i}, nil
		case token.CHAR:
			s, err := strconv.Unquote(e.Value)
			if err != nil {
				return cval{}, fmt.Errorf("rune literal %s: %v", e.Value, err)
			}
			r := []rune(s)
			if len(r) != 1 {
				return cval{}, fmt.Errorf("rune literal %s: not one rune", e.Value)
			}
			return cval{i: int64(r[0])}, nil
		case token.STRING:
			s, err := strconv.Unquote(e.Value)
			if err != nil {
				return cval{}, fmt.Errorf("string literal %s: %v", e.Value, err)
			}
			return cval{isStr: true, s: s}, nil
		}
		return cval{}, fmt.Errorf("unsupported literal %s", e.Value)
	case *ast.Ident:
		if e.Name == "iota" {
			if !inConst {
				return cval{}, fmt.Errorf("iota outside a const declaration")
			}
			return cval{i: iota}, nil
		}
		v, _, err := p.constVal(e.Name)
		return v, err
	case *ast.ParenExpr:
		return p.eval(e.X, iota, inConst)
	case *ast.UnaryExpr:
		v, err := p.eval(e.X, iota, inConst)
		if err != nil {
			return v, err
		}
		if v.isStr {
			return v, fmt.Errorf("unary %s on a string", e.Op)
		}
		switch e.Op {
		case token.ADD:
			return v, nil
		case token.SUB:
			return cval{i: -v.i}, nil
		case token.XOR:
			return cval{i: ^v.i}, nil
		}
		return v, fmt.Errorf("unsupported unary operator %s", e.Op)
	case *ast.BinaryExpr:
		a, err := p.eval(e.X, iota, inConst)
		if err != nil {
			return a, err
		}
		b, err := p.eval(e.Y, iota, inConst)
		if err != nil {
			return b, err
		}
		if a.isStr || b.isStr {
			if a.isStr && b.isStr && e.Op == token.ADD {
				return cval{isStr: true, s: a.s + b.s}, nil
			}
			return a, fmt.Errorf("unsupported string operation %s", e.Op)
		}
		switch e.Op {
		case token.ADD:
			return cval{i: a.i + b.i}, nil
		case token.SUB:
			return cval{i: a.i - b.i}, nil
		case token.MUL:
			return cval{i: a.i * b.i}, nil
		case token.QUO:
			if b.i == 0 {
				return a, fmt.Errorf("division by zero")
			}
			return cval{i: a.i / b.i}, nil
		case token.REM:
			if b.i == 0 {
				return a, fmt.Errorf("division by zero")
			}
			return cval{i: a.i % b.i}, nil
		case token.SHL:
			if b.i < 0 || b.i > 62 {
				return a, fmt.Errorf("shift count %d out of range", b.i)
			}
			return cval{i: a.i << uint(b.i)}, nil
		case token.SHR:
			if b.i < 0 || b.i > 63 {
				return a, fmt.Errorf("shift count %d out of range", b.i)
			}
			return cval{i: a.i >> uint(b.i)}, nil
		case token.AND:
			return cval{i: a.i & b.i}, nil
		case token.OR:
			return cval{i: a.i | b.i}, nil
		case token.XOR:
			return cval{i: a.i ^ b.i}, nil
		case token.AND_NOT:
			return cval{i: a.i &^ b.i}, nil
		}
		return a, fmt.Errorf("unsupported binary operator %s", e.Op)
	case *ast.CallExpr:
		// conversion T(x) to an integer type, or len("const string")
		id, ok := e.Fun.(*ast.Ident)
		if !ok || len(e.Args) != 1 {
			return cval{}, fmt.Errorf("unsupported call %s", p.src(e))
		}
		v, err := p.eval(e.Args[0], iota, inConst)
		if err != nil {
			return v, err
		}
		if id.Name == "len" {
			if !v.isStr {
				return v, fmt.Errorf("len of a non-string constant")
			}
			return cval{i: int64(len(v.s))}, nil
		}
		_, declared := p.types[id.Name]
		if basicTypes[id.Name] || declared {
			if v.isStr {
				return v, fmt.Errorf("conversion of a string constant to %s", id.Name)
			}
			return v, nil
		}
		if id.Name == "string" && v.isStr {
			return v, nil
		}
		return v, fmt.Errorf("unsupported call %s", p.src(e))
	}
	return cval{}, fmt.Errorf("unsupported constant expression %s", p.src(e))
}

// ---- lookups ----

// constBlockOfType finds the unique package-level const block whose first
// spec is declared with the given type identifier.
func (p *pkg) constBlockOfType(typ string) (*constBlock, error) {
	var found []*constBlock
	for _, b := range p.blocks {
		if b.typ == typ {
			found = append(found, b)
		}
	}
	switch len(found) {
	case 0:
		return nil, fmt.Errorf("no const block of type %s", typ)
	case 1:
		return found[0], nil
	}
	return nil, fmt.Errorf("%d const blocks of type %s, expected one", len(found), typ)
}

func (p *pkg) oneFunc(key string) (*ast.FuncDecl, error) {
	fs := p.funcs[key]
	switch len(fs) {
	case 0:
		return nil, fmt.Errorf("func %s not found", key)
	case 1:
		if fs[0].Body == nil {
			return nil, fmt.Errorf("func %s has no body", key)
		}
		return fs[0], nil
	}
	return nil, fmt.Errorf("func %s declared %d times", key, len(fs))
}

func (p *pkg) oneVar(name string) (pkgVar, error) {
	vs := p.vars[name]
	switch len(vs) {
	case 0:
		return pkgVar{}, fmt.Errorf("package var %s not found", name)
	case 1:
		return vs[0], nil
	}
	return pkgVar{}, fmt.Errorf("package var %s declared %d times", name, len(vs))
}

// structFields returns the field names and type identifiers of a struct type.
func (p *pkg) structFields(typ string) (names, types []string, err error) {
	ts, ok := p.types[typ]
	if !ok {
		return nil, nil, fmt.Errorf("type %s not found", typ)
	}
	st, ok := ts.Type.(*ast.StructType)
	if !ok {
		return nil, nil, fmt.Errorf("type %s is not a struct", typ)
	}
	for _, f := range st.Fields.List {
		t := "?"
		if id, ok := f.Type.(*ast.Ident); ok {
			t = id.Name
		}
		if len(f.Names) == 0 {
			names = append(names, t)
			types = append(types, t)
		}
		for _, n := range f.Names {
			names = append(names, n.Name)
			types = append(types, t)
		}
	}
	return names, types, nil
}
