package main

import (
	"fmt"
	"strings"
)

// Rendering of Lean 4 terms.  Every value is rendered in one canonical way so
// that the output is byte-for-byte deterministic.

func leanStr(s string) string {
	var b strings.Builder
	b.WriteByte('"')
	for _, r := range s {
		switch {
		case r == '"':
			b.WriteString(`\"`)
		case r == '\\':
			b.WriteString(`\\`)
		case r == '\n':
			b.WriteString(`\n`)
		case r == '\t':
			b.WriteString(`\t`)
		case r == '\r':
			b.WriteString(`\r`)
		case r < 0x20 || r == 0x7f:
			fmt.Fprintf(&b, `\x%02x`, r)
		default:
			b.WriteRune(r)
		}
	}
	b.WriteByte('"')
	return b.String()
}

func leanNat(i int64) (string, error) {
	if i < 0 {
		return "0", fmt.Errorf("negative value %d where a Nat is expected", i)
	}
	return fmt.Sprintf("%d", i), nil
}

func leanNatList(xs []int64) (string, error) {
	parts := make([]string, len(xs))
	for i, x := range xs {
		s, err := leanNat(x)
		if err != nil {
			return "[]", err
		}
		parts[i] = s
	}
	return "[" + strings.Join(parts, ", ") + "]", nil
}

func leanStrList(xs []string) string {
	parts := make([]string, len(xs))
	for i, x := range xs {
		parts[i] = leanStr(x)
	}
	return "[" + strings.Join(parts, ", ") + "]"
}

// leanRows renders a list with one already-rendered element per line.
func leanRows(rows []string) string {
	if len(rows) == 0 {
		return "[]"
	}
	return "[" + strings.Join(rows, ",\n   ") + "]"
}

func tuple(parts ...string) string { return "(" + strings.Join(parts, ", ") + ")" }
