module bclx

go 1.21
