// Command bclx extracts tables of facts from the Go sources of wkhere/bcl and
// writes them as Lean 4 definitions (namespace Bclv.Gen), to be compared with
// the frozen tables in Bclv/Spec/Tables.lean by the theorems in
// Bclv/Tie/Tables.lean.
//
// usage: bclx -repo /repo -out /verif/lean/Bclv/Gen/Tables.lean
package main

import (
	"bytes"
	"errors"
	"flag"
	"fmt"
	"os"
	"path/filepath"
)

func main() {
	repo := flag.String("repo", "/repo", "root of the bcl working tree")
	out := flag.String("out", "/verif/lean/Bclv/Gen/Tables.lean", "Lean file to write")
	flag.Parse()
	if flag.NArg() != 0 {
		fmt.Fprintln(os.Stderr, "usage: bclx -repo DIR -out FILE")
		os.Exit(2)
	}

	// never leave a stale table behind, whatever happens next
	if err := os.Remove(*out); err != nil && !os.IsNotExist(err) {
		fmt.Fprintf(os.Stderr, "bclx: cannot remove %s: %v\n", *out, err)
		os.Exit(1)
	}

	p, warns, err := loadPkg(*repo)
	for _, w := range warns {
		fmt.Fprintf(os.Stderr, "bclx: WARNING %s\n", w)
	}
	if err != nil {
		fmt.Fprintf(os.Stderr, "bclx: cannot parse repo: %v\n", err)
		os.Exit(1)
	}

	var b bytes.Buffer
	b.WriteString("/-!\n# Tables extracted from the Go sources by `bclx` -- GENERATED, DO NOT EDIT\n\n")
	b.WriteString("Regenerate with `bclx -repo <repo> -out Bclv/Gen/Tables.lean`.  Each definition has the\n")
	b.WriteString("type and ordering of the definition of the same name in `Bclv.Spec`; `Bclv/Tie/Tables.lean`\n")
	b.WriteString("proves them equal.  A fact that could not be extracted is an empty/zero placeholder.\n-/\n")
	b.WriteString("namespace Bclv.Gen\n")
	failed := 0
	for _, f := range facts {
		term, src, err := runFact(f, p)
		var soft *softError
		switch {
		case err == nil:
		case errors.As(err, &soft) && term != "":
			failed++
			fmt.Fprintf(os.Stderr, "bclx: WARNING fact %s not extracted: %v\n", f.name, err)
		default:
			failed++
			fmt.Fprintf(os.Stderr, "bclx: WARNING fact %s not extracted: %v\n", f.name, err)
			term = f.placeholder
			if src == "" {
				src = "?"
			}
			src += " (NOT EXTRACTED, placeholder)"
		}
		fmt.Fprintf(&b, "\n/- source: %s -/\n", src)
		fmt.Fprintf(&b, "def %s : %s :=\n  %s\n", f.name, f.leanType, term)
	}
	b.WriteString("\nend Bclv.Gen\n")

	if err := os.MkdirAll(filepath.Dir(*out), 0o755); err != nil {
		fmt.Fprintf(os.Stderr, "bclx: %v\n", err)
		os.Exit(1)
	}
	tmp := *out + ".tmp"
	if err := os.WriteFile(tmp, b.Bytes(), 0o644); err != nil {
		fmt.Fprintf(os.Stderr, "bclx: %v\n", err)
		os.Exit(1)
	}
	if err := os.Rename(tmp, *out); err != nil {
		fmt.Fprintf(os.Stderr, "bclx: %v\n", err)
		os.Exit(1)
	}
	fmt.Fprintf(os.Stderr, "bclx: wrote %s: %d facts, %d not extracted\n", *out, len(facts), failed)
}

// runFact runs one extractor, turning a panic into an error so that one
// unexpected AST shape cannot lose the other facts.
func runFact(f fact, p *pkg) (term, src string, err error) {
	defer func() {
		if r := recover(); r != nil {
			term, err = "", fmt.Errorf("internal error: %v", r)
		}
	}()
	return f.extract(p)
}
