package main

// Access tables for C12: who touches the data that goroutines share.

import (
	"fmt"
	"go/ast"
	"go/token"
	"sort"
	"strings"
)

// lockedAtEntry: the body starts with `X.mu.Lock()` followed by `defer X.mu.Unlock()`.
func lockedAtEntry(p *pkg, fn *ast.FuncDecl) bool {
	if fn.Body == nil || len(fn.Body.List) < 2 {
		return false
	}
	es, ok := fn.Body.List[0].(*ast.ExprStmt)
	if !ok {
		return false
	}
	lock := p.src(es.X)
	if !strings.HasSuffix(lock, ".mu.Lock()") {
		return false
	}
	ds, ok := fn.Body.List[1].(*ast.DeferStmt)
	if !ok {
		return false
	}
	return p.src(ds.Call) == strings.TrimSuffix(lock, "Lock()")+"Unlock()"
}

func sortedFuncKeys(p *pkg) []string {
	var keys []string
	for k := range p.funcs {
		keys = append(keys, k)
	}
	sort.Strings(keys)
	return keys
}

// lfsAccessFact: every function that mentions the field `lfs`, with how:
// "locked" (mutex held from entry to exit), "new" (only inside a composite
// literal or on a value the function has just made), or "bare".
func lfsAccessFact(p *pkg) (string, string, error) {
	var rows []string
	for _, key := range sortedFuncKeys(p) {
		for _, fn := range p.funcs[key] {
			if fn.Body == nil {
				continue
			}
			sel, lit := 0, 0
			ast.Inspect(fn.Body, func(n ast.Node) bool {
				switch x := n.(type) {
				case *ast.SelectorExpr:
					if x.Sel.Name == "lfs" {
						sel++
					}
				case *ast.KeyValueExpr:
					if id, ok := x.Key.(*ast.Ident); ok && id.Name == "lfs" {
						lit++
					}
				}
				return true
			})
			if sel+lit == 0 {
				continue
			}
			how := "bare"
			switch {
			case lockedAtEntry(p, fn):
				how = "locked"
			case sel == 0:
				how = "new"
			}
			rows = append(rows, tuple(leanStr(key), leanStr(how)))
		}
	}
	return leanRows(rows), "every function of package bcl mentioning lfs", nil
}

// fieldWritersFact: functions that assign to (or increment, or append to) a field
// reached through an identifier or field called `prog`, or through the receiver of
// a method of the named type.
func fieldWritersFact(typ string) func(p *pkg) (string, string, error) {
	return func(p *pkg) (string, string, error) {
		var names []string
		for _, key := range sortedFuncKeys(p) {
			for _, fn := range p.funcs[key] {
				if fn.Body == nil {
					continue
				}
				recv := ""
				if fn.Recv != nil && len(fn.Recv.List) == 1 && recvTypeName(fn.Recv.List[0].Type) == typ &&
					len(fn.Recv.List[0].Names) == 1 {
					recv = fn.Recv.List[0].Names[0].Name
				}
				writes := false
				isTarget := func(e ast.Expr) bool {
					// strip indexing and field selection down to the base
					for {
						switch x := e.(type) {
						case *ast.IndexExpr:
							e = x.X
							continue
						case *ast.SelectorExpr:
							if id, ok := x.X.(*ast.Ident); ok && (id.Name == recv && recv != "" || id.Name == "prog" && strings.EqualFold(typ, "prog")) {
								return true
							}
							if s2, ok := x.X.(*ast.SelectorExpr); ok && s2.Sel.Name == "prog" && strings.EqualFold(typ, "prog") {
								return true
							}
							e = x.X
							continue
						case *ast.StarExpr:
							e = x.X
							continue
						case *ast.ParenExpr:
							e = x.X
							continue
						}
						return false
					}
				}
				ast.Inspect(fn.Body, func(n ast.Node) bool {
					switch x := n.(type) {
					case *ast.AssignStmt:
						if x.Tok == token.DEFINE {
							return true
						}
						for _, l := range x.Lhs {
							if isTarget(l) {
								writes = true
							}
						}
					case *ast.IncDecStmt:
						if isTarget(x.X) {
							writes = true
						}
					}
					return true
				})
				if writes {
					names = append(names, key)
				}
			}
		}
		return leanStrList(names), fmt.Sprintf("every function of package bcl (%d)", len(p.funcs)), nil
	}
}

// pkgVarWritersFact: functions that assign to a package-level variable.
func pkgVarWritersFact(p *pkg) (string, string, error) {
	var names []string
	for _, key := range sortedFuncKeys(p) {
		for _, fn := range p.funcs[key] {
			if fn.Body == nil {
				continue
			}
			// names declared locally shadow package variables; a conservative
			// syntactic check: the identifier is a package variable and is not
			// declared (:=, var, parameter) anywhere in this function
			local := map[string]bool{}
			if fn.Type.Params != nil {
				for _, f := range fn.Type.Params.List {
					for _, n := range f.Names {
						local[n.Name] = true
					}
				}
			}
			if fn.Type.Results != nil {
				for _, f := range fn.Type.Results.List {
					for _, n := range f.Names {
						local[n.Name] = true
					}
				}
			}
			if fn.Recv != nil {
				for _, f := range fn.Recv.List {
					for _, n := range f.Names {
						local[n.Name] = true
					}
				}
			}
			ast.Inspect(fn.Body, func(n ast.Node) bool {
				switch x := n.(type) {
				case *ast.AssignStmt:
					if x.Tok == token.DEFINE {
						for _, l := range x.Lhs {
							if id, ok := l.(*ast.Ident); ok {
								local[id.Name] = true
							}
						}
					}
				case *ast.ValueSpec:
					for _, id := range x.Names {
						local[id.Name] = true
					}
				case *ast.RangeStmt:
					if x.Tok == token.DEFINE {
						for _, e := range []ast.Expr{x.Key, x.Value} {
							if id, ok := e.(*ast.Ident); ok {
								local[id.Name] = true
							}
						}
					}
				}
				return true
			})
			base := func(e ast.Expr) string {
				for {
					switch x := e.(type) {
					case *ast.IndexExpr:
						e = x.X
					case *ast.SelectorExpr:
						e = x.X
					case *ast.StarExpr:
						e = x.X
					case *ast.ParenExpr:
						e = x.X
					case *ast.Ident:
						return x.Name
					default:
						return ""
					}
				}
			}
			writes := false
			ast.Inspect(fn.Body, func(n ast.Node) bool {
				var targets []ast.Expr
				switch x := n.(type) {
				case *ast.AssignStmt:
					if x.Tok != token.DEFINE {
						targets = x.Lhs
					}
				case *ast.IncDecStmt:
					targets = []ast.Expr{x.X}
				}
				for _, t := range targets {
					b := base(t)
					if b != "" && !local[b] && len(p.vars[b]) > 0 {
						writes = true
					}
				}
				return true
			})
			if writes {
				names = append(names, key)
			}
		}
	}
	return leanStrList(names), fmt.Sprintf("every function of package bcl (%d)", len(p.funcs)), nil
}

// reachableFact: functions of the package reachable from the given roots in the
// syntactic call graph (a method call x.m() reaches every method named m; function
// values passed around are followed when they are named functions of the package).
func reachableFact(roots ...string) func(p *pkg) (string, string, error) {
	return func(p *pkg) (string, string, error) {
		byMethod := map[string][]string{}
		for key := range p.funcs {
			if i := strings.IndexByte(key, '.'); i >= 0 {
				byMethod[key[i+1:]] = append(byMethod[key[i+1:]], key)
			}
		}
		seen := map[string]bool{}
		var work []string
		for _, r := range roots {
			if len(p.funcs[r]) == 0 {
				return "", "", fmt.Errorf("root %s not found", r)
			}
			seen[r] = true
			work = append(work, r)
		}
		add := func(k string) {
			if !seen[k] {
				seen[k] = true
				work = append(work, k)
			}
		}
		for len(work) > 0 {
			k := work[len(work)-1]
			work = work[:len(work)-1]
			for _, fn := range p.funcs[k] {
				if fn.Body == nil {
					continue
				}
				ast.Inspect(fn.Body, func(n ast.Node) bool {
					switch x := n.(type) {
					case *ast.Ident:
						if len(p.funcs[x.Name]) > 0 && x.Obj == nil {
							add(x.Name)
						}
					case *ast.SelectorExpr:
						for _, m := range byMethod[x.Sel.Name] {
							add(m)
						}
					}
					return true
				})
			}
		}
		var names []string
		for k := range seen {
			names = append(names, k)
		}
		sort.Strings(names)
		return leanStrList(names), "syntactic call graph from " + strings.Join(roots, ", "), nil
	}
}
