package main

// Concurrency skeletons: the goroutine, channel, select, close, defer, loop and
// exit structure of the functions that make up the ParseFile pipeline, as flat
// token lists.  lean/Bclv/Model/Proto.lean was written from these skeletons;
// Tie/Tables.lean proves that what is extracted now is what it was written from.

import (
	"fmt"
	"go/ast"
	"go/token"
	"strings"
)

// skelCalls are the calls that appear in a skeleton besides channel operations.
var skelCalls = map[string]bool{
	"f.Read": true, "parseWithOpts": true, "parse": true, "newLexer": true,
	"p.lexer.nextToken": true, "l.lpUpd": true,
}

type skel struct {
	p    *pkg
	out  []string
	inGo int // depth of enclosing go statements: assignments there are writes other goroutines may see
}

func (s *skel) emit(t string) { s.out = append(s.out, t) }

// exprOps emits the channel receives, makes and listed calls inside an expression, in source order.
func (s *skel) exprOps(e ast.Node) {
	if e == nil {
		return
	}
	ast.Inspect(e, func(n ast.Node) bool {
		switch x := n.(type) {
		case *ast.FuncLit:
			s.emit("func{")
			s.block(x.Body.List)
			s.emit("}")
			return false
		case *ast.UnaryExpr:
			if x.Op == token.ARROW {
				s.emit("recv " + s.p.src(x.X))
			}
		case *ast.CallExpr:
			fn := s.p.src(x.Fun)
			switch {
			case fn == "close" && len(x.Args) == 1:
				s.emit("close " + s.p.src(x.Args[0]))
			case fn == "make" && len(x.Args) >= 1:
				if _, ok := x.Args[0].(*ast.ChanType); ok {
					capacity := "0"
					if len(x.Args) == 2 {
						capacity = s.p.src(x.Args[1])
					}
					s.emit("makechan " + capacity)
				}
			case skelCalls[fn]:
				s.emit("call " + fn)
			}
		}
		return true
	})
}

// hasOps: does the statement list produce any token?
func (s *skel) hasOps(list []ast.Stmt) bool {
	t := &skel{p: s.p, inGo: s.inGo}
	t.block(list)
	return len(t.out) > 0
}

func (s *skel) block(list []ast.Stmt) {
	for _, st := range list {
		s.stmt(st)
	}
}

func (s *skel) stmt(st ast.Stmt) {
	switch x := st.(type) {
	case *ast.GoStmt:
		s.emit("go{")
		if fl, ok := x.Call.Fun.(*ast.FuncLit); ok {
			s.inGo++
			s.block(fl.Body.List)
			s.inGo--
		} else {
			s.emit("call " + s.p.src(x.Call.Fun))
		}
		s.emit("}")
	case *ast.DeferStmt:
		s.emit("defer " + s.p.src(x.Call))
	case *ast.SendStmt:
		s.exprOps(x.Value)
		s.emit("send " + s.p.src(x.Chan))
	case *ast.ExprStmt:
		s.exprOps(x.X)
	case *ast.AssignStmt:
		for _, r := range x.Rhs {
			s.exprOps(r)
		}
		if s.inGo > 0 && x.Tok == token.ASSIGN {
			var l []string
			for _, e := range x.Lhs {
				l = append(l, s.p.src(e))
			}
			s.emit("set " + strings.Join(l, ","))
		}
	case *ast.DeclStmt:
		s.exprOps(x)
	case *ast.ReturnStmt:
		for _, r := range x.Results {
			s.exprOps(r)
		}
		s.emit("return")
	case *ast.BranchStmt:
		switch x.Tok {
		case token.BREAK:
			s.emit("break")
		case token.CONTINUE:
			s.emit("continue")
		case token.GOTO:
			s.emit("goto")
		}
	case *ast.BlockStmt:
		s.block(x.List)
	case *ast.LabeledStmt:
		s.stmt(x.Stmt)
	case *ast.IfStmt:
		if x.Init != nil {
			s.stmt(x.Init)
		}
		s.exprOps(x.Cond)
		thenOps := s.hasOps(x.Body.List)
		elseOps := x.Else != nil && s.hasOps([]ast.Stmt{x.Else})
		if thenOps || elseOps {
			s.emit("if " + s.p.src(x.Cond) + " {")
			s.block(x.Body.List)
			if elseOps {
				s.emit("} else {")
				s.stmt(x.Else)
			}
			s.emit("}")
		}
	case *ast.ForStmt:
		if x.Init != nil {
			s.stmt(x.Init)
		}
		cond := ""
		if x.Cond != nil {
			cond = " " + s.p.src(x.Cond)
		}
		s.emit("for" + cond + " {")
		s.exprOps(x.Cond)
		s.block(x.Body.List)
		if x.Post != nil {
			s.stmt(x.Post)
		}
		s.emit("}")
	case *ast.RangeStmt:
		s.emit("range " + s.p.src(x.X) + " {")
		s.block(x.Body.List)
		s.emit("}")
	case *ast.SelectStmt:
		s.emit("select{")
		for _, c := range x.Body.List {
			cc := c.(*ast.CommClause)
			switch cm := cc.Comm.(type) {
			case nil:
				s.emit("default:")
			case *ast.SendStmt:
				s.emit("case send " + s.p.src(cm.Chan) + ":")
			case *ast.ExprStmt:
				s.emit("case " + strings.TrimSpace(recvOf(s.p, cm.X)) + ":")
			case *ast.AssignStmt:
				s.emit("case " + strings.TrimSpace(recvOf(s.p, cm.Rhs[0])) + ":")
			}
			s.block(cc.Body)
		}
		s.emit("}")
	case *ast.SwitchStmt:
		if x.Init != nil {
			s.stmt(x.Init)
		}
		if s.hasOps(x.Body.List) {
			s.emit("switch{")
			for _, c := range x.Body.List {
				cc := c.(*ast.CaseClause)
				s.emit("case:")
				s.block(cc.Body)
			}
			s.emit("}")
		}
	case *ast.CaseClause:
		s.block(x.Body)
	case *ast.TypeSwitchStmt:
		if s.hasOps(x.Body.List) {
			s.emit("switch{")
			s.block(x.Body.List)
			s.emit("}")
		}
	}
}

func recvOf(p *pkg, e ast.Expr) string {
	if u, ok := e.(*ast.UnaryExpr); ok && u.Op == token.ARROW {
		return "recv " + p.src(u.X)
	}
	return "? " + p.src(e)
}

var concFuncs = []string{"ParseFile", "Parse", "parse", "newLexer", "lexer.run", "lexer.emit", "lexer.emitError",
	"lexer.next", "lexer.nextToken", "parser.advance"}

// concSkeletonFact: (function, tokens) for each function of the pipeline.
func concSkeletonFact(p *pkg) (string, string, error) {
	var rows, srcs []string
	for _, name := range concFuncs {
		fn, err := p.oneFunc(name)
		if err != nil {
			return "", "", err
		}
		s := &skel{p: p}
		s.block(fn.Body.List)
		rows = append(rows, tuple(leanStr(name), leanStrList(s.out)))
		srcs = append(srcs, p.pos(fn))
	}
	return leanRows(rows), strings.Join(srcs, ", "), nil
}

// chanUsersFact: every function of the package (outside the listed pipeline
// functions) whose body contains a go statement, a channel operation, a select
// or a close — there should be none, so that the skeletons above are the whole
// concurrent structure of the library.
func chanUsersFact(p *pkg) (string, string, error) {
	listed := map[string]bool{}
	for _, n := range concFuncs {
		listed[n] = true
	}
	var names []string
	for key, fns := range p.funcs {
		if listed[key] {
			continue
		}
		for _, fn := range fns {
			if fn.Body == nil {
				continue
			}
			uses := false
			ast.Inspect(fn.Body, func(n ast.Node) bool {
				switch x := n.(type) {
				case *ast.GoStmt, *ast.SendStmt, *ast.SelectStmt:
					uses = true
				case *ast.UnaryExpr:
					if x.Op == token.ARROW {
						uses = true
					}
				case *ast.CallExpr:
					if id, ok := x.Fun.(*ast.Ident); ok && id.Name == "close" {
						uses = true
					}
				}
				return !uses
			})
			if uses {
				names = append(names, key)
			}
		}
	}
	sortStrings(names)
	return leanStrList(names), fmt.Sprintf("all functions of package bcl (%d)", len(p.funcs)), nil
}
