package main

import (
	"fmt"
	"go/ast"
	"go/token"
	"sort"
	"strings"
)

// A fact is one `def` of the generated Lean file.
type fact struct {
	name        string
	leanType    string
	placeholder string
	// extract returns the rendered Lean term and the source location(s).
	extract func(p *pkg) (term string, src string, err error)
}

const (
	tyNamedNats = "List (String × Nat)"
	tyNat       = "Nat"
	tyNats      = "List Nat"
	tyStrs      = "List String"
)

var facts = []fact{
	{"opcodes", tyNamedNats, "[]", func(p *pkg) (string, string, error) {
		return enumFact(p, "opcode", "op", "")
	}},
	{"operands", "List (String × List String)", "[]", operandsFact},
	{"typecodes", tyNamedNats, "[]", func(p *pkg) (string, string, error) {
		return enumFact(p, "typecode", "type", "")
	}},
	{"bindSelectors", tyNamedNats, "[]", func(p *pkg) (string, string, error) {
		return enumFact(p, "bindSelector", "", "")
	}},
	{"bindTargets", tyNamedNats, "[]", func(p *pkg) (string, string, error) {
		return enumFact(p, "bindTarget", "", "")
	}},
	{"magicBytes", tyNats, "[]", magicFact},
	{"versionMajor", tyNat, "0", func(p *pkg) (string, string, error) { return natConstFact(p, "bytecodeMajor") }},
	{"versionMinor", tyNat, "0", func(p *pkg) (string, string, error) { return natConstFact(p, "bytecodeMinor") }},
	{"dumpSections", tyStrs, "[]", dumpSectionsFact},
	{"limits", tyNamedNats, "[]", limitsFact},
	{"tokenTypes", tyNamedNats, "[]", func(p *pkg) (string, string, error) {
		return enumFact(p, "tokenType", "", "tMAX")
	}},
	{"keywords", "List (List Nat × String)", "[]", keywordsFact},
	{"twoRune", "List (Nat × Nat × String)", "[]", twoRuneFact},
	{"oneRune", "List (Nat × String)", "[]", oneRuneFact},
	{"spaceRunes", tyNats, "[]", func(p *pkg) (string, string, error) { return runeSetFact(p, "isSpace") }},
	{"eolRunes", tyNats, "[]", func(p *pkg) (string, string, error) { return runeSetFact(p, "isEol") }},
	{"commentRune", tyNat, "0", func(p *pkg) (string, string, error) { return natConstFact(p, "lineComment") }},
	{"precedences", tyNamedNats, "[]", func(p *pkg) (string, string, error) {
		return enumFact(p, "precedence", "", "")
	}},
	{"rules", "List (String × String × String × String)", "[]", rulesFact},
	{"recursion", "List (String × String)", "[]", recursionFact},
	{"binaryEmit", "List (String × List String)", "[]", binaryEmitFact},
	{"syncTokens", tyStrs, "[]", syncFact},
	{"stmtDispatch", tyStrs, "[]", stmtDispatchFact},
	{"tokensBufSize", tyNat, "0", func(p *pkg) (string, string, error) { return natConstFact(p, "tokensBufSize") }},
	{"concSkeleton", "List (String × List String)", "[]", concSkeletonFact},
	{"chanUsers", tyStrs, "[\"?\"]", chanUsersFact},
	{"lfsAccess", "List (String × String)", "[(\"?\", \"bare\")]", lfsAccessFact},
	{"progWriters", tyStrs, "[\"?\"]", fieldWritersFact("Prog")},
	{"pkgVarWriters", tyStrs, "[\"?\"]", pkgVarWritersFact},
	{"execReach", tyStrs, "[\"?\"]", reachableFact("execute")},
	{"pipelineReach", tyStrs, "[\"?\"]", reachableFact("ParseFile")},
}

func sortStrings(xs []string) { sort.Strings(xs) }

// ---- enumerations ----

// enumFact renders the const block of the given type as (name, value) pairs
// in declaration order.  strip is removed from the front of each name; stop,
// if non-empty, names the sentinel constant that ends the list (exclusive) and
// must be present.
func enumFact(p *pkg, typ, strip, stop string) (string, string, error) {
	b, err := p.constBlockOfType(typ)
	if err != nil {
		return "", "", err
	}
	src := p.pos(b.decl)
	var rows []string
	stopped := false
	for _, d := range b.defs {
		if d.name == "_" {
			continue
		}
		if stop != "" && d.name == stop {
			stopped = true
			break
		}
		v, _, err := p.constInt(d.name)
		if err != nil {
			return "", src, err
		}
		n, err := leanNat(v)
		if err != nil {
			return "", src, fmt.Errorf("constant %s: %w", d.name, err)
		}
		rows = append(rows, tuple(leanStr(strings.TrimPrefix(d.name, strip)), n))
	}
	if stop != "" && !stopped {
		return "", src, fmt.Errorf("sentinel constant %s not found in the %s block", stop, typ)
	}
	if len(rows) == 0 {
		return "", src, fmt.Errorf("const block of type %s is empty", typ)
	}
	return leanRows(rows), src, nil
}

func natConstFact(p *pkg, name string) (string, string, error) {
	v, d, err := p.constInt(name)
	if err != nil {
		if d != nil {
			return "", p.pos(d.ident), err
		}
		return "", "", err
	}
	s, err := leanNat(v)
	return s, p.pos(d.ident), err
}

func magicFact(p *pkg) (string, string, error) {
	v, d, err := p.constVal("bytecodeMagic")
	if err != nil {
		return "", "", err
	}
	src := p.pos(d.ident)
	if !v.isStr {
		return "", src, fmt.Errorf("bytecodeMagic is not a string constant")
	}
	var bs []int64
	for i := 0; i < len(v.s); i++ {
		bs = append(bs, int64(v.s[i]))
	}
	s, err := leanNatList(bs)
	return s, src, err
}

func limitsFact(p *pkg) (string, string, error) {
	var rows, srcs []string
	for _, name := range []string{"stackSize", "blockStackSize", "localsMaxSize", "jumpByteLength", "tokensBufSize"} {
		v, d, err := p.constInt(name)
		if err != nil {
			return "", strings.Join(srcs, ", "), err
		}
		n, err := leanNat(v)
		if err != nil {
			return "", strings.Join(srcs, ", "), err
		}
		rows = append(rows, tuple(leanStr(name), n))
		srcs = append(srcs, p.pos(d.ident))
	}
	v, at, err := readPageSize(p)
	if err != nil {
		return "", strings.Join(srcs, ", "), fmt.Errorf("readPageSize: %w", err)
	}
	n, err := leanNat(v)
	if err != nil {
		return "", strings.Join(srcs, ", "), err
	}
	rows = append(rows, tuple(leanStr("readPageSize"), n))
	srcs = append(srcs, at)
	return leanRows(rows), strings.Join(srcs, ", "), nil
}

// readPageSize finds, in ParseFile, the goroutine that calls X.Read(b[:]) and
// returns the length of the array b declared in that goroutine.
func readPageSize(p *pkg) (int64, string, error) {
	fn, err := p.oneFunc("ParseFile")
	if err != nil {
		return 0, "", err
	}
	type hit struct {
		n  int64
		at string
	}
	var hits []hit
	var evalErr error
	ast.Inspect(fn.Body, func(n ast.Node) bool {
		g, ok := n.(*ast.GoStmt)
		if !ok {
			return true
		}
		lit, ok := g.Call.Fun.(*ast.FuncLit)
		if !ok {
			return true
		}
		// buffers passed to a Read call as b[:]
		bufs := map[string]bool{}
		ast.Inspect(lit.Body, func(n ast.Node) bool {
			c, ok := n.(*ast.CallExpr)
			if !ok {
				return true
			}
			sel, ok := c.Fun.(*ast.SelectorExpr)
			if !ok || sel.Sel.Name != "Read" || len(c.Args) != 1 {
				return true
			}
			if sl, ok := c.Args[0].(*ast.SliceExpr); ok {
				if id, ok := sl.X.(*ast.Ident); ok {
					bufs[id.Name] = true
				}
			}
			return true
		})
		ast.Inspect(lit.Body, func(n ast.Node) bool {
			ds, ok := n.(*ast.DeclStmt)
			if !ok {
				return true
			}
			gd, ok := ds.Decl.(*ast.GenDecl)
			if !ok || gd.Tok != token.VAR {
				return true
			}
			for _, s := range gd.Specs {
				vs, ok := s.(*ast.ValueSpec)
				if !ok {
					continue
				}
				at, ok := vs.Type.(*ast.ArrayType)
				if !ok || at.Len == nil {
					continue
				}
				if el, ok := at.Elt.(*ast.Ident); !ok || el.Name != "byte" {
					continue
				}
				for _, id := range vs.Names {
					if !bufs[id.Name] {
						continue
					}
					v, err := p.eval(at.Len, 0, false)
					if err != nil || v.isStr {
						evalErr = fmt.Errorf("array length %s not a constant integer", p.src(at.Len))
						continue
					}
					hits = append(hits, hit{v.i, p.pos(vs)})
				}
			}
			return true
		})
		return false
	})
	if len(hits) != 1 {
		if evalErr != nil {
			return 0, "", evalErr
		}
		return 0, "", fmt.Errorf("found %d read buffers `var b [N]byte` used as X.Read(b[:]) in ParseFile goroutines, expected one", len(hits))
	}
	return hits[0].n, hits[0].at, nil
}

// ---- lexer tables ----

func mapLiteral(p *pkg, name string) (*ast.CompositeLit, *ast.MapType, string, error) {
	v, err := p.oneVar(name)
	if err != nil {
		return nil, nil, "", err
	}
	src := p.pos(v.name)
	cl, ok := v.value.(*ast.CompositeLit)
	if !ok {
		return nil, nil, src, fmt.Errorf("var %s is not initialised by a composite literal", name)
	}
	mt, ok := cl.Type.(*ast.MapType)
	if !ok {
		return nil, nil, src, fmt.Errorf("var %s is not a map literal", name)
	}
	return cl, mt, src, nil
}

func tokenIdent(p *pkg, e ast.Expr) (string, error) {
	id, ok := e.(*ast.Ident)
	if !ok {
		return "", fmt.Errorf("expected a token constant, found %s", p.src(e))
	}
	d, ok := p.consts[id.Name]
	if !ok || d.typ != "tokenType" {
		return "", fmt.Errorf("%s is not a tokenType constant", id.Name)
	}
	return id.Name, nil
}

func keywordsFact(p *pkg) (string, string, error) {
	cl, _, src, err := mapLiteral(p, "keywords")
	if err != nil {
		return "", src, err
	}
	type kw struct{ word, tok string }
	var kws []kw
	for _, e := range cl.Elts {
		kv, ok := e.(*ast.KeyValueExpr)
		if !ok {
			return "", src, fmt.Errorf("element %s is not key: value", p.src(e))
		}
		k, err := p.eval(kv.Key, 0, false)
		if err != nil || !k.isStr {
			return "", src, fmt.Errorf("key %s is not a constant string", p.src(kv.Key))
		}
		t, err := tokenIdent(p, kv.Value)
		if err != nil {
			return "", src, err
		}
		kws = append(kws, kw{k.s, t})
	}
	if len(kws) == 0 {
		return "", src, fmt.Errorf("keywords map is empty")
	}
	sort.SliceStable(kws, func(i, j int) bool { return kws[i].word < kws[j].word })
	var rows []string
	for _, k := range kws {
		var bs []int64
		for i := 0; i < len(k.word); i++ {
			bs = append(bs, int64(k.word[i]))
		}
		l, _ := leanNatList(bs)
		rows = append(rows, tuple(l, leanStr(k.tok)))
	}
	return leanRows(rows), src, nil
}

func runeKey(p *pkg, e ast.Expr) (int64, error) {
	v, err := p.eval(e, 0, false)
	if err != nil {
		return 0, err
	}
	if v.isStr || v.i < 0 {
		return 0, fmt.Errorf("%s is not a rune constant", p.src(e))
	}
	return v.i, nil
}

func oneRuneFact(p *pkg) (string, string, error) {
	cl, _, src, err := mapLiteral(p, "oneRuneTokens")
	if err != nil {
		return "", src, err
	}
	type ent struct {
		r   int64
		tok string
	}
	var ents []ent
	for _, e := range cl.Elts {
		kv, ok := e.(*ast.KeyValueExpr)
		if !ok {
			return "", src, fmt.Errorf("element %s is not key: value", p.src(e))
		}
		r, err := runeKey(p, kv.Key)
		if err != nil {
			return "", src, err
		}
		t, err := tokenIdent(p, kv.Value)
		if err != nil {
			return "", src, err
		}
		ents = append(ents, ent{r, t})
	}
	if len(ents) == 0 {
		return "", src, fmt.Errorf("oneRuneTokens map is empty")
	}
	sort.SliceStable(ents, func(i, j int) bool { return ents[i].r < ents[j].r })
	var rows []string
	for _, e := range ents {
		rows = append(rows, tuple(fmt.Sprint(e.r), leanStr(e.tok)))
	}
	return leanRows(rows), src, nil
}

func twoRuneFact(p *pkg) (string, string, error) {
	cl, mt, src, err := mapLiteral(p, "twoRuneTokens")
	if err != nil {
		return "", src, err
	}
	vt, ok := mt.Value.(*ast.Ident)
	if !ok {
		return "", src, fmt.Errorf("map value type %s is not a named struct", p.src(mt.Value))
	}
	fnames, ftypes, err := p.structFields(vt.Name)
	if err != nil {
		return "", src, err
	}
	// locate the rune field and the tokenType field of the value struct
	runeIdx, tokIdx := -1, -1
	for i, t := range ftypes {
		switch t {
		case "rune":
			if runeIdx >= 0 {
				return "", src, fmt.Errorf("struct %s has several rune fields", vt.Name)
			}
			runeIdx = i
		case "tokenType":
			if tokIdx >= 0 {
				return "", src, fmt.Errorf("struct %s has several tokenType fields", vt.Name)
			}
			tokIdx = i
		}
	}
	if runeIdx < 0 || tokIdx < 0 || len(fnames) != 2 {
		return "", src, fmt.Errorf("struct %s is not {rune, tokenType}", vt.Name)
	}
	type ent struct {
		r1, r2 int64
		tok    string
	}
	var ents []ent
	for _, e := range cl.Elts {
		kv, ok := e.(*ast.KeyValueExpr)
		if !ok {
			return "", src, fmt.Errorf("element %s is not key: value", p.src(e))
		}
		r1, err := runeKey(p, kv.Key)
		if err != nil {
			return "", src, err
		}
		vl, ok := kv.Value.(*ast.CompositeLit)
		if !ok {
			return "", src, fmt.Errorf("value %s is not a struct literal", p.src(kv.Value))
		}
		fields, err := structLitFields(p, vl, fnames)
		if err != nil {
			return "", src, err
		}
		if fields[runeIdx] == nil || fields[tokIdx] == nil {
			return "", src, fmt.Errorf("value %s does not set both fields", p.src(vl))
		}
		r2, err := runeKey(p, fields[runeIdx])
		if err != nil {
			return "", src, err
		}
		t, err := tokenIdent(p, fields[tokIdx])
		if err != nil {
			return "", src, err
		}
		ents = append(ents, ent{r1, r2, t})
	}
	if len(ents) == 0 {
		return "", src, fmt.Errorf("twoRuneTokens map is empty")
	}
	sort.SliceStable(ents, func(i, j int) bool { return ents[i].r1 < ents[j].r1 })
	var rows []string
	for _, e := range ents {
		rows = append(rows, tuple(fmt.Sprint(e.r1), fmt.Sprint(e.r2), leanStr(e.tok)))
	}
	return leanRows(rows), src, nil
}

// structLitFields maps the elements of a struct literal (positional or keyed)
// to the struct's fields; unset fields are nil.
func structLitFields(p *pkg, cl *ast.CompositeLit, fnames []string) ([]ast.Expr, error) {
	out := make([]ast.Expr, len(fnames))
	keyed := false
	for _, e := range cl.Elts {
		if _, ok := e.(*ast.KeyValueExpr); ok {
			keyed = true
		}
	}
	if !keyed {
		if len(cl.Elts) != len(fnames) && len(cl.Elts) != 0 {
			return nil, fmt.Errorf("struct literal %s has %d elements, %d fields expected", p.src(cl), len(cl.Elts), len(fnames))
		}
		copy(out, cl.Elts)
		return out, nil
	}
	for _, e := range cl.Elts {
		kv, ok := e.(*ast.KeyValueExpr)
		if !ok {
			return nil, fmt.Errorf("struct literal %s mixes keyed and positional elements", p.src(cl))
		}
		k, ok := kv.Key.(*ast.Ident)
		if !ok {
			return nil, fmt.Errorf("struct literal key %s is not a field name", p.src(kv.Key))
		}
		idx := -1
		for i, n := range fnames {
			if n == k.Name {
				idx = i
			}
		}
		if idx < 0 {
			return nil, fmt.Errorf("struct literal key %s is not a known field", k.Name)
		}
		out[idx] = kv.Value
	}
	return out, nil
}

// runeSetFact recognises a predicate `func f(r rune) bool` that is a pure
// membership test in a finite set of rune constants, in either of the forms
//
//	switch r { case c1, c2, ...: return true }; return false
//	return r == c1 || r == c2 || ...
//
// and returns the set, sorted.
func runeSetFact(p *pkg, fname string) (string, string, error) {
	fn, err := p.oneFunc(fname)
	if err != nil {
		return "", "", err
	}
	src := p.pos(fn)
	if fn.Type.Params == nil || len(fn.Type.Params.List) != 1 || len(fn.Type.Params.List[0].Names) != 1 {
		return "", src, fmt.Errorf("%s does not have exactly one parameter", fname)
	}
	param := fn.Type.Params.List[0].Names[0].Name
	var set []int64
	add := func(e ast.Expr) error {
		v, err := runeKey(p, e)
		if err != nil {
			return err
		}
		set = append(set, v)
		return nil
	}
	isParam := func(e ast.Expr) bool {
		id, ok := e.(*ast.Ident)
		return ok && id.Name == param
	}
	isReturnBool := func(s ast.Stmt, want string) bool {
		r, ok := s.(*ast.ReturnStmt)
		if !ok || len(r.Results) != 1 {
			return false
		}
		id, ok := r.Results[0].(*ast.Ident)
		return ok && id.Name == want
	}
	var orChain func(e ast.Expr) error
	orChain = func(e ast.Expr) error {
		switch e := e.(type) {
		case *ast.ParenExpr:
			return orChain(e.X)
		case *ast.BinaryExpr:
			switch e.Op {
			case token.LOR:
				if err := orChain(e.X); err != nil {
					return err
				}
				return orChain(e.Y)
			case token.EQL:
				if isParam(e.X) {
					return add(e.Y)
				}
				if isParam(e.Y) {
					return add(e.X)
				}
			}
		}
		return fmt.Errorf("%s: condition %s is not a comparison of %s with a constant", fname, p.src(e), param)
	}
	body := fn.Body.List
	switch {
	case len(body) == 1:
		r, ok := body[0].(*ast.ReturnStmt)
		if !ok || len(r.Results) != 1 {
			return "", src, fmt.Errorf("%s: body is not a single return", fname)
		}
		if err := orChain(r.Results[0]); err != nil {
			return "", src, err
		}
	case len(body) == 2:
		sw, ok := body[0].(*ast.SwitchStmt)
		if !ok || sw.Init != nil || !isParam(sw.Tag) || !isReturnBool(body[1], "false") {
			return "", src, fmt.Errorf("%s: body is not `switch %s {...}; return false`", fname, param)
		}
		for _, c := range sw.Body.List {
			cc := c.(*ast.CaseClause)
			if cc.List == nil {
				if len(cc.Body) == 1 && isReturnBool(cc.Body[0], "false") {
					continue
				}
				return "", src, fmt.Errorf("%s: default clause is not `return false`", fname)
			}
			if len(cc.Body) != 1 || !isReturnBool(cc.Body[0], "true") {
				return "", src, fmt.Errorf("%s: case body is not `return true`", fname)
			}
			for _, e := range cc.List {
				if err := add(e); err != nil {
					return "", src, err
				}
			}
		}
	default:
		return "", src, fmt.Errorf("%s: body shape not recognised", fname)
	}
	if len(set) == 0 {
		return "", src, fmt.Errorf("%s: empty rune set", fname)
	}
	sort.Slice(set, func(i, j int) bool { return set[i] < set[j] })
	// drop duplicates (r == c || r == c is legal Go)
	out := set[:1]
	for _, v := range set[1:] {
		if v != out[len(out)-1] {
			out = append(out, v)
		}
	}
	s, err := leanNatList(out)
	return s, src, err
}

// ---- parser tables ----

func rulesFact(p *pkg) (string, string, error) {
	// the literal assigned to `rules` in an init function, or its initialiser
	var lits []*ast.CompositeLit
	for _, fn := range p.funcs["init"] {
		if fn.Body == nil {
			continue
		}
		ast.Inspect(fn.Body, func(n ast.Node) bool {
			as, ok := n.(*ast.AssignStmt)
			if !ok || len(as.Lhs) != 1 || len(as.Rhs) != 1 {
				return true
			}
			if id, ok := as.Lhs[0].(*ast.Ident); ok && id.Name == "rules" {
				if cl, ok := as.Rhs[0].(*ast.CompositeLit); ok {
					lits = append(lits, cl)
				} else {
					lits = append(lits, nil)
				}
			}
			return true
		})
	}
	for _, v := range p.vars["rules"] {
		if cl, ok := v.value.(*ast.CompositeLit); ok {
			lits = append(lits, cl)
		}
	}
	if len(lits) != 1 || lits[0] == nil {
		return "", "", fmt.Errorf("found %d assignments of a composite literal to `rules`, expected one", len(lits))
	}
	cl := lits[0]
	src := p.pos(cl)
	at, ok := cl.Type.(*ast.ArrayType)
	if !ok {
		return "", src, fmt.Errorf("rules literal is not an array literal")
	}
	et, ok := at.Elt.(*ast.Ident)
	if !ok {
		return "", src, fmt.Errorf("rules element type %s is not a named struct", p.src(at.Elt))
	}
	fnames, _, err := p.structFields(et.Name)
	if err != nil {
		return "", src, err
	}
	idx := map[string]int{}
	for i, n := range fnames {
		idx[n] = i
	}
	for _, want := range []string{"prefix", "infix", "prec"} {
		if _, ok := idx[want]; !ok {
			return "", src, fmt.Errorf("struct %s has no field %s", et.Name, want)
		}
	}
	if len(fnames) != 3 {
		return "", src, fmt.Errorf("struct %s has %d fields, expected prefix, infix, prec", et.Name, len(fnames))
	}
	name := func(e ast.Expr) string {
		if e == nil {
			return ""
		}
		if id, ok := e.(*ast.Ident); ok {
			if id.Name == "nil" {
				return ""
			}
			return id.Name
		}
		return p.src(e)
	}
	var rows []string
	for _, e := range cl.Elts {
		kv, ok := e.(*ast.KeyValueExpr)
		if !ok {
			return "", src, fmt.Errorf("rules element %s is not indexed by a token", p.src(e))
		}
		tok, err := tokenIdent(p, kv.Key)
		if err != nil {
			return "", src, err
		}
		vl, ok := kv.Value.(*ast.CompositeLit)
		if !ok {
			return "", src, fmt.Errorf("rule for %s is not a struct literal", tok)
		}
		fields, err := structLitFields(p, vl, fnames)
		if err != nil {
			return "", src, err
		}
		rows = append(rows, tuple(leanStr(tok), leanStr(name(fields[idx["prefix"]])),
			leanStr(name(fields[idx["infix"]])), leanStr(name(fields[idx["prec"]]))))
	}
	if len(rows) == 0 {
		return "", src, fmt.Errorf("rules literal is empty")
	}
	return leanRows(rows), src, nil
}

// methodCalls returns, in source order, the calls `X.name(...)` under n.
func methodCalls(n ast.Node, names ...string) []*ast.CallExpr {
	var out []*ast.CallExpr
	ast.Inspect(n, func(n ast.Node) bool {
		c, ok := n.(*ast.CallExpr)
		if !ok {
			return true
		}
		if sel, ok := c.Fun.(*ast.SelectorExpr); ok {
			for _, nm := range names {
				if sel.Sel.Name == nm {
					out = append(out, c)
				}
			}
		}
		return true
	})
	return out
}

func recursionFact(p *pkg) (string, string, error) {
	var rows, srcs, problems []string
	for _, fname := range []string{"expr", "binary", "boolAnd", "boolOr", "boolNot", "unary"} {
		fn, err := p.oneFunc(fname)
		if err != nil {
			problems = append(problems, err.Error())
			rows = append(rows, tuple(leanStr(fname), leanStr("<missing>")))
			continue
		}
		calls := methodCalls(fn.Body, "parsePrecedence")
		switch {
		case len(calls) == 1 && len(calls[0].Args) == 1:
			rows = append(rows, tuple(leanStr(fname), leanStr(p.src(calls[0].Args[0]))))
			srcs = append(srcs, p.pos(calls[0]))
		default:
			problems = append(problems, fmt.Sprintf("func %s has %d parsePrecedence calls, expected one", fname, len(calls)))
			rows = append(rows, tuple(leanStr(fname), leanStr(fmt.Sprintf("<%d calls>", len(calls)))))
		}
	}
	if len(problems) > 0 {
		return "", strings.Join(srcs, ", "), fmt.Errorf("%s", strings.Join(problems, "; "))
	}
	return leanRows(rows), strings.Join(srcs, ", "), nil
}

func opName(p *pkg, e ast.Expr) (string, error) {
	id, ok := e.(*ast.Ident)
	if !ok {
		return "", fmt.Errorf("expected an opcode constant, found %s", p.src(e))
	}
	d, ok := p.consts[id.Name]
	if !ok || d.typ != "opcode" {
		return "", fmt.Errorf("%s is not an opcode constant", id.Name)
	}
	return strings.TrimPrefix(id.Name, "op"), nil
}

// emitted returns the opcodes emitted by a statement list that consists only
// of p.emitOp(op) / p.emitOps(op, ...) statements.
func emitted(p *pkg, body []ast.Stmt) ([]string, error) {
	var ops []string
	for _, s := range body {
		es, ok := s.(*ast.ExprStmt)
		if !ok {
			return nil, fmt.Errorf("statement %s is not an emitOp/emitOps call", p.src(s))
		}
		c, ok := es.X.(*ast.CallExpr)
		if !ok {
			return nil, fmt.Errorf("statement %s is not an emitOp/emitOps call", p.src(s))
		}
		sel, ok := c.Fun.(*ast.SelectorExpr)
		if !ok || (sel.Sel.Name != "emitOp" && sel.Sel.Name != "emitOps") || c.Ellipsis.IsValid() {
			return nil, fmt.Errorf("statement %s is not an emitOp/emitOps call", p.src(s))
		}
		if sel.Sel.Name == "emitOp" && len(c.Args) != 1 {
			return nil, fmt.Errorf("emitOp call %s does not have one argument", p.src(c))
		}
		for _, a := range c.Args {
			n, err := opName(p, a)
			if err != nil {
				return nil, err
			}
			ops = append(ops, n)
		}
	}
	return ops, nil
}

func binaryEmitFact(p *pkg) (string, string, error) {
	fn, err := p.oneFunc("binary")
	if err != nil {
		return "", "", err
	}
	var sws []*ast.SwitchStmt
	ast.Inspect(fn.Body, func(n ast.Node) bool {
		if sw, ok := n.(*ast.SwitchStmt); ok {
			sws = append(sws, sw)
		}
		return true
	})
	if len(sws) != 1 {
		return "", p.pos(fn), fmt.Errorf("func binary has %d switch statements, expected one", len(sws))
	}
	sw := sws[0]
	src := p.pos(sw)
	tag, ok := sw.Tag.(*ast.Ident)
	if !ok || sw.Init != nil {
		return "", src, fmt.Errorf("switch in binary is not `switch <operator token variable>`")
	}
	// the tag must be the variable holding p.prev.typ
	okTag := false
	for _, s := range fn.Body.List {
		as, ok := s.(*ast.AssignStmt)
		if !ok || len(as.Lhs) != 1 || len(as.Rhs) != 1 {
			continue
		}
		if id, ok := as.Lhs[0].(*ast.Ident); ok && id.Name == tag.Name && p.src(as.Rhs[0]) == "p.prev.typ" {
			okTag = true
		}
	}
	if !okTag {
		return "", src, fmt.Errorf("switch tag %s is not assigned from p.prev.typ", tag.Name)
	}
	var rows []string
	inSwitch := 0
	for _, c := range sw.Body.List {
		cc := c.(*ast.CaseClause)
		ops, err := emitted(p, cc.Body)
		if err != nil {
			return "", src, err
		}
		inSwitch += len(methodCalls(cc, "emitOp", "emitOps", "emitByte", "emitBytes", "emitUvarint", "emitConst", "emitJump"))
		if cc.List == nil {
			rows = append(rows, tuple(leanStr("default"), leanStrList(ops)))
			continue
		}
		for _, e := range cc.List {
			tok, err := tokenIdent(p, e)
			if err != nil {
				return "", src, err
			}
			rows = append(rows, tuple(leanStr(tok), leanStrList(ops)))
		}
	}
	all := len(methodCalls(fn.Body, "emitOp", "emitOps", "emitByte", "emitBytes", "emitUvarint", "emitConst", "emitJump"))
	if all != inSwitch {
		return "", src, fmt.Errorf("func binary emits code outside the operator switch")
	}
	if len(rows) == 0 {
		return "", src, fmt.Errorf("operator switch in binary has no cases")
	}
	return leanRows(rows), src, nil
}

func syncFact(p *pkg) (string, string, error) {
	fn, err := p.oneFunc("parser.sync")
	if err != nil {
		return "", "", err
	}
	var sws []*ast.SwitchStmt
	ast.Inspect(fn.Body, func(n ast.Node) bool {
		if sw, ok := n.(*ast.SwitchStmt); ok {
			sws = append(sws, sw)
		}
		return true
	})
	if len(sws) != 1 {
		return "", p.pos(fn), fmt.Errorf("parser.sync has %d switch statements, expected one", len(sws))
	}
	sw := sws[0]
	src := p.pos(sw)
	if sw.Tag == nil || p.src(sw.Tag) != "p.current.typ" {
		return "", src, fmt.Errorf("switch in sync is not on p.current.typ")
	}
	var toks []string
	for _, c := range sw.Body.List {
		cc := c.(*ast.CaseClause)
		if cc.List == nil {
			if len(cc.Body) == 0 {
				continue
			}
			return "", src, fmt.Errorf("sync switch has a non-empty default clause")
		}
		if len(cc.Body) != 1 {
			return "", src, fmt.Errorf("sync case body is not a single return")
		}
		if r, ok := cc.Body[0].(*ast.ReturnStmt); !ok || len(r.Results) != 0 {
			return "", src, fmt.Errorf("sync case body is not a single return")
		}
		for _, e := range cc.List {
			t, err := tokenIdent(p, e)
			if err != nil {
				return "", src, err
			}
			toks = append(toks, t)
		}
	}
	if len(toks) == 0 {
		return "", src, fmt.Errorf("sync switch has no token cases")
	}
	return leanStrList(toks), src, nil
}

func stmtDispatchFact(p *pkg) (string, string, error) {
	fn, err := p.oneFunc("stmt")
	if err != nil {
		return "", "", err
	}
	var sw *ast.SwitchStmt
	n := 0
	for _, s := range fn.Body.List {
		if s, ok := s.(*ast.SwitchStmt); ok {
			sw = s
			n++
		}
	}
	if n != 1 || len(fn.Body.List) != 1 {
		return "", p.pos(fn), fmt.Errorf("func stmt is not a single switch statement")
	}
	src := p.pos(sw)
	if sw.Tag != nil || sw.Init != nil {
		return "", src, fmt.Errorf("switch in stmt is not a tagless switch")
	}
	var toks []string
	matchesEnded := false
	for _, c := range sw.Body.List {
		cc := c.(*ast.CaseClause)
		var tok string
		if len(cc.List) == 1 {
			if call, ok := cc.List[0].(*ast.CallExpr); ok && len(call.Args) == 1 {
				if sel, ok := call.Fun.(*ast.SelectorExpr); ok && sel.Sel.Name == "match" && p.src(sel.X) == "p" {
					t, err := tokenIdent(p, call.Args[0])
					if err != nil {
						return "", src, err
					}
					tok = t
				}
			}
		}
		if tok == "" {
			// a case that mentions match in any other shape is not understood
			if len(methodCalls(&ast.BlockStmt{List: exprStmts(cc.List)}, "match")) > 0 {
				return "", src, fmt.Errorf("case %s uses p.match in an unrecognised shape", p.src(cc.List[0]))
			}
			matchesEnded = true
			continue
		}
		if matchesEnded {
			return "", src, fmt.Errorf("p.match(%s) case follows a non-match case; dispatch order is not a plain token list", tok)
		}
		toks = append(toks, tok)
	}
	if len(toks) == 0 {
		return "", src, fmt.Errorf("switch in stmt has no p.match cases")
	}
	return leanStrList(toks), src, nil
}

func exprStmts(es []ast.Expr) []ast.Stmt {
	var out []ast.Stmt
	for _, e := range es {
		out = append(out, &ast.ExprStmt{X: e})
	}
	return out
}

// ---- VM operand reads ----

var readPrims = map[string]string{"readByte": "byte", "readU16": "u16", "readUvarint": "uv"}

type readEvent struct {
	end  token.Pos
	tags []string
}

func operandsFact(p *pkg) (string, string, error) {
	blk, err := p.constBlockOfType("opcode")
	if err != nil {
		return "", "", err
	}
	fn, err := p.oneFunc("vm.run")
	if err != nil {
		return "", "", err
	}
	src := p.pos(fn)

	// closures `name := func(...) {...}` declared at the top of run
	closures := map[string]*ast.FuncLit{}
	for _, s := range fn.Body.List {
		as, ok := s.(*ast.AssignStmt)
		if !ok || as.Tok != token.DEFINE || len(as.Lhs) != 1 || len(as.Rhs) != 1 {
			continue
		}
		id, ok1 := as.Lhs[0].(*ast.Ident)
		fl, ok2 := as.Rhs[0].(*ast.FuncLit)
		if ok1 && ok2 {
			closures[id.Name] = fl
		}
	}
	// sanity checks on the primitive readers
	hasCall := func(n ast.Node, name string) bool {
		found := false
		ast.Inspect(n, func(n ast.Node) bool {
			if c, ok := n.(*ast.CallExpr); ok {
				if id, ok := c.Fun.(*ast.Ident); ok && id.Name == name {
					found = true
				}
			}
			return true
		})
		return found
	}
	hasStmt := func(n ast.Node, text string) bool {
		found := false
		ast.Inspect(n, func(n ast.Node) bool {
			if s, ok := n.(ast.Stmt); ok {
				if _, isBlock := s.(*ast.BlockStmt); !isBlock && p.src(s) == text {
					found = true
				}
			}
			return true
		})
		return found
	}
	for _, name := range []string{"readByte", "readU16", "readUvarint"} {
		if closures[name] == nil {
			return "", src, fmt.Errorf("closure %s not found in vm.run", name)
		}
	}
	if !hasStmt(closures["readByte"], "vm.pc++") {
		return "", src, fmt.Errorf("readByte does not advance pc by one")
	}
	if !hasCall(closures["readU16"], "u16FromBytes") || !hasStmt(closures["readU16"], "vm.pc += 2") {
		return "", src, fmt.Errorf("readU16 is not u16FromBytes + `vm.pc += 2`")
	}
	if !hasCall(closures["readUvarint"], "uvarintFromBytes") || !hasStmt(closures["readUvarint"], "vm.pc += n") {
		return "", src, fmt.Errorf("readUvarint is not uvarintFromBytes + `vm.pc += n`")
	}

	// reads performed by a closure, transitively (readConst -> readUvarint)
	memo := map[string][]string{}
	var closureReads func(name string, seen map[string]bool) []string
	var readsIn func(n ast.Node, seen map[string]bool, events *[]readEvent)
	readsIn = func(n ast.Node, seen map[string]bool, events *[]readEvent) {
		ast.Inspect(n, func(n ast.Node) bool {
			c, ok := n.(*ast.CallExpr)
			if !ok {
				return true
			}
			id, ok := c.Fun.(*ast.Ident)
			if !ok {
				return true
			}
			if tag, ok := readPrims[id.Name]; ok {
				*events = append(*events, readEvent{c.End(), []string{tag}})
			} else if _, ok := closures[id.Name]; ok {
				if tags := closureReads(id.Name, seen); len(tags) > 0 {
					*events = append(*events, readEvent{c.End(), tags})
				}
			}
			return true
		})
	}
	flatten := func(events []readEvent) []string {
		// evaluation order: a nested call completes before its enclosing call
		sort.SliceStable(events, func(i, j int) bool { return events[i].end < events[j].end })
		var out []string
		for _, e := range events {
			out = append(out, e.tags...)
		}
		return out
	}
	closureReads = func(name string, seen map[string]bool) []string {
		if r, ok := memo[name]; ok {
			return r
		}
		if seen[name] {
			return nil
		}
		seen[name] = true
		var ev []readEvent
		readsIn(closures[name].Body, seen, &ev)
		delete(seen, name)
		memo[name] = flatten(ev)
		return memo[name]
	}

	// the dispatch switch: `switch instr := readOp(); instr { ... }`
	var sws []*ast.SwitchStmt
	ast.Inspect(fn.Body, func(n ast.Node) bool {
		if _, ok := n.(*ast.FuncLit); ok {
			return false
		}
		sw, ok := n.(*ast.SwitchStmt)
		if !ok {
			return true
		}
		if (sw.Init != nil && hasCall(sw.Init, "readOp")) || (sw.Tag != nil && hasCall(sw.Tag, "readOp")) {
			sws = append(sws, sw)
		}
		return true
	})
	if len(sws) != 1 {
		return "", src, fmt.Errorf("found %d switches on readOp() in vm.run, expected one", len(sws))
	}
	sw := sws[0]
	src = p.pos(sw)

	reads := map[string][]string{}
	seenCase := map[string]bool{}
	var problems []string
	for _, c := range sw.Body.List {
		cc := c.(*ast.CaseClause)
		var ev []readEvent
		cond := false
		for _, s := range cc.Body {
			readsIn(s, map[string]bool{}, &ev)
			if conditionalRead(s, closures, closureReads) {
				cond = true
			}
		}
		tags := flatten(ev)
		if cond {
			for i := range tags {
				tags[i] = "cond:" + tags[i]
			}
			problems = append(problems, fmt.Sprintf("case at %s reads operands conditionally", p.pos(cc)))
		}
		if cc.List == nil {
			if len(tags) > 0 {
				problems = append(problems, "default clause reads operands")
			}
			continue
		}
		for _, e := range cc.List {
			n, err := opName(p, e)
			if err != nil {
				return "", src, err
			}
			if seenCase[n] {
				return "", src, fmt.Errorf("opcode %s has two cases", n)
			}
			seenCase[n] = true
			reads[n] = tags
		}
	}
	var rows []string
	for _, d := range blk.defs {
		if d.name == "_" {
			continue
		}
		n := strings.TrimPrefix(d.name, "op")
		rows = append(rows, tuple(leanStr(n), leanStrList(reads[n])))
	}
	if len(problems) > 0 {
		// keep the table (its cond: tags break the Tie theorem) but report
		return leanRows(rows), src, &softError{strings.Join(problems, "; ")}
	}
	return leanRows(rows), src, nil
}

// softError reports a problem while still providing a (deliberately
// non-matching) term.
type softError struct{ msg string }

func (e *softError) Error() string { return e.msg }

// conditionalRead reports whether statement s contains an operand read that is
// not executed unconditionally when s is executed.
func conditionalRead(s ast.Stmt, closures map[string]*ast.FuncLit, closureReads func(string, map[string]bool) []string) bool {
	found := false
	var stack []ast.Node
	conditional := func() bool {
		for i, n := range stack {
			switch n := n.(type) {
			case *ast.CaseClause, *ast.CommClause, *ast.FuncLit, *ast.ForStmt, *ast.RangeStmt, *ast.DeferStmt, *ast.GoStmt:
				return true
			case *ast.IfStmt:
				if i+1 < len(stack) && (stack[i+1] == ast.Node(n.Body) || (n.Else != nil && stack[i+1] == n.Else)) {
					return true
				}
			case *ast.BinaryExpr:
				if (n.Op == token.LAND || n.Op == token.LOR) && i+1 < len(stack) && stack[i+1] == ast.Node(n.Y) {
					return true
				}
			}
		}
		return false
	}
	ast.Inspect(s, func(n ast.Node) bool {
		if n == nil {
			stack = stack[:len(stack)-1]
			return true
		}
		stack = append(stack, n)
		if c, ok := n.(*ast.CallExpr); ok {
			if id, ok := c.Fun.(*ast.Ident); ok {
				isRead := false
				if _, ok := readPrims[id.Name]; ok {
					isRead = true
				} else if _, ok := closures[id.Name]; ok && len(closureReads(id.Name, map[string]bool{})) > 0 {
					isRead = true
				}
				if isRead && conditional() {
					found = true
				}
			}
		}
		return true
	})
	return found
}

// ---- dump layout ----

func dumpSectionsFact(p *pkg) (string, string, error) {
	fn, err := p.oneFunc("Prog.Dump")
	if err != nil {
		return "", "", err
	}
	src := p.pos(fn)
	if len(fn.Recv.List[0].Names) != 1 {
		return "", src, fmt.Errorf("Prog.Dump has no named receiver")
	}
	recv := fn.Recv.List[0].Names[0].Name
	header := map[string]string{"bytecodeMagic": "magic", "bytecodeMajor": "major", "bytecodeMinor": "minor"}

	var events []string
	seen := map[string]bool{}
	var stack []ast.Node
	ast.Inspect(fn.Body, func(n ast.Node) bool {
		if n == nil {
			stack = stack[:len(stack)-1]
			return true
		}
		var parent ast.Node
		if len(stack) > 0 {
			parent = stack[len(stack)-1]
		}
		switch n := n.(type) {
		case *ast.Ident:
			if h, ok := header[n.Name]; ok && !seen[h] {
				seen[h] = true
				events = append(events, h)
			}
		case *ast.SelectorExpr:
			// outermost selector chain rooted at the receiver: prog.a.b -> "b"
			root := ast.Expr(n)
			for {
				s, ok := root.(*ast.SelectorExpr)
				if !ok {
					break
				}
				root = s.X
			}
			if id, ok := root.(*ast.Ident); ok && id.Name == recv {
				name := n.Sel.Name
				if !seen[name] {
					seen[name] = true
					inLen := false
					if c, ok := parent.(*ast.CallExpr); ok {
						if f, ok := c.Fun.(*ast.Ident); ok && f.Name == "len" {
							inLen = true
						}
					}
					if !inLen {
						name += "!nolen"
					}
					events = append(events, name)
				}
				// do not descend: inner selectors are part of this chain
				return false
			}
		}
		stack = append(stack, n)
		return true
	})
	// collapse major,minor -> version and magic,version -> magic+version
	var out []string
	for _, e := range events {
		k := len(out)
		switch {
		case e == "minor" && k > 0 && out[k-1] == "major":
			out[k-1] = "version"
			if k > 1 && out[k-2] == "magic" {
				out = out[:k-1]
				out[k-2] = "magic+version"
			}
		default:
			out = append(out, e)
		}
	}
	if len(out) == 0 {
		return "", src, fmt.Errorf("Prog.Dump uses neither the header constants nor receiver fields")
	}
	return leanStrList(out), src, nil
}
