package main

import (
	"flag"
	"fmt"
	"math/rand"
	"os"
	"runtime"
	"strings"
)

type streamFn func(ctx *Ctx) *Result

type Ctx struct {
	Pool  *Pool
	Seed  int64
	Tier  string
	Scale int // multiplier for case counts (quick = 1)
}

func (c *Ctx) N(quick int) int { return quick * c.Scale }

var streams = map[string]streamFn{}

func main() {
	if len(os.Args) < 2 {
		fatalf("usage: bclh run <stream,...> [-seed N] [-tier quick|thorough] [-out file.json]")
	}
	switch os.Args[1] {
	case "run":
		fs := flag.NewFlagSet("run", flag.ExitOnError)
		seed := fs.Int64("seed", 1, "PRNG seed")
		tier := fs.String("tier", "quick", "quick or thorough")
		out := fs.String("out", "", "write results as JSON")
		nd := fs.Int("drivers", runtime.NumCPU(), "model driver processes")
		fs.Parse(os.Args[3:])
		names := strings.Split(os.Args[2], ",")
		pool, err := NewPool(*nd)
		if err != nil {
			fatalf("cannot start model driver: %v", err)
		}
		defer pool.Close()
		ctx := &Ctx{Pool: pool, Seed: *seed, Tier: *tier, Scale: 1}
		if *tier == "thorough" {
			ctx.Scale = 20
		}
		var all []resultJSON
		nfail := 0
		for _, n := range names {
			f, ok := streams[n]
			if !ok {
				fatalf("unknown stream %q", n)
			}
			r := f(ctx)
			j := r.JSON()
			all = append(all, j)
			nfail += len(j.Failures)
			fmt.Fprintf(os.Stderr, "stream %-14s evaluations=%d nontrivial=%d failures=%d\n", n, j.Evaluations, j.Nontrivial, len(j.Failures))
		}
		if *out != "" {
			if err := writeJSON(*out, all); err != nil {
				fatalf("%v", err)
			}
		}
		if nfail > 0 {
			os.Exit(1)
		}
	case "corpus-gen":
		corpusGen(os.Args[2])
	default:
		fatalf("unknown command %q", os.Args[1])
	}
}

func init() {
	streams["progs"] = streamProgs
}

// streamProgs: typed random programs; implementation and model must agree on
// everything PARSE and RUN show.
func streamProgs(ctx *Ctx) *Result {
	res := NewResult("progs", "typed random programs (expressions over all literal kinds and operators, var/def/bind statements, nesting, shadowing); non-trivial = compiles and has ≥3 opcodes; distinct by compiled bytes")
	parallel(ctx.Pool, ctx.Seed, ctx.N(3000), func(i int, r *rand.Rand, d *Driver) {
		g := NewGen(r)
		g.MaxDepth = 1 + r.Intn(6)
		ss := g.Program(1 + r.Intn(8))
		src := Render(ss, r, r.Intn(3) == 0)
		if dir := os.Getenv("BCLH_LOGSRC"); dir != "" {
			os.WriteFile(fmt.Sprintf("%s/src-%d.txt", dir, i), []byte(src), 0o644)
			defer os.Remove(fmt.Sprintf("%s/src-%d.txt", dir, i))
		}
		line := diffParseRun(res, d, []byte(src), true)
		res.Merge(g.Stats)
		if strings.HasPrefix(line, "ok=1") {
			res.Count("parse.ok", 1)
			if ps := strings.Split(field(line, "pstats"), ","); len(ps) == 6 && ps[4] >= "3" {
				res.Nontrivial(field(line, "dump"))
			}
		} else {
			res.Count("parse.rejected", 1)
		}
		if i < 3 {
			res.Sample(src)
		}
	})
	// wide programs: slots and constant indices beyond the one-byte operand range
	parallel(ctx.Pool, ctx.Seed+11, ctx.N(60), func(i int, r *rand.Rand, d *Driver) {
		src := WideProgram(r)
		line := diffParseRun(res, d, []byte(src), true)
		res.Count("wide", 1)
		if strings.HasPrefix(line, "ok=1") {
			res.Nontrivial(field(line, "dump"))
		}
	})
	return res
}
