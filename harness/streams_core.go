package main

import (
	"bytes"
	"fmt"
	"math/rand"
	"os"
	"regexp"
	"strconv"
	"strings"
	"sync"
)

// parallel runs f(i, rng, driver) for i in [0,n) on all drivers of the pool.
func parallel(pool *Pool, seed int64, n int, f func(i int, r *rand.Rand, d *Driver)) {
	var wg sync.WaitGroup
	ch := make(chan int, 64)
	for _, d := range pool.ds {
		wg.Add(1)
		go func(d *Driver) {
			defer wg.Done()
			for i := range ch {
				r := rand.New(rand.NewSource(seed*1000003 + int64(i)))
				f(i, r, d)
			}
		}(d)
	}
	for i := 0; i < n; i++ {
		ch <- i
	}
	close(ch)
	wg.Wait()
}

func ask(d *Driver, op string) string {
	s, err := d.Ask(op)
	if err != nil {
		os.WriteFile("/tmp/bclh-lastop.txt", []byte(op+"\n"), 0o644)
		fatalf("model driver: %v (op %.200s) full op in /tmp/bclh-lastop.txt", err, op)
	}
	return s
}

func field(line, key string) string {
	for _, w := range strings.Fields(line) {
		if strings.HasPrefix(w, key+"=") {
			return w[len(key)+1:]
		}
	}
	return ""
}

// diffParseRun compares implementation and model on one source: PARSE, and if it
// compiles, RUN without and with trace.  Returns the implementation's PARSE line.
// domainExcluded: C06 (and with it every property about execution) excludes inputs whose
// legitimate result would itself exhaust memory - string repetition beyond 2^20 bytes.  The
// typed generator never builds such a program; inputs made by damaging tokens or bytes of a
// generated program can (a string put to the left of `* 2147483648`).  This conservative
// static test says "may": a string delimiter, a `*`, and numeric literals whose product
// exceeds 2^26.  Such inputs are still parsed and compared, but not executed.
var reNumLit = regexp.MustCompile(`(?:^|[^A-Za-z0-9_])(0[xX][0-9a-fA-F]+|[0-9]+(?:\.[0-9]+)?(?:[eE][+-]?[0-9]+)?)`)

func domainExcluded(src []byte) bool {
	if !bytes.Contains(src, []byte{'"'}) || !bytes.Contains(src, []byte{'*'}) {
		return false
	}
	bound := 1.0
	for _, sm := range reNumLit.FindAllSubmatch(src, -1) {
		m := sm[1]
		var v float64
		if len(m) > 2 && (m[1] == 'x' || m[1] == 'X') {
			u, err := strconv.ParseUint(string(m[2:]), 16, 64)
			if err != nil {
				return true
			}
			v = float64(u)
		} else {
			f, err := strconv.ParseFloat(string(m), 64)
			if err != nil {
				return true
			}
			v = f
		}
		if v >= 2 {
			bound *= v
		}
		if bound > 1<<26 {
			return true
		}
	}
	return false
}

// diffParseOnly: the parse half of diffParseRun, for inputs that must not be executed.
func diffParseOnly(res *Result, d *Driver, src []byte) (implLine string) {
	op := fmt.Sprintf("PARSE %s %s 1", hxs("input"), hx(src))
	impl := implParse("input", src, true)
	model := ask(d, op)
	res.Eval(1)
	res.Count("domain-excluded.parsed-only", 1)
	if impl != model {
		res.Fail(Failure{Kind: "model-diff", Op: op, Input: string(src), Impl: impl, Model: model,
			Note: "PARSE: dump, diagnostics, parse statistics or disassembly differ"})
	}
	return impl
}

// diffParseRunTok: diffParseRun for inputs obtained by damaging tokens or bytes.
func diffParseRunTok(res *Result, d *Driver, src []byte, withRun bool) (implLine string) {
	if domainExcluded(src) {
		return diffParseOnly(res, d, src)
	}
	return diffParseRun(res, d, src, withRun)
}

func diffParseRun(res *Result, d *Driver, src []byte, withRun bool) (implLine string) {
	// observable semantics end to end: what the properties talk about
	si, sm := implInterp(src), ask(d, "INTERP "+hx(src))
	res.Eval(1)
	if si != sm {
		res.Fail(Failure{Kind: "oracle", Op: "INTERP " + hx(src), Input: string(src), Impl: si, Model: sm,
			Expected: "the verdict, diagnostics, printed output, blocks, binding and error the language definition (Lean model, proved against the spec) gives"})
		return si
	}
	// the language definition itself (the big-step evaluator of Spec/Sem.lean, which the VM is proved to
	// compute) must say the same as the implementation: same outcome on success, same error text on failure
	if strings.HasPrefix(si, "accepted") {
		ss := ask(d, "SEM "+hx(src))
		res.Eval(1)
		okSem := ss == si
		if strings.HasPrefix(ss, "err ") {
			okSem = strings.TrimPrefix(ss, "err ") == field(si, "err")
		}
		if !okSem {
			res.Fail(Failure{Kind: "oracle", Op: "SEM " + hx(src), Input: string(src), Impl: si, Model: ss,
				Expected: "what the big-step evaluator of the language definition (Spec/Sem.lean) computes on the parsed tree"})
			return si
		}
		res.Count("sem."+strings.SplitN(ss, " ", 2)[0], 1)
	}
	op := fmt.Sprintf("PARSE %s %s 1", hxs("input"), hx(src))
	impl := implParse("input", src, true)
	model := ask(d, op)
	res.Eval(1)
	if impl != model {
		res.Fail(Failure{Kind: "model-diff", Op: op, Input: string(src), Impl: impl, Model: model,
			Note: "PARSE: dump, diagnostics, parse statistics or disassembly differ"})
		return impl
	}
	if strings.HasPrefix(impl, "ok=1") {
		// the tree the parser model built must pass the scoping checker: that is the hypothesis under
		// which `accepted_program_runs` (Proofs/Scoped.lean) says the VM ends with a result or a runtime error
		sc := ask(d, "SCOPED "+hx(src))
		res.Count("scoped."+strings.SplitN(sc, " ", 2)[0], 1)
		if !strings.HasPrefix(sc, "scoped=1") {
			res.Fail(Failure{Kind: "model-diff", Op: "SCOPED " + hx(src), Input: string(src), Impl: impl, Model: sc,
				Note: "the parser model accepted a program whose tree is not well scoped (hypothesis of accepted_program_runs)"})
		}
	}
	if !withRun || !strings.HasPrefix(impl, "ok=1") {
		return impl
	}
	dump := field(impl, "dump")
	for _, tr := range []bool{false, true} {
		t := "0"
		if tr {
			t = "1"
		}
		rop := fmt.Sprintf("RUN %s %s", dump, t)
		ri := implRun(unhx(dump), tr)
		rm := ask(d, rop)
		res.Eval(1)
		if ri != rm {
			res.Fail(Failure{Kind: "model-diff", Op: rop, Input: string(src), Impl: ri, Model: rm,
				Note: "RUN: output, error, blocks, binding, log or execution statistics differ"})
			return impl
		}
		if !tr {
			if e := field(ri, "err"); e != "-" {
				msg := string(unhx(e))
				if i := strings.Index(msg, ": "); i >= 0 {
					if j := strings.Index(msg[i+2:], ": "); j >= 0 {
						msg = msg[i+2+j+2:]
					}
				}
				if k := strings.IndexAny(msg, ":'0123456789"); k > 0 {
					msg = msg[:k]
				}
				res.Count("run.err."+strings.TrimSpace(msg), 1)
			} else {
				res.Count("run.ok", 1)
			}
		}
	}
	return impl
}
