package main

// Streams for the reflection binder:
//   unmarshal    C05  value -> BCL text -> Unmarshal round trip over generated struct shapes
//   bindadv      C15  Bind on hand-built bindings against a zoo of targets (bind_adv.go)
//   determinism  C16  repeated and re-executed calls give identical results (bind_det.go)
//
// None of them talks to the model driver; they check the implementation against
// oracles computed here.

import (
	"bytes"
	"fmt"
	"io"
	"math"
	"math/rand"
	"reflect"
	"runtime"
	"strconv"
	"strings"
	"sync"
	"unicode"
	"unicode/utf8"

	"github.com/wkhere/bcl"
)

func init() {
	streams["unmarshal"] = streamUnmarshal
	streams["bindadv"] = streamBindAdv
	streams["determinism"] = streamDeterminism
}

// parallelCPU runs f(i, rng) for i in [0,n) on one goroutine per CPU.  The
// generator of case i depends only on (seed, salt, i), so a run replays exactly.
func parallelCPU(seed, salt int64, n int, f func(i int, r *rand.Rand)) {
	w := runtime.NumCPU()
	if w < 4 {
		w = 4
	}
	var wg sync.WaitGroup
	ch := make(chan int, 64)
	for k := 0; k < w; k++ {
		wg.Add(1)
		go func() {
			defer wg.Done()
			for i := range ch {
				f(i, rand.New(rand.NewSource((seed*1000003+int64(i))^(salt<<40))))
			}
		}()
	}
	for i := 0; i < n; i++ {
		ch <- i
	}
	close(ch)
	wg.Wait()
}

// guardedCall runs f under recover with a watchdog; it returns "" or "PANIC …" / "HANG".
func guardedCall(f func()) string {
	return guarded(opTimeout, func() string { f(); return "" })
}

// ---------- the name matching rule, stated independently ----------

var bclKeywords = map[string]bool{"var": true, "def": true, "eval": true, "print": true, "bind": true,
	"true": true, "false": true, "nil": true, "not": true, "and": true, "or": true}

func rmUnderscores(s string) string { return strings.ReplaceAll(s, "_", "") }

// foldEq: equal ignoring case and underscores.
func foldEq(a, b string) bool { return strings.EqualFold(rmUnderscores(a), rmUnderscores(b)) }

// foldKey is a canonical representative of the foldEq class (smallest rune of each case orbit).
func foldKey(s string) string {
	var b strings.Builder
	for _, r := range s {
		if r == '_' {
			continue
		}
		m := r
		for f := unicode.SimpleFold(r); f != r; f = unicode.SimpleFold(f) {
			if f < m {
				m = f
			}
		}
		b.WriteRune(m)
	}
	return b.String()
}

// asciiLetters gives, for each rune of a Go name, the ASCII lower-case letter or
// digit of its case orbit ('_' is kept); ok is false when some rune has none.
func asciiLetters(name string) (out []byte, ok bool) {
	for _, r := range name {
		if r == '_' || r >= '0' && r <= '9' {
			out = append(out, byte(r))
			continue
		}
		found := false
		f := r
		for {
			if f >= 'a' && f <= 'z' {
				out = append(out, byte(f))
				found = true
				break
			}
			f = unicode.SimpleFold(f)
			if f == r {
				break
			}
		}
		if !found {
			return nil, false
		}
	}
	return out, true
}

func isBCLIdent(s string) bool {
	if s == "" || bclKeywords[s] {
		return false
	}
	for i := 0; i < len(s); i++ {
		c := s[i]
		switch {
		case c >= 'a' && c <= 'z', c >= 'A' && c <= 'Z', c == '_':
		case c >= '0' && c <= '9' && i > 0:
		default:
			return false
		}
	}
	return true
}

var spellModes = []string{"snake", "lower", "upper", "exact", "random", "screaming"}

// spellKey gives one BCL identifier admitted by the matching rule for the Go name.
func spellKey(r *rand.Rand, goName string) (key, mode string) {
	letters, ok := asciiLetters(goName)
	if !ok {
		panic("generator: name cannot be spelled in BCL: " + goName)
	}
	for try := 0; ; try++ {
		mode = spellModes[r.Intn(len(spellModes))]
		if try > 20 {
			mode = "random"
		}
		var b []byte
		switch mode {
		case "snake", "screaming":
			rs := []rune(goName)
			for i, c := range rs {
				if unicode.IsUpper(c) && i > 0 && rs[i-1] != '_' &&
					(unicode.IsLower(rs[i-1]) || i+1 < len(rs) && unicode.IsLower(rs[i+1])) {
					b = append(b, '_')
				}
				b = append(b, letters[i])
			}
			if mode == "screaming" {
				b = bytes.ToUpper(b)
			}
		case "lower":
			b = []byte(rmUnderscores(string(letters)))
		case "upper":
			b = bytes.ToUpper([]byte(rmUnderscores(string(letters))))
		case "exact":
			if isBCLIdent(goName) {
				b = []byte(goName)
			} else {
				b = letters
			}
		default:
			if r.Intn(6) == 0 {
				b = append(b, '_')
			}
			for _, c := range letters {
				if c == '_' {
					if r.Intn(2) == 0 {
						b = append(b, '_')
					}
					continue
				}
				if r.Intn(2) == 0 {
					c = byte(unicode.ToUpper(rune(c)))
				}
				b = append(b, c)
				for r.Intn(4) == 0 {
					b = append(b, '_')
				}
			}
		}
		key = string(b)
		if isBCLIdent(key) {
			if !foldEq(key, goName) {
				panic(fmt.Sprintf("generator: spelling %q does not match %q", key, goName))
			}
			return key, mode
		}
	}
}

// ---------- struct shapes ----------

type uField struct {
	Name string
	Tag  string
	Kind string // int float string bool struct
	Sub  *uShape
	Idx  int
}

type uShape struct {
	T       reflect.Type
	HasName bool
	NameIdx int
	Fields  []uField
	Tags    map[string]bool
	Depth   int
}

// Declared (named) struct types of the family.
type Tunnel struct {
	Name       string
	Host       string
	LocalPort  int
	RemotePort int
	Enabled    bool
	Extras     struct {
		MaxLatency float64
	}
}

type HTTP_Server struct {
	Name         string
	Listen_Addr  string
	Port         int
	TLS          bool
	Idle_Timeout float64
}

type srvConf struct {
	Host   string
	Weight float64
	Backup bool
}

type Extras struct {
	Name       string
	MaxLatency float64
	Label      string `json:"label" bcl:"lbl"`
}

type TunnelX struct {
	Name   string
	Host   string
	Extras Extras
	Limits Extras `bcl:"extras.limits"`
}

type NPoint struct {
	Name string
	X, Y int
}

type Segment struct {
	Name  string
	From  NPoint  `bcl:"npoint.from"`
	To    NPoint  `bcl:"N_Point.to"`
	Mid   NPoint  `bcl:"n_point"`
	Width float64 `bcl:"w"`
}

var declaredTypes = []reflect.Type{
	reflect.TypeOf(Tunnel{}), reflect.TypeOf(HTTP_Server{}), reflect.TypeOf(srvConf{}),
	reflect.TypeOf(Extras{}), reflect.TypeOf(TunnelX{}), reflect.TypeOf(NPoint{}), reflect.TypeOf(Segment{}),
}

func shapeOf(t reflect.Type) *uShape {
	sh := &uShape{T: t, Tags: map[string]bool{}}
	for i := 0; i < t.NumField(); i++ {
		f := t.Field(i)
		tag := f.Tag.Get("bcl")
		if tag != "" {
			sh.Tags[tag] = true
		}
		if f.Name == "Name" && f.Type.Kind() == reflect.String && tag == "" {
			sh.HasName, sh.NameIdx = true, i
			continue
		}
		uf := uField{Name: f.Name, Tag: tag, Idx: i}
		switch f.Type.Kind() {
		case reflect.Int:
			uf.Kind = "int"
		case reflect.Float64:
			uf.Kind = "float"
		case reflect.String:
			uf.Kind = "string"
		case reflect.Bool:
			uf.Kind = "bool"
		case reflect.Struct:
			uf.Kind = "struct"
			uf.Sub = shapeOf(f.Type)
			if uf.Sub.Depth+1 > sh.Depth {
				sh.Depth = uf.Sub.Depth + 1
			}
		default:
			panic("generator: unsupported field type " + f.Type.String())
		}
		sh.Fields = append(sh.Fields, uf)
	}
	return sh
}

var nameWords = []string{"Host", "Port", "LocalPort", "Remote_Port", "Max_conn", "URL", "HTTPServer", "X", "Y", "A1",
	"B2c", "Enabled", "Flag", "Timeout", "Id", "ID_", "Var", "Def", "Nil", "True", "False", "Or", "And", "Not", "Eval",
	"Print", "Bind", "Struct", "Slice", "First", "Last", "All", "Type", "Kind", "Uſer", "Field_1", "Q__q", "Z9",
	"Inner", "Extras", "Opts", "TLS", "MaxLatency", "Status", "Another_Field", "V", "N", "Names", "Nam", "TYPE", "Fields"}

var tagWords = []string{"my_status", "field3", "other_field", "k", "K", "_t", "t_", "Tagged", "HOST", "port_no", "x1",
	"first", "struct", "TYPE", "value", "v_", "Def", "NIL", "o_r"}

func randIdent(r *rand.Rand, upperFirst bool) string {
	const first = "abcdefghijklmnopqrstuvwxyzABCDEFGHIJKLMNOPQRSTUVWXYZ_"
	const rest = first + "0123456789_"
	n := 1 + r.Intn(8)
	b := make([]byte, n)
	b[0] = first[r.Intn(len(first))]
	if upperFirst {
		b[0] = first[26+r.Intn(26)]
	}
	for i := 1; i < n; i++ {
		b[i] = rest[r.Intn(len(rest))]
	}
	return string(b)
}

func genFieldName(r *rand.Rand) string {
	if r.Intn(3) == 0 {
		return randIdent(r, true)
	}
	return nameWords[r.Intn(len(nameWords))]
}

var scalarTypes = map[string]reflect.Type{"int": reflect.TypeOf(0), "float": reflect.TypeOf(0.0),
	"string": reflect.TypeOf(""), "bool": reflect.TypeOf(false)}

// genShapeType builds an anonymous struct type of the family with reflect.StructOf.
func genShapeType(r *rand.Rand, depth int, st map[string]int) reflect.Type {
	nf := r.Intn(7)
	if r.Intn(12) == 0 {
		nf = 7 + r.Intn(10)
	}
	seen := map[string]bool{foldKey("Name"): true}
	var names []string
	for len(names) < nf {
		n := genFieldName(r)
		if k := foldKey(n); !seen[k] {
			seen[k] = true
			names = append(names, n)
		}
	}
	tags := map[string]bool{}
	var fs []reflect.StructField
	for i, n := range names {
		f := reflect.StructField{Name: n}
		kind := []string{"int", "float", "string", "bool"}[r.Intn(4)]
		if depth > 0 && r.Intn(4) == 0 {
			kind = "struct"
		}
		var sub reflect.Type
		if kind == "struct" {
			if r.Intn(8) == 0 {
				sub = reflect.TypeOf(Extras{}) // a named nested type: needs a tag or a matching field name
				if r.Intn(2) == 0 && !seen[foldKey("Extras")] {
					seen[foldKey("Extras")] = true
					f.Name = "Extras"
				}
			} else {
				sub = genShapeType(r, depth-1, st)
			}
			f.Type = sub
		} else {
			f.Type = scalarTypes[kind]
		}
		// tags
		needTag := sub != nil && sub.Name() != "" && !foldEq(f.Name, sub.Name())
		if needTag || r.Intn(10) < 3 {
			var tag, how string
			for try := 0; try < 20; try++ {
				switch k := r.Intn(10); {
				case needTag:
					tag, _ = spellKey(r, sub.Name())
					how = "named-nested"
				case k < 4:
					tag, how = tagWords[r.Intn(len(tagWords))], "unrelated"
				case k < 6:
					tag, how = randIdent(r, false), "unrelated"
				case k < 8 && nf > 1:
					// the tag is a spelling of another field's name: the tag must win
					other := names[(i+1+r.Intn(nf-1))%nf]
					tag, _ = spellKey(r, other)
					how = "steals-other-name"
				default:
					tag, _ = spellKey(r, f.Name)
					how = "own-name-variant"
				}
				if kind == "struct" && !needTag && r.Intn(3) == 0 && hasNameField(sub) {
					// the "type.name" form selects one named nested block
					tag += "." + []string{"a", "foo", "x y", "n.m", "é", "0"}[r.Intn(6)]
					how = "dotted"
				}
				if !tags[tag] && isBCLIdent(strings.SplitN(tag, ".", 2)[0]) && !foldEq(tag, "Name") {
					break
				}
				tag = ""
			}
			if tag == "" && needTag {
				panic("generator: cannot tag a named nested type")
			}
			if tag != "" {
				tags[tag] = true
				st["shape.tag."+how]++
				f.Tag = reflect.StructTag(fmt.Sprintf(`bcl:%q`, tag))
				if r.Intn(4) == 0 {
					f.Tag = reflect.StructTag(fmt.Sprintf(`json:"j%d" bcl:%q yaml:"-"`, i, tag))
				}
			}
		}
		fs = append(fs, f)
	}
	if r.Intn(2) == 0 {
		at := r.Intn(len(fs) + 1)
		fs = append(fs, reflect.StructField{})
		copy(fs[at+1:], fs[at:])
		fs[at] = reflect.StructField{Name: "Name", Type: scalarTypes["string"]}
	}
	return reflect.StructOf(fs)
}

func hasNameField(t reflect.Type) bool {
	f, ok := t.FieldByName("Name")
	return ok && f.Type.Kind() == reflect.String
}

// ---------- values and their BCL text ----------

var uInts = []int{0, 0, 1, 1, -1, 2, 7, 42, 255, -128, 65536, math.MaxInt32 + 1, math.MinInt32 - 1,
	math.MaxInt64, math.MinInt64, math.MaxInt64 - 1, math.MinInt64 + 1, 1 << 53, -(1 << 62)}

var uFloats = []float64{0, 0, 1, -1, 0.5, 1.5, -2.25, 3.14, 0.1, 1.0 / 3, 1e21, 1e20, 1e-7, 1e-5, 5e-324, 2.2250738585072014e-308,
	math.MaxFloat64, -math.MaxFloat64, 1e100, -1e-100, 123456.789, 100000, 1e6, 9007199254740993, 0.30000000000000004,
	math.Inf(1), math.Inf(-1), math.Copysign(0, -1), 4.35, 8.5}

var uStrings = []string{"", "", "a", "hello world", `q"uote`, `back\slash`, "tab\there", "nl\nx", "cr\r\nlf", "é世界",
	"#not a comment", "a;b", "{}", "}", "\x00", "\xff\xfe", " \u0085", "'", "`", "\\n", `\"`, "  lead", "trail ",
	"\U0001F600", "\x7f\x1b[0m", "true", "0", "1.5", "nil", "def x {", "a\\", "\"", "�", "\xc3", "é"}

var uBlockNames = []string{"", "", "n1", "a b", "é", "x.y", `q"q`, "with\nnl", ".", "a.b.c", "name", "Name", "\xff", "0", " "}

func (u *ugen) randString() string {
	r := u.r
	switch r.Intn(10) {
	case 0:
		b := make([]byte, r.Intn(12))
		for i := range b {
			b[i] = byte(r.Intn(256))
		}
		u.st["value.string.random-bytes"]++
		return string(b)
	case 1:
		rs := make([]rune, r.Intn(8))
		for i := range rs {
			rs[i] = rune(r.Intn(0x3000))
		}
		u.st["value.string.random-runes"]++
		return string(rs)
	case 2:
		u.st["value.string.long"]++
		return strings.Repeat(uStrings[r.Intn(len(uStrings))]+"x", 20+r.Intn(100))
	}
	s := uStrings[r.Intn(len(uStrings))]
	switch {
	case s == "":
		u.st["value.string.empty"]++
	case strconv.Quote(s) != `"`+s+`"`:
		u.st["value.string.needs-escape"]++
	default:
		u.st["value.string.plain"]++
	}
	return s
}

func litInt(r *rand.Rand, v int, st map[string]int) string {
	if v == math.MinInt64 {
		st["lit.int.minint"]++
		return "-9223372036854775807 - 1"
	}
	if v < 0 {
		st["lit.int.negative"]++
		switch r.Intn(4) {
		case 0:
			return "0 - " + strconv.Itoa(-v)
		case 1:
			return "(-" + strconv.Itoa(-v) + ")"
		}
		return "-" + strconv.Itoa(-v)
	}
	switch r.Intn(8) {
	case 0:
		st["lit.int.hex"]++
		return fmt.Sprintf("0x%x", v)
	case 1:
		st["lit.int.hex"]++
		return fmt.Sprintf("0X%X", v)
	case 2:
		st["lit.int.octal"]++
		return fmt.Sprintf("0%o", v)
	}
	st["lit.int.decimal"]++
	return strconv.Itoa(v)
}

func litFloat(r *rand.Rand, v float64, st map[string]int) string {
	if math.IsInf(v, 1) {
		st["lit.float.inf"]++
		return "1e308 * 10"
	}
	if math.IsInf(v, -1) {
		st["lit.float.inf"]++
		return "-1e308 * 10.0"
	}
	neg := math.Signbit(v)
	a := math.Abs(v)
	var s string
	switch r.Intn(6) {
	case 0:
		s = strconv.FormatFloat(a, 'e', -1, 64)
		st["lit.float.e"]++
	case 1:
		s = strconv.FormatFloat(a, 'E', -1, 64)
		st["lit.float.e"]++
	case 2:
		s = strconv.FormatFloat(a, 'f', -1, 64)
		st["lit.float.f"]++
	default:
		s = strconv.FormatFloat(a, 'g', -1, 64)
		st["lit.float.g"]++
	}
	if !strings.ContainsAny(s, ".eE") {
		s += ".0"
	}
	if neg {
		st["lit.float.negative"]++
		if r.Intn(4) == 0 {
			return "(-" + s + ")"
		}
		return "-" + s
	}
	return s
}

func litString(r *rand.Rand, s string, st map[string]int) string {
	plain := utf8.ValidString(s)
	for _, c := range s {
		if c == '"' || c == '\\' || c == utf8.RuneError || c != '\t' && !unicode.IsPrint(c) {
			plain = false
		}
	}
	switch k := r.Intn(6); {
	case k == 0:
		st["lit.string.ascii-escapes"]++
		return strconv.QuoteToASCII(s)
	case k <= 2 && plain:
		st["lit.string.raw"]++
		return `"` + s + `"`
	}
	st["lit.string.quote"]++
	return strconv.Quote(s)
}

type ugen struct {
	r     *rand.Rand
	st    map[string]int
	nkeys int
}

var commentTexts = []string{"# comment", "#", "# x = 1", "# } \"", "#é世界"}

// block generates a value of the shape and, at the same time, its BCL text.
func (u *ugen) block(sh *uShape, typ, name string, omitZero bool, depth int) (reflect.Value, string) {
	r := u.r
	v := reflect.New(sh.T).Elem()
	if sh.HasName {
		v.Field(sh.NameIdx).SetString(name)
	} else if name != "" {
		panic("generator: name without Name field")
	}
	var items []string
	for _, f := range sh.Fields {
		fv := v.Field(f.Idx)
		if f.Kind == "struct" {
			sub := f.Sub
			subNamed := sub.T.Name() != ""
			tagType, tagName, dotted := strings.Cut(f.Tag, ".")
			var ways []string
			if !subNamed || foldEq(f.Name, sub.T.Name()) {
				ways = append(ways, "name")
			}
			if f.Tag != "" && (!subNamed || foldEq(tagType, sub.T.Name())) && (!dotted || sub.HasName && tagName != "") {
				ways = append(ways, "tag", "tag")
			}
			if len(ways) == 0 {
				panic("generator: nested field cannot be addressed: " + f.Name)
			}
			var btyp, bname string
			switch ways[r.Intn(len(ways))] {
			case "tag":
				btyp, bname = tagType, tagName
				if dotted {
					u.st["key.nested.dotted-tag"]++
				} else {
					u.st["key.nested.tag"]++
				}
			default:
				for {
					btyp, _ = spellKey(r, f.Name)
					bname = ""
					if sub.HasName {
						bname = uBlockNames[r.Intn(len(uBlockNames))]
					}
					key := btyp
					if bname != "" {
						key += "." + bname
					}
					// the whole key must not be somebody's tag, which would take precedence
					if !sh.Tags[key] {
						break
					}
				}
				if bname != "" {
					u.st["key.nested.name.named-block"]++
				} else {
					u.st["key.nested.name"]++
				}
			}
			sv, text := u.block(sub, btyp, bname, omitZero, depth+1)
			fv.Set(sv)
			if omitZero && sv.IsZero() && r.Intn(2) == 0 {
				u.st["omitted.zero-nested-block"]++
				continue
			}
			items = append(items, text)
			continue
		}
		var lit string
		switch f.Kind {
		case "int":
			x := uInts[r.Intn(len(uInts))]
			switch r.Intn(4) {
			case 0:
				x = int(r.Uint64())
			case 1:
				x = r.Intn(2000) - 1000
			}
			fv.SetInt(int64(x))
			lit = litInt(r, x, u.st)
			switch {
			case x == 0:
				u.st["value.int.zero"]++
			case x == math.MaxInt64 || x == math.MinInt64:
				u.st["value.int.extreme"]++
			case x < 0:
				u.st["value.int.negative"]++
			default:
				u.st["value.int.positive"]++
			}
		case "float":
			x := uFloats[r.Intn(len(uFloats))]
			switch r.Intn(4) {
			case 0:
				x = math.Float64frombits(r.Uint64())
				if math.IsNaN(x) {
					x = 0.25
				}
			case 1:
				x = r.NormFloat64() * math.Pow(10, float64(r.Intn(40)-20))
			}
			fv.SetFloat(x)
			lit = litFloat(r, x, u.st)
			switch {
			case x == 0:
				u.st["value.float.zero"]++
			case math.IsInf(x, 0):
				u.st["value.float.inf"]++
			case math.Abs(x) < 1e-300 || math.Abs(x) > 1e300:
				u.st["value.float.extreme-exponent"]++
			default:
				u.st["value.float.other"]++
			}
		case "string":
			x := u.randString()
			fv.SetString(x)
			lit = litString(r, x, u.st)
		case "bool":
			x := r.Intn(2) == 0
			fv.SetBool(x)
			lit = strconv.FormatBool(x)
			u.st["value.bool"]++
		}
		if omitZero && fv.IsZero() && r.Intn(2) == 0 {
			u.st["omitted.zero-field"]++
			continue
		}
		var key string
		if f.Tag != "" && r.Intn(4) != 0 {
			key = f.Tag
			u.st["key.tag"]++
		} else {
			var mode string
			for {
				key, mode = spellKey(r, f.Name)
				if !sh.Tags[key] || key == f.Tag {
					break
				}
			}
			u.st["key."+mode]++
			if f.Tag != "" {
				u.st["key.by-name-though-tagged"]++
			}
		}
		u.nkeys++
		items = append(items, key+u.sp()+"="+u.sp()+lit)
	}
	r.Shuffle(len(items), func(i, j int) { items[i], items[j] = items[j], items[i] })
	var b strings.Builder
	b.WriteString("def" + u.sp1() + typ)
	switch {
	case name != "":
		b.WriteString(u.sp1() + litString(r, name, u.st)) // `type"name"` is a lexical error
	case r.Intn(6) == 0:
		b.WriteString(u.sp1() + `""`)
	}
	b.WriteString(u.sp() + "{")
	ind := strings.Repeat("\t", depth+1)
	for _, it := range items {
		switch r.Intn(8) {
		case 0:
			b.WriteString(" ")
		case 1:
			b.WriteString("\n" + ind + commentTexts[r.Intn(len(commentTexts))] + "\n" + ind)
		default:
			b.WriteString("\n" + ind)
		}
		b.WriteString(it)
		switch r.Intn(6) {
		case 0:
			b.WriteString(";")
		case 1:
			b.WriteString(" ; ")
		case 2:
			b.WriteString(" # " + []string{"[ms]", "}", "x=2"}[r.Intn(3)] + "\n")
		}
	}
	b.WriteString("\n" + strings.Repeat("\t", depth) + "}")
	return v, b.String()
}

func (u *ugen) sp() string {
	switch u.r.Intn(8) {
	case 0:
		return ""
	case 1:
		return "  "
	case 2:
		return "\t"
	}
	return " "
}

func (u *ugen) sp1() string {
	if s := u.sp(); s != "" {
		return s
	}
	return " "
}

var topTypeNames = []string{"tunnel", "srv", "db", "conf", "t", "Block_1", "_x", "first", "all", "struct", "slice", "TYPE", "NAME", "x9", "T"}

const shapePool = 30000

// streamUnmarshal: C05.
func streamUnmarshal(ctx *Ctx) *Result {
	res := NewResult("unmarshal", "struct shapes from int/float64/string/bool fields, nested structs, optional Name field and bcl tags "+
		"(reflect.StructOf types and declared named types), random values rendered as BCL with randomly spelled keys, bound with "+
		"'-> struct' and '-> slice' into fresh and stale targets; non-trivial = at least 2 keys written in the text; "+
		"distinct by Go type and source text")
	parallelCPU(ctx.Seed, 0x05, ctx.N(100000), func(i int, r *rand.Rand) {
		u := &ugen{r: r, st: map[string]int{}}
		// shape
		var t reflect.Type
		named := r.Intn(5) == 0
		if named {
			t = declaredTypes[r.Intn(len(declaredTypes))]
			u.st["type.named"]++
		} else {
			// shapes come from a bounded pool (reflect keeps every StructOf type forever);
			// values, spellings and layout are fresh for every case
			tr := rand.New(rand.NewSource(ctx.Seed*7919 + int64(r.Intn(shapePool))<<20))
			t = genShapeType(tr, tr.Intn(4), u.st)
			u.st["type.anonymous"]++
		}
		sh := shapeOf(t)
		// block type
		var typ string
		if named {
			typ, _ = spellKey(r, t.Name())
		} else {
			typ = topTypeNames[r.Intn(len(topTypeNames))]
			if r.Intn(3) == 0 {
				typ = randIdent(r, false)
			}
			if !isBCLIdent(typ) {
				typ = "t"
			}
		}
		pickName := func() string {
			if !sh.HasName {
				return ""
			}
			if r.Intn(6) == 0 {
				return u.randString()
			}
			return uBlockNames[r.Intn(len(uBlockNames))]
		}
		// negative case: a named struct type must match the block type
		if named && r.Intn(8) == 0 {
			wrong := topTypeNames[r.Intn(len(topTypeNames))]
			if r.Intn(2) == 0 {
				wrong = typ + "s"
			}
			if !foldEq(wrong, t.Name()) && isBCLIdent(wrong) {
				_, text := u.block(sh, wrong, pickName(), false, 0)
				src := text + "\nbind " + wrong + " -> struct\n"
				target := reflect.New(t)
				var log bytes.Buffer
				var err error
				p := guardedCall(func() {
					err = bcl.Unmarshal([]byte(src), target.Interface(), bcl.OptOutput(io.Discard), bcl.OptLogger(&log))
				})
				res.Eval(1)
				u.st["case.type-name-mismatch"]++
				res.Merge(u.st)
				if p != "" || err == nil {
					res.Fail(Failure{Kind: "oracle", Op: "Unmarshal", Input: fmt.Sprintf("Go type: %s (named %s)\nsource:\n%s", t, t.Name(), src),
						Impl:     fmt.Sprintf("%s err=%v target=%+v", p, err, target.Elem().Interface()),
						Expected: "an error: the struct type's name does not match the block type"})
				}
				return
			}
		}
		var (
			src       strings.Builder
			nblocks   = 1
			slice     = r.Intn(2) == 0
			sel       string
			want      reflect.Value
			prevDescr string
			target    reflect.Value
		)
		distractor := func() {
			// a block of another type (possibly a differently spelled, fold-equal type): never selected
			dt := typ
			for dt == typ {
				switch r.Intn(3) {
				case 0:
					dt, _ = spellKey(r, typ)
				case 1:
					dt = topTypeNames[r.Intn(len(topTypeNames))]
				default:
					dt = typ + "_2"
				}
			}
			if !isBCLIdent(dt) {
				return
			}
			_, text := u.block(sh, dt, pickName(), false, 0)
			src.WriteString(text + "\n")
			u.st["source.distractor-block"]++
		}
		if r.Intn(5) == 0 {
			nblocks = 2 + r.Intn(4)
		}
		if slice && r.Intn(3) != 0 {
			nblocks = 1 + r.Intn(6)
		}
		vals := make([]reflect.Value, nblocks)
		// stale previous contents
		var stale []reflect.Value
		staleStruct := false
		if slice {
			n := r.Intn(4)
			for k := 0; k < n; k++ {
				sv, _ := (&ugen{r: r, st: map[string]int{}}).block(sh, "s", pickName(), false, 0)
				stale = append(stale, sv)
			}
			u.st[fmt.Sprintf("target.slice.stale-elements=%d", n)]++
		} else if r.Intn(4) == 0 {
			staleStruct = true
			u.st["target.struct.stale"]++
		} else {
			u.st["target.struct.zero"]++
		}
		// elements of a slice are always fresh, so zero fields may be left out; so may those of a zero struct target
		omit := !staleStruct && r.Intn(2) == 0
		for k := range vals {
			if r.Intn(5) == 0 {
				distractor()
			}
			var text string
			vals[k], text = u.block(sh, typ, pickName(), omit, 0)
			src.WriteString(text)
			src.WriteString([]string{"\n", "\n\n", " ", ";\n", "\n# ---\n"}[r.Intn(5)])
		}
		if r.Intn(5) == 0 {
			distractor()
		}
		if slice {
			switch {
			case nblocks == 1 && r.Intn(2) == 0:
				sel = []string{"", ":1", ":first", ":last", ":all"}[r.Intn(5)]
			case r.Intn(5) == 0:
				sel = []string{":first", ":last"}[r.Intn(2)]
			default:
				sel = ":all"
			}
			var exp []reflect.Value
			switch sel {
			case ":all":
				exp = vals
			case ":last":
				exp = vals[len(vals)-1:]
			default:
				exp = vals[:1]
			}
			want = reflect.MakeSlice(reflect.SliceOf(t), len(exp), len(exp))
			for k, e := range exp {
				want.Index(k).Set(e)
			}
			target = reflect.New(reflect.SliceOf(t))
			switch {
			case len(stale) > 0:
				s := reflect.MakeSlice(reflect.SliceOf(t), len(stale), len(stale)+r.Intn(3))
				for k, e := range stale {
					s.Index(k).Set(e)
				}
				target.Elem().Set(s)
			case r.Intn(2) == 0:
				target.Elem().Set(reflect.MakeSlice(reflect.SliceOf(t), 0, r.Intn(3)))
			}
			src.WriteString("bind" + u.sp1() + typ + u.sp() + sel + u.sp() + "->" + u.sp() + "slice")
			u.st["bind.slice"+sel]++
			u.st["bind.slice.blocks="+map[bool]string{true: "1", false: "2-6"}[len(exp) == 1]]++
		} else {
			switch {
			case nblocks == 1:
				sel = []string{"", "", ":1", ":first", ":last"}[r.Intn(5)]
			default:
				sel = []string{":first", ":last"}[r.Intn(2)]
			}
			want = vals[0]
			if sel == ":last" {
				want = vals[len(vals)-1]
			}
			target = reflect.New(t)
			if staleStruct {
				sv, _ := (&ugen{r: r, st: map[string]int{}}).block(sh, "s", pickName(), false, 0)
				target.Elem().Set(sv)
			}
			src.WriteString("bind" + u.sp1() + typ + u.sp() + sel + u.sp() + "->" + u.sp() + "struct")
			u.st["bind.struct"+sel]++
		}
		src.WriteString([]string{"", "\n", ";", " # end"}[r.Intn(4)])
		prevDescr = fmt.Sprintf("%+v", target.Elem().Interface())

		var log bytes.Buffer
		var err error
		text := src.String()
		p := guardedCall(func() {
			err = bcl.Unmarshal([]byte(text), target.Interface(), bcl.OptOutput(io.Discard), bcl.OptLogger(&log))
		})
		res.Eval(1)
		u.st[fmt.Sprintf("shape.nesting-depth=%d", sh.Depth)]++
		nfb := "0"
		switch nf := len(sh.Fields); {
		case nf >= 7:
			nfb = "7+"
		case nf >= 3:
			nfb = "3-6"
		case nf >= 1:
			nfb = "1-2"
		}
		u.st["shape.fields="+nfb]++
		u.st[fmt.Sprintf("shape.has-Name=%v", sh.HasName)]++
		res.Merge(u.st)
		if u.nkeys >= 2 {
			res.Nontrivial(t.String() + "\x00" + text)
		}
		if i < 4 {
			res.Sample(fmt.Sprintf("Go type: %s\n%s", t, text))
		}
		ok := p == "" && err == nil && reflect.DeepEqual(target.Elem().Interface(), want.Interface())
		if !ok {
			res.Fail(Failure{Kind: "oracle", Op: "Unmarshal",
				Input:    fmt.Sprintf("Go type: %s\nprevious target contents: %s\nsource:\n%s", t, prevDescr, text),
				Impl:     fmt.Sprintf("%s err=%v log=%q target=%+v", p, err, log.String(), target.Elem().Interface()),
				Expected: fmt.Sprintf("err=nil target=%+v", want.Interface())})
		}
	})
	return res
}
