package main

import (
	"fmt"
	"math/rand"
	"strings"
)

// ---------- named AST produced by the generator ----------

type Expr interface{}

type Lit struct {
	Kind string // int float str bool nil
	Text string // spelling
}
type Ident struct{ Name string }
type Assign struct {
	Name string
	E    Expr
}
type Unary struct {
	Op string // - + not
	E  Expr
}
type Binary struct {
	Op   string
	A, B Expr
}
type Paren struct{ E Expr }

type Stmt interface{}
type VarStmt struct {
	Name string
	Init Expr // may be nil
}
type PrintStmt struct{ E Expr }
type EvalStmt struct{ E Expr }
type ExprStmt struct{ E Expr } // only inside blocks
type DefStmt struct {
	Type string
	Name string // token text incl. quotes, "" if absent
	Body []Stmt
}
type BindStmt struct {
	Type string
	Sel  string // "", "1", "first", "last", "all", or junk
	Tgt  string
}
type RawStmt struct{ Toks []string } // damaged / free-form

// ---------- precedence-aware rendering to tokens ----------

func prec(e Expr) int {
	switch x := e.(type) {
	case Assign:
		return 1
	case Binary:
		switch x.Op {
		case "or":
			return 2
		case "and":
			return 3
		case "==", "!=":
			return 5
		case "<", "<=", ">", ">=":
			return 6
		case "+", "-":
			return 7
		default:
			return 8
		}
	case Unary:
		if x.Op == "not" {
			return 4
		}
		return 9
	}
	return 10
}

func exprToks(e Expr, min int) []string {
	p := prec(e)
	var t []string
	switch x := e.(type) {
	case Lit:
		t = []string{x.Text}
	case Ident:
		t = []string{x.Name}
	case Paren:
		t = append(append([]string{"("}, exprToks(x.E, 1)...), ")")
	case Assign:
		t = append([]string{x.Name, "="}, exprToks(x.E, 1)...)
	case Unary:
		t = append([]string{x.Op}, exprToks(x.E, p)...)
	case Binary:
		if x.Op == "and" || x.Op == "or" {
			t = append(append(exprToks(x.A, p+1), x.Op), exprToks(x.B, p)...)
		} else {
			t = append(append(exprToks(x.A, p), x.Op), exprToks(x.B, p+1)...)
		}
	}
	if p < min {
		t = append(append([]string{"("}, t...), ")")
	}
	return t
}

// stmtToks renders a statement; semi tells whether to put the optional ';'.
func stmtToks(s Stmt, semi func() bool) []string {
	var t []string
	switch x := s.(type) {
	case VarStmt:
		t = []string{"var", x.Name}
		if x.Init != nil {
			t = append(append(t, "="), exprToks(x.Init, 1)...)
		}
	case PrintStmt:
		t = append([]string{"print"}, exprToks(x.E, 1)...)
	case EvalStmt:
		t = append([]string{"eval"}, exprToks(x.E, 1)...)
	case ExprStmt:
		t = exprToks(x.E, 1)
	case DefStmt:
		t = []string{"def", x.Type}
		if x.Name != "" {
			t = append(t, x.Name)
		}
		t = append(t, "{")
		for _, b := range x.Body {
			t = append(t, stmtToks(b, semi)...)
		}
		t = append(t, "}")
	case BindStmt:
		t = []string{"bind", x.Type}
		if x.Sel != "" {
			t = append(t, ":", x.Sel)
		}
		t = append(t, "->", x.Tgt)
	case RawStmt:
		t = append(t, x.Toks...)
	}
	if semi() {
		t = append(t, ";")
	}
	return t
}

func progToks(ss []Stmt, semi func() bool) []string {
	var t []string
	for _, s := range ss {
		t = append(t, stmtToks(s, semi)...)
	}
	return t
}

// ---------- layout ----------

type Layout struct {
	r       *rand.Rand
	Fancy   bool // use exotic whitespace and comments
	Compact bool // single spaces only
}

var spaces = []string{" ", " ", " ", "\n", "\t", "  ", "\r\n", "\v", "\f", "\u0085", " ", "\n\n", " \t "}
var commentBodies = []string{"", " c", " \"quoted\" var def", " é世界", " ; } { ) (", "#", " print 1", "\t\x01\xff"}

func (l *Layout) sep() string {
	if l.Compact {
		return " "
	}
	if !l.Fancy {
		if l.r.Intn(6) == 0 {
			return "\n"
		}
		return " "
	}
	switch l.r.Intn(10) {
	case 0, 1:
		n := 1 + l.r.Intn(3)
		var b strings.Builder
		for i := 0; i < n; i++ {
			b.WriteString(spaces[l.r.Intn(len(spaces))])
		}
		return b.String()
	case 2:
		eol := "\n"
		if l.r.Intn(3) == 0 {
			eol = "\r"
		}
		pre := ""
		if l.r.Intn(2) == 0 {
			pre = " "
		}
		return pre + "#" + commentBodies[l.r.Intn(len(commentBodies))] + eol
	default:
		return spaces[l.r.Intn(len(spaces))]
	}
}

func (l *Layout) Join(toks []string) string {
	var b strings.Builder
	if l.Fancy && l.r.Intn(3) == 0 {
		b.WriteString(l.sep())
	}
	for i, t := range toks {
		if i > 0 {
			b.WriteString(l.sep())
		}
		b.WriteString(t)
	}
	if l.r.Intn(2) == 0 {
		b.WriteString("\n")
	}
	return b.String()
}

// ---------- typed program generator ----------

type vinfo struct {
	name string
	typ  string // int float str bool nil any
}

type scope struct {
	vars       []vinfo // visible variables, innermost last
	nvarsOuter int     // how many belong to enclosing scopes (for duplicate check)
	fields     []vinfo // fields assigned so far in this block
	outer      *scope
	inBlock    bool
}

type Gen struct {
	r              *rand.Rand
	Stats          map[string]int
	MaxDepth       int
	ErrRate        int      // 1/ErrRate of operations deliberately ill-typed (0 = never)
	Blocks         []string // types of completed toplevel blocks (for bind)
	OneLineStrings bool     // no string literal whose value contains a line break
	Used           []string // spellings of the numeric literals and names used so far in this program
}

// echo: a string literal (or block name) whose content is the spelling of a number or a name
// used earlier in the same program - one text in two roles (constant pools, caches keyed by text)
func (g *Gen) echo() (string, bool) {
	if len(g.Used) == 0 || !g.chance(7) {
		return "", false
	}
	g.count("echo-spelling")
	return `"` + g.Used[g.r.Intn(len(g.Used))] + `"`, true
}

func (g *Gen) use(sp string) string {
	if len(g.Used) < 64 {
		g.Used = append(g.Used, sp)
	}
	return sp
}

func NewGen(r *rand.Rand) *Gen {
	return &Gen{r: r, Stats: map[string]int{}, MaxDepth: 5, ErrRate: 12}
}

func (g *Gen) count(k string)          { g.Stats[k]++ }
func (g *Gen) pick(xs []string) string { return xs[g.r.Intn(len(xs))] }
func (g *Gen) chance(n int) bool       { return n > 0 && g.r.Intn(n) == 0 }
func (g *Gen) pick2(a, b Expr) Expr {
	if g.r.Intn(2) == 0 {
		return a
	}
	return b
}

var intSpellings = []string{"0", "1", "2", "3", "7", "10", "42", "255", "1000", "65536", "00", "01", "007", "017", "0x0", "0x1", "0X1f", "0xFF", "0xdeadBEEF", "9223372036854775807", "4611686018427387904", "2147483648", "123456789"}
var badIntSpellings = []string{"08", "0x", "9223372036854775808", "09", "99999999999999999999"}
var floatSpellings = []string{"0.0", "1.0", "1.5", "0.5", "0.1", "2.25", "3.14", "1e3", "1E3", "1e-3", "1.5e+3", "2.5E-2", "100.0", "123456.789", "1e6", "1e20", "1e21", "1e-5", "1e-7", "0.000001", "5e-324", "1.7976931348623157e308", "9007199254740993.0", "0.30000000000000004", "1e0", "00.5", "0e0", "4.35"}
var badFloatSpellings = []string{"1e999", "1.8e308"}
var strSpellings = []string{`""`, `"a"`, `"ab"`, `"hello world"`, `"x y"`, `"#not a comment"`, `"a;b"`, `"(p)"`, `"q\"uote"`, `"back\\slash"`, `"tab\there"`, `"nl\nx"`, `"\x41\x00"`, `"é"`, `"\U0001F600"`, `"\101\060"`, `"é世界"`, `"  lead"`, `"0"`, `"1.5"`, `"true"`, `"{}"`, `"\a\b\f\r\v"`, `"\xff"`,
	// raw layout characters between the quotes: nothing inside a literal is layout
	"\"a\rb\"", "\"x\ty\"", `"100%"`, `"%d%s%v"`, `"%"`, `"%!s(MISSING)"`, "\"v\vf\f.\"", "\"n\u0085l\"", "\"nb\u00a0sp\"", "\"cr\r#x;(\"", "\" \t \"", "\"\r\""}
var badStrSpellings = []string{`"\q"`, `"\x4"`, `"\u12"`, `"\400"`, `"\'"`}
var varNames = []string{"a", "b", "c", "x", "y", "z", "tmp_1", "Foo", "_u", "x2", "t"}
var fieldNames = []string{"f", "g", "h", "port", "host", "name", "x", "a", "max_conn", "Flag", "t", "u", "db"}
// block types: some differ only in case or underscores (they are different types to bind)
var typeNames = []string{"srv", "db", "t", "u", "conf", "f", "x", "srv_x", "SrvX", "srvx", "Srv", "SRV", "d_b"}
var blockNames = []string{`"n1"`, `"n2"`, `"a b"`, `"é"`, `""`, `"x.y"`, `"q\"q"`, `"n1."`, `".n1"`, `"x.y."`, `"."`, `"n1.."`, "\"a\rb\"", "\"t\tb\"", `"50%"`, `"%s"`, `"1.5"`, `"0"`, `"x"`, `"srv"`, `"true"`}

func (g *Gen) lit(kind string) Lit {
	switch kind {
	case "int":
		if g.chance(60) {
			g.count("lit.badint")
			return Lit{"int", g.pick(badIntSpellings)}
		}
		if g.chance(4) {
			return Lit{"int", g.use(fmt.Sprint(g.r.Intn(100000)))}
		}
		return Lit{"int", g.use(g.pick(intSpellings))}
	case "float":
		if g.chance(60) {
			g.count("lit.badfloat")
			return Lit{"float", g.pick(badFloatSpellings)}
		}
		if g.chance(4) {
			return Lit{"float", g.use(fmt.Sprintf("%d.%d", g.r.Intn(1000), g.r.Intn(1000)))}
		}
		if g.chance(6) {
			return Lit{"float", g.use(fmt.Sprintf("%de%d", 1+g.r.Intn(99), g.r.Intn(40)-20))}
		}
		return Lit{"float", g.use(g.pick(floatSpellings))}
	case "str":
		if g.chance(60) {
			g.count("lit.badstr")
			return Lit{"str", g.pick(badStrSpellings)}
		}
		if e, ok := g.echo(); ok {
			return Lit{"str", e}
		}
		sp := g.pick(strSpellings)
		for g.OneLineStrings && (strings.Contains(sp, `\n`) || strings.Contains(sp, `\r`) || strings.Contains(sp, `\v`) || strings.Contains(sp, `\f`) || strings.ContainsAny(sp, "\r\v\f\u0085")) {
			sp = g.pick(strSpellings)
		}
		return Lit{"str", sp}
	case "bool":
		return Lit{"bool", g.pick([]string{"true", "false"})}
	default:
		return Lit{"nil", "nil"}
	}
}

var allTypes = []string{"int", "float", "str", "bool", "nil"}

func (g *Gen) anyType() string { return g.pick(allTypes) }

// lookup finds visible names of a wanted type ("any" matches all).
func (sc *scope) named(want string) []string {
	var out []string
	seen := map[string]bool{}
	for s := sc; s != nil; s = s.outer {
		for i := len(s.vars) - 1; i >= 0; i-- {
			v := s.vars[i]
			if !seen[v.name] {
				seen[v.name] = true
				if want == "any" || v.typ == want {
					out = append(out, v.name)
				}
			}
		}
		break // vars already include outer ones
	}
	for s := sc; s != nil; s = s.outer {
		if !s.inBlock {
			continue
		}
		for _, f := range s.fields {
			if !seen[f.name] {
				seen[f.name] = true
				if want == "any" || f.typ == want {
					out = append(out, f.name)
				}
			}
		}
	}
	return out
}

func (sc *scope) isVar(name string) bool {
	for _, v := range sc.vars {
		if v.name == name {
			return true
		}
	}
	return false
}

func (sc *scope) setType(name, typ string) {
	for i := len(sc.vars) - 1; i >= 0; i-- {
		if sc.vars[i].name == name {
			sc.vars[i].typ = typ
			return
		}
	}
	if sc.inBlock {
		for i := range sc.fields {
			if sc.fields[i].name == name {
				sc.fields[i].typ = typ
				return
			}
		}
		sc.fields = append(sc.fields, vinfo{name, typ})
	}
}

// expr generates an expression meant to have dynamic type want.
func (g *Gen) expr(sc *scope, want string, depth int) Expr {
	if want == "any" {
		want = g.anyType()
	}
	if want == "num" {
		want = g.pick([]string{"int", "float"})
	}
	e := g.expr1(sc, want, depth)
	if g.chance(9) {
		g.count("expr.redundant-paren")
		e = Paren{e}
	}
	return e
}

func (g *Gen) leaf(sc *scope, want string) Expr {
	if names := sc.named(want); len(names) > 0 && g.chance(2) {
		g.count("leaf.ident")
		return Ident{g.pick(names)}
	}
	g.count("leaf.lit." + want)
	return g.lit(want)
}

func (g *Gen) expr1(sc *scope, want string, depth int) Expr {
	if depth <= 0 || g.chance(4) {
		return g.leaf(sc, want)
	}
	d := depth - 1
	// deliberately ill-typed operation
	if g.chance(g.ErrRate) {
		g.count("expr.illtyped")
		ops := []string{"+", "-", "*", "/", "<", ">", "<=", ">="}
		op, ta, tb := g.pick(ops), g.anyType(), g.anyType()
		if (op == "*" || op == "+") && ta == "str" {
			// a string result must not appear where the generator believes another type is:
			// it could reach '*' with a huge count (C06 excludes results beyond 2^20 bytes).
			// The other operand is therefore a literal true/false - a generated expression
			// "of type bool" can evaluate to nil (`nil and false`), and string + nil is a
			// string again.
			return Binary{op, g.expr(sc, ta, d), Lit{"bool", g.pick([]string{"true", "false"})}}
		}
		return Binary{op, g.expr(sc, ta, d), g.expr(sc, tb, d)}
	}
	// a sign in front of a literal at the edge of the 64-bit range
	if (want == "int" || want == "any") && g.chance(30) {
		return g.signedBoundary()
	}
	// unknown identifier
	if g.chance(40) {
		g.count("expr.unknown-ident")
		return Ident{g.pick([]string{"nosuch", "undefined_1"})}
	}
	// assignment embedded in an expression
	if g.chance(10) {
		// an embedded assignment may be skipped by a short-circuit, so it keeps the
		// tracked type of its target (a string must never flow into '*' with a big count)
		names := sc.named(want)
		if len(names) > 0 {
			name := g.pick(names)
			g.count("expr.assign")
			rhs := g.expr(sc, want, d)
			return Assign{name, rhs}
		}
	}
	// short-circuit operators returning an operand
	if g.chance(7) {
		op := g.pick([]string{"and", "or"})
		g.count("expr." + op)
		// mixed-type operand on the side that may be returned or skipped
		right := g.expr(sc, want, d)
		if g.chance(12) {
			// a right operand of several hundred code bytes: the jump over it needs both operand bytes
			n := 130 + g.r.Intn(300)
			g.count("expr." + op + ".long-right-operand")
			var long Expr = Lit{"int", "1"}
			for k := 1; k < n; k++ {
				long = Binary{"+", long, Lit{"int", g.pick([]string{"1", "2", "0"})}}
			}
			right = Paren{Binary{"and", long, right}}
		}
		return Binary{op, g.expr(sc, g.pick([]string{want, "bool", "nil"}), d), right}
	}
	switch want {
	case "int":
		switch g.r.Intn(8) {
		case 0:
			g.count("expr.neg")
			return Unary{g.pick([]string{"-", "+"}), g.expr(sc, "int", d)}
		case 1:
			g.count("expr.intdiv")
			if g.chance(8) {
				g.count("expr.divzero")
				return Binary{"/", g.expr(sc, "int", d), Lit{"int", g.pick([]string{"0", "00", "0x0"})}}
			}
			return Binary{"/", g.expr(sc, "int", d), g.expr(sc, "int", d)}
		default:
			op := g.pick([]string{"+", "-", "*"})
			g.count("expr.int" + op)
			return Binary{op, g.expr(sc, "int", d), g.expr(sc, "int", d)}
		}
	case "float":
		switch g.r.Intn(6) {
		case 0:
			g.count("expr.fneg")
			return Unary{g.pick([]string{"-", "+"}), g.expr(sc, "float", d)}
		default:
			op := g.pick([]string{"+", "-", "*", "/"})
			ta, tb := "float", "float"
			switch g.r.Intn(3) {
			case 0:
				ta = "int"
			case 1:
				tb = "int"
			}
			g.count("expr.float" + op + "." + ta + "." + tb)
			return Binary{op, g.expr(sc, ta, d), g.expr(sc, tb, d)}
		}
	case "str":
		switch g.r.Intn(6) {
		case 0:
			g.count("expr.str+int")
			return Binary{"+", g.expr(sc, "str", d), g.expr(sc, "int", d)}
		case 1:
			g.count("expr.str+float")
			return Binary{"+", g.expr(sc, "str", d), g.expr(sc, "float", d)}
		case 2:
			g.count("expr.str+nil")
			return Binary{"+", g.expr(sc, "str", d), g.expr(sc, "nil", d)}
		case 3:
			g.count("expr.str*int")
			n := Expr(Lit{"int", fmt.Sprint(g.r.Intn(5))})
			if g.chance(10) {
				g.count("expr.str*neg")
				n = Unary{"-", Lit{"int", g.pick([]string{"1", "2", "0"})}}
				if g.chance(2) {
					// an empty string and a negative count
					g.count("expr.emptystr*neg")
					return Binary{"*", g.pick2(Lit{"str", `""`}, Binary{"+", Lit{"str", `""`}, Lit{"str", `""`}}), n}
				}
			}
			return Binary{"*", g.expr(sc, "str", d), n}
		default:
			g.count("expr.str+str")
			return Binary{"+", g.expr(sc, "str", d), g.expr(sc, "str", d)}
		}
	case "bool":
		switch g.r.Intn(7) {
		case 0:
			g.count("expr.not")
			if g.chance(3) {
				// negation (once or twice) over a parenthesised short-circuit whose last
				// operand is a comparison: the jump over that operand lands right at the
				// instructions the outer `not` adds
				g.count("expr.not.over-short-circuit")
				cmp := Binary{g.pick([]string{"!=", "<=", ">=", "==", "<", ">"}), g.expr(sc, "int", 0), g.expr(sc, "int", 0)}
				first := g.pick2(g.lit(g.pick([]string{"bool", "int", "nil", "str"})), g.expr(sc, "any", d))
				var e Expr = Unary{"not", Paren{Binary{g.pick([]string{"and", "or"}), first, cmp}}}
				if g.chance(3) {
					e = Unary{"not", e}
				}
				return e
			}
			return Unary{"not", g.expr(sc, "any", d)}
		case 1, 2:
			if g.chance(8) {
				return g.nearPair()
			}
			if g.chance(10) {
				return Binary{g.pick([]string{"==", "<"}), g.signedBoundary(), g.signedBoundary()}
			}
			op := g.pick([]string{"==", "!="})
			ta, tb := g.anyType(), g.anyType()
			if g.chance(2) {
				tb = ta
			}
			g.count("expr." + op + "." + ta + "." + tb)
			return Binary{op, g.expr(sc, ta, d), g.expr(sc, tb, d)}
		case 3:
			op := g.pick([]string{"<", "<=", ">", ">="})
			g.count("expr.strcmp" + op)
			return Binary{op, g.expr(sc, "str", d), g.expr(sc, "str", d)}
		default:
			op := g.pick([]string{"<", "<=", ">", ">="})
			ta, tb := g.pick([]string{"int", "float"}), g.pick([]string{"int", "float"})
			g.count("expr.numcmp" + op + "." + ta + "." + tb)
			return Binary{op, g.expr(sc, ta, d), g.expr(sc, tb, d)}
		}
	default:
		return g.leaf(sc, "nil")
	}
}

// nearPair: a comparison of two numbers that lie next to each other where the number formats
// change behaviour: integers beyond 2^53 (not all of them are float64 values), around 2^31, 2^32,
// 2^63; an integer against the float next to it.  Integer comparison is exact; int against float
// promotes the int.
func (g *Gen) nearPair() Expr {
	bases := []uint64{1 << 53, 1<<53 + 2, 1 << 62, 1<<63 - 2, 1 << 31, 1 << 32, 1<<24 + 1, 255, 1 << 60, 3002399751580331}
	b := bases[g.r.Intn(len(bases))]
	x := Lit{"int", fmt.Sprint(b + uint64(g.r.Intn(2)))}
	var y Expr = Lit{"int", fmt.Sprint(b + uint64(g.r.Intn(2)))}
	if g.chance(4) {
		y = Lit{"float", fmt.Sprintf("%d.0", b+uint64(g.r.Intn(2)))}
	}
	var l, r Expr = x, y
	if g.chance(2) {
		l, r = y, x
	}
	if g.chance(3) {
		l = Unary{"-", l}
		r = Unary{"-", r}
	}
	op := g.pick([]string{"==", "!=", "<", "<=", ">", ">="})
	g.count("expr.nearpair" + op)
	return Binary{op, l, r}
}

// signedBoundary: a sign applied to an integer literal at the edge of the 64-bit range, in decimal and
// hex, bare or in parentheses: 2^63 is no int literal, with or without a minus in front of it, and
// -(2^63-1)-1 is the way to write the smallest int.
func (g *Gen) signedBoundary() Expr {
	sp := g.pick([]string{"9223372036854775807", "9223372036854775808", "0x7fffffffffffffff", "0x8000000000000000",
		"9223372036854775808", "0x8000000000000000", "9223372036854775808", "0X8000000000000000",
		"9223372036854775806", "18446744073709551615", "0xffffffffffffffff", "4611686018427387904"})
	var e Expr = Lit{"int", sp}
	if g.chance(3) {
		e = Paren{e}
	}
	e = Unary{g.pick([]string{"-", "-", "+"}), e}
	if g.chance(3) {
		e = Unary{"-", Paren{e}}
	}
	g.count("expr.signedboundary")
	return e
}

func (g *Gen) stmts(sc *scope, n int, blockDepth int) []Stmt {
	var out []Stmt
	for i := 0; i < n; i++ {
		out = append(out, g.stmt(sc, blockDepth))
	}
	return out
}

func (g *Gen) stmt(sc *scope, blockDepth int) Stmt {
	k := g.r.Intn(100)
	switch {
	case k < 22:
		// var declaration
		name := g.pick(varNames)
		// avoid re-declaring in the same scope most of the time
		for try := 0; try < 3; try++ {
			dup := false
			for _, v := range sc.vars[sc.nvarsOuter:] {
				if v.name == name {
					dup = true
				}
			}
			if !dup || g.chance(15) {
				break
			}
			name = g.pick(varNames)
		}
		if g.chance(6) {
			g.count("stmt.var-noinit")
			sc.vars = append(sc.vars, vinfo{name, "nil"})
			return VarStmt{name, nil}
		}
		t := g.anyType()
		e := g.expr(sc, t, g.r.Intn(g.MaxDepth+1))
		g.count("stmt.var")
		sc.vars = append(sc.vars, vinfo{name, t})
		return VarStmt{name, e}
	case k < 45:
		g.count("stmt.print")
		return PrintStmt{g.expr(sc, "any", g.r.Intn(g.MaxDepth+1))}
	case k < 50:
		g.count("stmt.eval")
		return EvalStmt{g.expr(sc, "any", g.r.Intn(g.MaxDepth+1))}
	case k < 72 && sc.inBlock:
		// field assignment
		name := g.pick(fieldNames)
		t := g.anyType()
		if t == "nil" && g.chance(2) {
			t = "int"
		}
		if sc.isVar(name) {
			// the name is a variable: keep its tracked type (the enclosing scopes
			// track it too, and a string must never reach '*' with a big count)
			g.count("stmt.assign-var-in-block")
			for _, v := range sc.vars {
				if v.name == name {
					t = v.typ
				}
			}
		}
		e := g.expr(sc, t, g.r.Intn(g.MaxDepth+1))
		g.count("stmt.field")
		sc.setType(name, t)
		return ExprStmt{Assign{name, e}}
	case k < 76 && sc.inBlock:
		g.count("stmt.bare-expr")
		e := g.expr(sc, "any", g.r.Intn(g.MaxDepth+1))
		if t := exprToks(e, 1); t[0] == "+" || t[0] == "-" {
			// a statement starting with a sign would continue the previous statement
			// when the optional ';' is left out
			e = Paren{e}
		}
		return ExprStmt{e}
	case k < 90 && blockDepth < 4:
		typ := g.pick(typeNames)
		name := ""
		if g.chance(2) {
			name = g.pick(blockNames)
			if e, ok := g.echo(); ok {
				name = e
			}
		}
		g.use(typ)
		if g.chance(80) {
			name = `"\q"`
		}
		inner := &scope{vars: append([]vinfo(nil), sc.vars...), outer: sc, inBlock: true}
		inner.nvarsOuter = len(inner.vars)
		body := g.stmts(inner, g.r.Intn(5), blockDepth+1)
		g.count(fmt.Sprintf("stmt.def.depth%d", blockDepth+1))
		if blockDepth == 0 {
			g.Blocks = append(g.Blocks, typ)
		}
		return DefStmt{typ, name, body}
	case k < 96:
		typ := g.pick(typeNames)
		if len(g.Blocks) > 0 && !g.chance(6) {
			typ = g.pick(g.Blocks)
		}
		sel := g.pick([]string{"", "", "1", "first", "last", "all"})
		tgt := g.pick([]string{"struct", "slice", "slice"})
		if g.chance(25) {
			sel = g.pick([]string{"2", "any", "0x1", "01"})
		}
		if g.chance(25) {
			tgt = g.pick([]string{"map", "Struct", "x"})
		}
		g.count("stmt.bind." + sel + "." + tgt)
		return BindStmt{typ, sel, tgt}
	default:
		g.count("stmt.print")
		return PrintStmt{g.expr(sc, "any", g.r.Intn(g.MaxDepth+1))}
	}
}

// Program generates a whole program.
func (g *Gen) Program(nstmts int) []Stmt {
	g.Blocks = nil
	g.Used = nil
	if g.chance(12) {
		return g.bindFamily()
	}
	if g.chance(9) {
		return g.declWalk()
	}
	if g.chance(14) {
		return g.scopeFamily()
	}
	sc := &scope{}
	return g.stmts(sc, nstmts, 0)
}

// scopeFamily: what a name means after a nested block that used the same name has closed,
// and sibling blocks whose names differ only by dots: a field or variable of a closed
// child must not be visible afterwards, a field of the enclosing block must be, and
// `t "n"`, `t "n."`, `t ".n"` are three different children.
func (g *Gen) scopeFamily() []Stmt {
	lit := func(n int) Expr { return Lit{"int", fmt.Sprint(n)} }
	name := g.pick([]string{"x", "y", "srv"})
	var outer []Stmt
	if g.chance(2) {
		outer = append(outer, ExprStmt{Assign{name, lit(1)}})
	}
	// one or two children that assign or declare the same name
	nch := 1 + g.r.Intn(2)
	for c := 0; c < nch; c++ {
		var body []Stmt
		switch g.r.Intn(3) {
		case 0:
			body = append(body, ExprStmt{Assign{name, lit(20 + c)}})
		case 1:
			body = append(body, VarStmt{name, lit(30 + c)}, ExprStmt{Assign{"k", Ident{name}}})
		default:
			body = append(body, ExprStmt{Assign{name, lit(40 + c)}},
				DefStmt{"t", "", []Stmt{ExprStmt{Assign{name, lit(50 + c)}}, ExprStmt{Assign{"k", Ident{name}}}}})
		}
		nm := g.pick([]string{"", `"n"`, `"n."`, `".n"`, `"n.."`, `"N"`})
		typ := g.pick([]string{"t", "u"})
		outer = append(outer, DefStmt{typ, nm, body})
		g.count("scopefamily.child")
	}
	// then the name is read in the enclosing block (a runtime error if nothing defines it there)
	switch g.r.Intn(3) {
	case 0:
		outer = append(outer, ExprStmt{Assign{"after", Ident{name}}})
	case 1:
		outer = append(outer, PrintStmt{Ident{name}})
	default:
		outer = append(outer, ExprStmt{Assign{"after", Binary{"+", Ident{name}, lit(1)}}})
	}
	g.count("scopefamily")
	prog := []Stmt{DefStmt{"srv", "", outer}}
	if g.chance(2) {
		// … and in a later toplevel block
		prog = append(prog, DefStmt{"db", "", []Stmt{PrintStmt{Ident{name}}}})
	}
	return prog
}

// declWalk: one or two names declared, shadowed, declared again, read and assigned along a
// random walk through nested blocks: what a declaration after a closed inner scope meets (a
// second declaration in the same scope is a compile error also when an inner block shadowed the
// name in between; the same declaration is fine when only the inner block had it), what
// `var x = x + 1` reads, what a name means once the block that declared it has closed.
func (g *Gen) declWalk() []Stmt {
	// a small pool: the same spelling serves as variable, as field and as the type of an unnamed
	// nested block (whose key in its parent is that spelling)
	names := []string{g.pick(varNames)}
	for g.chance(2) && len(names) < 3 {
		names = append(names, g.pick(varNames))
	}
	// what each spelling may be in this walk (a spelling that is only ever a block type and read is
	// resolved differently from one that is also assigned somewhere)
	mayVar, mayField := map[string]bool{}, map[string]bool{}
	for _, nm := range names {
		mayVar[nm] = g.chance(2)
		mayField[nm] = g.chance(2)
	}
	childClosed := map[string]bool{}
	forceType := false
	n := 0
	lit := func() Expr { n++; return Lit{"int", fmt.Sprint(n + 1)} }
	val := func() Expr {
		if g.chance(5) {
			return Lit{"nil", "nil"}
		}
		return lit()
	}
	var walk func(depth int, budget *int) []Stmt
	walk = func(depth int, budget *int) []Stmt {
		var out []Stmt
		stmtOf := func(e Expr) Stmt {
			if depth > 0 && g.chance(2) {
				if _, isU := e.(Unary); isU {
					e = Paren{e}
				}
				return ExprStmt{e}
			}
			return EvalStmt{e}
		}
		for *budget > 0 {
			*budget--
			nm := g.pick(names)
			k := g.r.Intn(13)
			if k < 3 && !mayVar[nm] || (k == 7 || k == 8 || k == 9) && !mayField[nm] {
				k = 6 + 4*g.r.Intn(2) // a read instead: print nm, or nm compared with a name
			}
			if !mayVar[nm] && !mayField[nm] && !childClosed[nm] && k != 3 && k != 4 && k != 5 {
				// a spelling that is only a block type here is not read before a child of that type exists
				// (the first unresolved read ends the run): open such a child instead
				k = 3
				forceType = true
			}
			switch {
			case k < 3:
				var init Expr
				switch g.r.Intn(3) {
				case 0:
					init = val()
				case 1:
					init = Binary{"+", Ident{nm}, lit()} // reads the outer one, variable or field, if any
				}
				out = append(out, VarStmt{nm, init})
				g.count("declwalk.var")
			case k == 3 || k == 4:
				if depth < 3 {
					n++
					body := walk(depth+1, budget)
					name := fmt.Sprintf("%q", fmt.Sprintf("b%d", n))
					typ := g.pick([]string{"t", "u"})
					if g.chance(2) || forceType {
						// unnamed, and of a type spelled like one of the names: its key is that name
						name, typ = "", nm
						childClosed[nm] = true
						forceType = false
						if g.chance(3) {
							// … whose last assignment is to a field of that very name, and the key is
							// assigned in the parent straight after the child has closed
							body = append(body, ExprStmt{Assign{nm, lit()}})
							out = append(out, DefStmt{typ, name, body}, stmtOf(Assign{nm, val()}))
							g.count("declwalk.key-reuse")
							continue
						}
					}
					out = append(out, DefStmt{typ, name, body})
					g.count("declwalk.block")
				}
			case k == 5:
				if depth > 0 {
					return out
				}
			case k == 6:
				out = append(out, PrintStmt{Ident{nm}})
			case k == 7 || k == 8:
				v := val()
				out = append(out, stmtOf(Assign{nm, v}))
				if l, isLit := v.(Lit); depth > 0 && (isLit && l.Kind == "nil" && g.chance(2) || g.chance(6)) {
					// … and straight after the field, an unnamed child whose key is the same spelling
					out = append(out, DefStmt{nm, "", []Stmt{ExprStmt{Assign{"c", lit()}}}})
					childClosed[nm] = true
					g.count("declwalk.field-then-child")
				}
			case k == 9:
				// a discarded short-circuit chain that ends in an assignment, then a read of the same name
				cs := []Expr{Lit{"bool", "false"}, Lit{"bool", "true"}, Lit{"int", "0"}, Ident{g.pick(names)}}
				c := cs[g.r.Intn(len(cs))]
				op := g.pick([]string{"and", "or"})
				out = append(out, stmtOf(Binary{op, c, Paren{Assign{nm, lit()}}}))
				if g.chance(2) {
					out = append(out, PrintStmt{Ident{nm}})
				} else if depth > 0 {
					out = append(out, ExprStmt{Assign{"k", Ident{nm}}})
				}
				g.count("declwalk.shortcircuit-assign")
			case k == 10:
				// the name compared with itself (whatever it denotes here)
				out = append(out, PrintStmt{Binary{g.pick([]string{"==", "!="}), Ident{nm}, Ident{g.pick(names)}}})
			default:
				out = append(out, PrintStmt{Binary{"+", Ident{nm}, lit()}})
			}
		}
		return out
	}
	b := 4 + g.r.Intn(14)
	g.count("declwalk")
	if g.chance(2) {
		// everything inside one block: names are fields there unless declared
		return []Stmt{DefStmt{"srv", "", walk(1, &b)}}
	}
	return walk(0, &b)
}

// bindFamily: one to seven toplevel blocks of one type (told apart by a field),
// interleaved with blocks of other types, then one to three bind statements over them
// with every selector and target - what the selector picks depends on how many
// candidates there are and on where they stand among the other blocks.
func (g *Gen) bindFamily() []Stmt {
	typ := g.pick(typeNames)
	n := 1 + g.r.Intn(7)
	var out []Stmt
	other := func() {
		t := g.pick(typeNames)
		if t == typ {
			return
		}
		out = append(out, DefStmt{t, "", []Stmt{ExprStmt{Assign{"k", Lit{"int", fmt.Sprint(100 + g.r.Intn(9))}}}}})
	}
	for i := 0; i < n; i++ {
		for g.chance(3) {
			other()
		}
		name := ""
		if g.chance(3) {
			name = fmt.Sprintf("%q", fmt.Sprintf("n%d", i))
		}
		out = append(out, DefStmt{typ, name, []Stmt{ExprStmt{Assign{"k", Lit{"int", fmt.Sprint(i + 2)}}}}})
		if g.chance(6) {
			out = append(out, BindStmt{typ, g.pick([]string{"", "first", "last", "all"}), g.pick([]string{"struct", "slice"})})
		}
	}
	for g.chance(3) {
		other()
	}
	for j := 1 + g.r.Intn(3); j > 0; j-- {
		sel := g.pick([]string{"", "1", "first", "last", "last", "all"})
		tgt := g.pick([]string{"struct", "slice", "slice"})
		g.count(fmt.Sprintf("bindfamily.n%d.%s.%s", n, sel, tgt))
		out = append(out, BindStmt{typ, sel, tgt})
	}
	return out
}

// Render gives source text for a program.
func Render(ss []Stmt, r *rand.Rand, fancy bool) string {
	l := &Layout{r: r, Fancy: fancy}
	semi := func() bool { return r.Intn(4) == 0 }
	return l.Join(progToks(ss, semi))
}

// WideProgram: programs that push indices beyond the one-byte varint range and onto
// particular byte values: hundreds of variables (slots 28, 240, 241, 248, 249, 255, 256 …),
// hundreds of distinct field names and block types (constant indices ≥ 241), binds of
// late-defined types, scopes that end right after reading a chosen slot.
func WideProgram(r *rand.Rand) string {
	var b strings.Builder
	nv := []int{30, 60, 245, 250, 262, 300}[r.Intn(6)]
	hot := []int{0, 1, 27, 28, 29, 127, 128, 239, 240, 241, 242, 247, 248, 249, 250, 254, 255, 256, 257, 299}
	pick := func() int {
		k := hot[r.Intn(len(hot))]
		if k >= nv || r.Intn(4) == 0 {
			k = r.Intn(nv)
		}
		return k
	}
	switch r.Intn(4) {
	case 0: // toplevel variables, reads and assignments of chosen slots
		for i := 0; i < nv; i++ {
			fmt.Fprintf(&b, "var v%d = %d\n", i, i*3)
		}
		for j := 0; j < 6; j++ {
			k, m := pick(), pick()
			switch r.Intn(4) {
			case 0:
				fmt.Fprintf(&b, "print v%d + v%d\n", k, m)
			case 1:
				fmt.Fprintf(&b, "eval v%d = v%d * 2\nprint v%d\n", k, m, k)
			case 2:
				fmt.Fprintf(&b, "def blk%d { f = v%d; var t = v%d }\n", j, k, m)
			default:
				fmt.Fprintf(&b, "def q%d { var w = 1; g = v%d; var last = v%d }\nprint v%d\n", j, k, m, k)
			}
		}
		fmt.Fprintf(&b, "var last = v%d\n", pick())
	case 1: // variables inside a block, nested block reading them, scope ends after a read
		fmt.Fprintf(&b, "def outer \"o\" {\n")
		for i := 0; i < nv; i++ {
			fmt.Fprintf(&b, " var v%d = %d\n", i, i)
		}
		k := pick()
		fmt.Fprintf(&b, " x = v%d\n def inner { y = v%d + v%d; var t = v%d }\n var t = v%d\n}\n", k, pick(), pick(), pick(), pick())
	case 2: // many distinct field names: constant indices beyond 240
		fmt.Fprintf(&b, "def big {\n")
		for i := 0; i < nv; i++ {
			fmt.Fprintf(&b, " fld%d = %d\n", i, i)
		}
		fmt.Fprintf(&b, " s = fld%d + fld%d\n fld%d = fld%d - 1\n print fld%d\n}\n", pick(), pick(), pick(), pick(), pick())
	default: // many block types; bind a late one
		for i := 0; i < nv; i++ {
			fmt.Fprintf(&b, "def ty%d \"n%d\" { a = %d }\n", i, i, i)
		}
		k := pick()
		sel := []string{"", ":1", ":first", ":last", ":all"}[r.Intn(5)]
		tgt := "slice"
		if sel != ":all" && r.Intn(2) == 0 {
			tgt = "struct"
		}
		fmt.Fprintf(&b, "bind ty%d%s -> %s\n", k, sel, tgt)
		if r.Intn(2) == 0 {
			fmt.Fprintf(&b, "bind ty%d -> struct\n", pick())
		}
	}
	return b.String()
}
