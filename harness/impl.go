package main

import (
	"bytes"
	"fmt"
	"io"
	"regexp"
	"runtime/debug"
	"strconv"
	"strings"
	"sync/atomic"
	"time"

	"github.com/wkhere/bcl"
)

// guarded runs f with recover and a watchdog; it returns "panic: …" or "hang".
func guarded(timeout time.Duration, f func() string) (res string) {
	done := make(chan string, 1)
	go func() {
		defer func() {
			if r := recover(); r != nil {
				done <- fmt.Sprintf("PANIC %v | %s", r, firstFrames(string(debug.Stack())))
			}
		}()
		done <- f()
	}()
	if hangCount.Load() >= maxHangs {
		return "SKIPPED-AFTER-HANGS"
	}
	select {
	case s := <-done:
		return s
	case <-time.After(timeout):
		hangCount.Add(1)
		return "HANG"
	}
}

// After a few hangs the rest of a run is skipped: every hung call keeps a goroutine
// spinning, and the violation is already established.
var hangCount atomic.Int32

const maxHangs = 6

func firstFrames(st string) string {
	lines := strings.Split(st, "\n")
	var keep []string
	for _, l := range lines {
		if strings.Contains(l, "/repo/") {
			keep = append(keep, strings.TrimSpace(l))
			if len(keep) >= 3 {
				break
			}
		}
	}
	return strings.Join(keep, " <- ")
}

const opTimeout = 20 * time.Second

// implParse is the PARSE operation on the implementation.
func implParse(name string, src []byte, wantDisasm bool) string {
	return guarded(opTimeout, func() string {
		var out, log capBuf
		prog, err := bcl.Parse(src, name, bcl.OptOutput(&out), bcl.OptLogger(&log),
			bcl.OptStats(true), bcl.OptDisasm(wantDisasm))
		text, stats, ok := splitStats(rePStats, out.Bytes())
		if !ok {
			return "NOSTATS " + hx(out.Bytes())
		}
		lg := canonLog(log.Bytes())
		if err != nil {
			if len(text) != 0 {
				return "ERR-WITH-OUTPUT " + hx(text)
			}
			return fmt.Sprintf("ok=0 log=%s pstats=%s", hx(lg), stats)
		}
		d, derr := dumpOf(prog)
		if derr != nil {
			return "DUMPERR " + derr.Error()
		}
		dis := "-"
		if wantDisasm {
			dis = hx(text)
		} else if len(text) != 0 {
			return "UNEXPECTED-OUTPUT " + hx(text)
		}
		return fmt.Sprintf("ok=1 dump=%s log=%s pstats=%s disasm=%s", hxe(d), hx(lg), stats, dis)
	})
}

type chunkFile struct {
	chunks      [][]byte
	i           int
	closed      atomic.Int32
	eofWithLast bool // hand the last bytes over together with io.EOF
}

// Closed waits briefly for the reader goroutine (which closes the input just
// after handing over its result) and returns how often Close was called.
func (f *chunkFile) Closed() int {
	for i := 0; i < 2000 && f.closed.Load() == 0; i++ {
		time.Sleep(time.Millisecond)
	}
	return int(f.closed.Load())
}

func (f *chunkFile) Read(p []byte) (int, error) {
	for f.i < len(f.chunks) {
		c := f.chunks[f.i]
		if len(c) > len(p) {
			n := copy(p, c)
			f.chunks[f.i] = c[n:]
			return n, nil
		}
		f.i++
		n := copy(p, c)
		if f.eofWithLast && f.i == len(f.chunks) {
			return n, io.EOF
		}
		return n, nil
	}
	return 0, io.EOF
}
func (f *chunkFile) Close() error { f.closed.Add(1); return nil }
func (f *chunkFile) Name() string { return "input" }

// implParseChunks is PARSEC: ParseFile with the input delivered as the given reads.
func implParseChunks(chunks [][]byte) string { return implParseChunksEOF(chunks, false) }

func implParseChunksEOF(chunks [][]byte, eofWithLast bool) string {
	return guarded(opTimeout, func() string {
		var out, log capBuf
		cs := make([][]byte, len(chunks))
		copy(cs, chunks)
		f := &chunkFile{chunks: cs, eofWithLast: eofWithLast}
		prog, err := bcl.ParseFile(f, bcl.OptOutput(&out), bcl.OptLogger(&log), bcl.OptStats(true))
		_, stats, ok := splitStats(rePStats, out.Bytes())
		if !ok {
			return "NOSTATS " + hx(out.Bytes())
		}
		lg := canonLog(log.Bytes())
		if err != nil {
			return fmt.Sprintf("ok=0 log=%s pstats=%s", hx(lg), stats)
		}
		d, derr := dumpOf(prog)
		if derr != nil {
			return "DUMPERR " + derr.Error()
		}
		return fmt.Sprintf("ok=1 dump=%s log=%s pstats=%s", hxe(d), hx(lg), stats)
	})
}

// implRun is the RUN operation: load the dump, execute.
func implRun(dump []byte, trace bool) string {
	return guarded(opTimeout, func() string {
		var out, log capBuf
		prog, err := bcl.LoadProg(bytes.NewReader(dump), "x", bcl.OptOutput(&out), bcl.OptLogger(&log))
		if err != nil {
			return "loaderr " + loadErrClass(err)
		}
		res, binding, err := bcl.Execute(prog, bcl.OptOutput(&out), bcl.OptLogger(&log),
			bcl.OptTrace(trace), bcl.OptStats(true))
		text, stats, ok := splitStats(reXStats, out.Bytes())
		if !ok {
			return "NOSTATS " + hx(out.Bytes())
		}
		e := "-"
		if err != nil {
			e = hxe([]byte(err.Error()))
		}
		return fmt.Sprintf("done err=%s out=%s log=%s blocks=%s binding=%s xstats=%s",
			e, hx(text), hx(log.Bytes()), fmtBlocks(res), fmtBinding(binding), stats)
	})
}

// loadErrClass reduces a Load error to the part of the message bcl itself
// produces (up to the first colon); the rest comes from the standard library.
func loadErrClass(err error) string {
	s := err.Error()
	if i := strings.Index(s, ":"); i >= 0 {
		s = s[:i]
	}
	return s
}

func implLoad(bs []byte) string {
	return guarded(opTimeout, func() string {
		prog, err := bcl.LoadProg(bytes.NewReader(bs), "x", bcl.OptOutput(io.Discard), bcl.OptLogger(io.Discard))
		if err != nil {
			return "err " + loadErrClass(err)
		}
		return "ok " + fmtParts(prog)
	})
}

func implLex(chunks [][]byte) string {
	return guarded(opTimeout, func() string {
		cs := make([]string, len(chunks))
		for i, c := range chunks {
			cs[i] = string(c)
		}
		toks, lfs := bcl.VerifLex(cs)
		parts := make([]string, len(toks))
		for i, t := range toks {
			e := []byte(t.Err)
			if t.Err != "" {
				e = bytes.TrimSuffix(canonLog([]byte(t.Err+"\n")), []byte("\n"))
			}
			parts[i] = fmt.Sprintf("%s:%s:%s:%d", t.Type, hxs(t.Val), hx(e), t.Pos)
		}
		return strings.Join(parts, " ") + " | " + intsCSV(lfs)
	})
}

func chunksArg(chunks [][]byte) string {
	parts := make([]string, len(chunks))
	for i, c := range chunks {
		parts[i] = hx(c)
	}
	return strings.Join(parts, ",")
}

// implInterp is INTERP: the observable semantics of Interpret on a source.
func implInterp(src []byte) string {
	return guarded(opTimeout, func() string {
		var out, log capBuf
		res, binding, err := bcl.Interpret(src, bcl.OptOutput(&out), bcl.OptLogger(&log))
		lg := canonLog(log.Bytes())
		if err != nil && err.Error() == "combined errors from parse" {
			if res != nil || binding != nil || out.Len() != 0 {
				return "REJECTED-WITH-RESULTS"
			}
			return "rejected log=" + hx(lg)
		}
		e := "-"
		if err != nil {
			e = hxe([]byte(err.Error()))
		}
		return fmt.Sprintf("accepted log=%s err=%s out=%s blocks=%s binding=%s", hx(lg), e, hx(out.Bytes()), fmtBlocks(res), fmtBinding(binding))
	})
}

func regexpMust(s string) *regexp.Regexp { return regexp.MustCompile(s) }

func unquoteGo(s string) (string, error) { return strconv.Unquote(s) }

// implOutput: what Interpret prints (errors appended).
func implOutput(src []byte) string {
	return guarded(opTimeout, func() string {
		var out capBuf
		_, _, err := bcl.Interpret(src, bcl.OptOutput(&out), bcl.OptLogger(io.Discard))
		if err != nil {
			return out.String() + "ERR " + err.Error()
		}
		return out.String()
	})
}

// implInterpNoPos: code and constants (no positions), diagnostics modulo positions,
// and the run outcome modulo positions.
func implInterpNoPos(src []byte) string {
	return guarded(opTimeout, func() string {
		var out, log capBuf
		prog, err := bcl.Parse(src, "input", bcl.OptOutput(&out), bcl.OptLogger(&log))
		lg := rePos.ReplaceAll(canonLog(log.Bytes()), []byte("line _"))
		if err != nil {
			return "rejected log=" + hx(lg)
		}
		_, code, consts, _, _ := bcl.VerifProgParts(prog)
		cs := make([]string, len(consts))
		for i, c := range consts {
			cs[i] = fmtVal(c)
		}
		res, binding, err := bcl.Execute(prog)
		e := "-"
		if err != nil {
			e = hxe(rePos.ReplaceAll([]byte(err.Error()), []byte("line _")))
		}
		lg = rePos.ReplaceAll(canonLog(log.Bytes()), []byte("line _"))
		return fmt.Sprintf("accepted code=%s consts=%s log=%s err=%s out=%s blocks=%s binding=%s",
			hx(code), strings.Join(cs, ","), hx(lg), e, hx(out.Bytes()), fmtBlocks(res), fmtBinding(binding))
	})
}

// capBuf is a bytes.Buffer that stops growing after a limit, so that a diagnostic
// loop in a hung call cannot exhaust memory before the watchdog reports the hang.
type capBuf struct {
	bytes.Buffer
}

const capBufLimit = 16 << 20

func (b *capBuf) Write(p []byte) (int, error) {
	if b.Buffer.Len() > capBufLimit {
		time.Sleep(time.Millisecond) // a runaway writer: slow it down
		return len(p), nil
	}
	return b.Buffer.Write(p)
}

func bytesReader(b []byte) io.Reader { return bytes.NewReader(b) }
