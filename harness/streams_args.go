package main

import (
	"fmt"
	"math/rand"
	"os"
	"os/exec"
	"path/filepath"
	"strings"
)

func init() {
	streams["argsdiff"] = streamArgsDiff
}

// streamArgsDiff: the argument parser of the real binary (built from the current tree,
// observed through the tag-guarded switch BCL_VERIF_ARGS) against the Lean model of
// parseArgs, on argument vectors of every shape.
func streamArgsDiff(ctx *Ctx) *Result {
	res := NewResult("argsdiff", "argument vectors from the documented flags in any order and clustering, valued flags, '--', '-h', unknown flags, several operands, odd strings; the record parsed by the real binary (env BCL_VERIF_ARGS=1) is compared with the Lean model of parseArgs; non-trivial = vector with ≥2 arguments; distinct by vector")
	work := os.Getenv("BCLH_WORK")
	if work == "" {
		work = os.TempDir()
	}
	dir, err := os.MkdirTemp(work, "args")
	if err != nil {
		fatalf("%v", err)
	}
	defer os.RemoveAll(dir)
	bin := filepath.Join(dir, "bcl")
	src := os.Getenv("BCLH_SRC")
	if src == "" {
		src = "/verif/harness"
	}
	cmd := exec.Command("go", "build", "-tags", "verif", "-o", bin, "github.com/wkhere/bcl/cmd/bcl")
	cmd.Dir = src
	cmd.Env = append(os.Environ(), "GOFLAGS=-mod=mod", "GOPROXY=off", "GOSUMDB=off", "GOTOOLCHAIN=local")
	if out, err := cmd.CombinedOutput(); err != nil {
		res.Fail(Failure{Kind: "oracle", Op: "build", Impl: string(out), Expected: "cmd/bcl builds"})
		return res
	}
	pool := []string{"-d", "-t", "-r", "-s", "--disasm", "--trace", "--result", "--stats", "--bdump", "--bload", "--bdump=x.bcb", "--bdump=y.bcb",
		"--bload=x.bcb", "--bload=z.bcb", "f.bcl", "g.bcl", "dir/prog.bcl", "noext", "-", "--", "-h", "-dt", "-tsr", "-rd", "-dx", "-d1", "-x",
		"--bdumpx", "--bloa", "---", "-", "", "é", "--bdump=", "--bload=", "-dd", "-dh", "a.bcl.bcl", ".bcl", "-std", "-D"}
	parallel(ctx.Pool, ctx.Seed, ctx.N(2500), func(i int, r *rand.Rand, d *Driver) {
		n := r.Intn(6)
		if r.Intn(5) == 0 {
			n = r.Intn(10)
		}
		var argv []string
		for k := 0; k < n; k++ {
			a := pool[r.Intn(len(pool))]
			if r.Intn(12) == 0 { // a random cluster
				m := 2 + r.Intn(4)
				b := []byte("-")
				for j := 0; j < m; j++ {
					b = append(b, "dtrsdtrshxz"[r.Intn(11)])
				}
				a = string(b)
			}
			argv = append(argv, a)
		}
		c := exec.Command(bin, argv...)
		c.Env = []string{"BCL_VERIF_ARGS=1"}
		out, err := c.Output()
		if err != nil {
			res.Fail(Failure{Kind: "oracle", Op: "run", Input: fmt.Sprintf("%q", argv), Impl: err.Error(), Expected: "the binary prints the parsed record"})
			return
		}
		impl := canonArgsLine(strings.TrimSpace(string(out)))
		hexes := make([]string, len(argv))
		for k, a := range argv {
			hexes[k] = hxs(a)
		}
		arg := "-"
		if len(hexes) > 0 {
			arg = strings.Join(hexes, ",")
		}
		// an empty argument cannot be distinguished from "-" in the hex list: skip those vectors for the model
		for _, a := range argv {
			if a == "" || a == "-" && false {
				return
			}
		}
		model := ask(d, "ARGS "+arg)
		res.Eval(1)
		if len(argv) >= 2 {
			res.Nontrivial(strings.Join(argv, "\x00"))
		}
		res.Count(fmt.Sprintf("argc.%d", len(argv)), 1)
		if impl == "usage-error" {
			res.Count("usage-error", 1)
		}
		if impl != model {
			res.Fail(Failure{Kind: "model-diff", Op: "ARGS " + arg, Input: fmt.Sprintf("%q", argv), Impl: impl, Model: model, Note: "parseArgs"})
		}
		if i < 3 {
			res.Sample(fmt.Sprintf("%q → %s", argv, impl))
		}
	})
	return res
}

// canonArgsLine turns the hook's %q/%v line into the model's format.
func canonArgsLine(s string) string {
	if s == "usage-error" {
		return s
	}
	var file, bd, bl string
	var dis, tr, rs, st, bdump, bload, help bool
	_, err := fmt.Sscanf(s, "file=%q disasm=%t trace=%t result=%t stats=%t bdump=%t bload=%t bdumpFile=%q bloadFile=%q help=%t",
		&file, &dis, &tr, &rs, &st, &bdump, &bload, &bd, &bl, &help)
	if err != nil {
		return "UNPARSED " + s
	}
	b := func(x bool) string {
		if x {
			return "1"
		}
		return "0"
	}
	return fmt.Sprintf("file=%s disasm=%s trace=%s result=%s stats=%s bdump=%s bload=%s bdumpFile=%s bloadFile=%s help=%s",
		hxs(file), b(dis), b(tr), b(rs), b(st), b(bdump), b(bload), hxs(bd), hxs(bl), b(help))
}
