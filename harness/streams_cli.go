package main

// Stream "cli" (property C18): the command-line tool prints what the library
// prints, exits 0/1/2 as documented, is indifferent to the order, spelling and
// clustering of its flags, and --bdump/--bload reproduce the direct run.
//
// The tool is rebuilt from the current tree on every run and executed as a
// subprocess; the reference outcome is computed in-process with the library
// (cliExpectRun mirrors cmd/bcl/main.go call for call).

import (
	"bytes"
	"fmt"
	"math/rand"
	"os"
	"path/filepath"
	"runtime"
	"sort"
	"strings"
	"sync"

	"github.com/wkhere/bcl"
)

func init() {
	streams["cli"] = streamCLI
}

const cliRule = "generated programs (clean, ill-typed, damaged; also empty and >4096 bytes) run through the freshly built tool " +
	"by name, as '-' and with the file omitted, under every subset of -d -t -r -s in random order, spelling and clustering, " +
	"with --bdump/--bload in all forms, plus usage errors and I/O errors; " +
	"non-trivial = a real run (not the ARGS hook) whose expected stdout or stderr is non-empty, i.e. anything but a silent success; " +
	"distinct by (program text, flag set, --bdump/--bload form, file mode, oracle)"

func streamCLI(ctx *Ctx) *Result {
	res := NewResult("cli", cliRule)
	env, buildLog, err := cliSetup()
	if err != nil {
		env.Close()
		if buildLog == "" {
			fatalf("cli: cannot set up: %v", err)
		}
		res.Eval(1)
		res.Fail(Failure{Kind: "oracle", Op: "build",
			Input:    "go build -tags verif github.com/wkhere/bcl/cmd/bcl (in " + cliHarnessSrc() + ")",
			Impl:     cliClip(buildLog),
			Expected: "the command-line tool builds from the current tree"})
		return res
	}
	defer env.Close()

	n := ctx.N(400)
	workers := runtime.NumCPU()
	if workers < 1 {
		workers = 1
	}
	var wg sync.WaitGroup
	ch := make(chan int, 64)
	for w := 0; w < workers; w++ {
		wg.Add(1)
		go func() {
			defer wg.Done()
			for i := range ch {
				r := rand.New(rand.NewSource(ctx.Seed*1000003 + int64(i)))
				c := &cliCase{env: env, res: res, i: i, r: r, thorough: ctx.Tier == "thorough"}
				c.run()
			}
		}()
	}
	for i := 0; i < n; i++ {
		ch <- i
	}
	close(ch)
	wg.Wait()
	return res
}

type cliCase struct {
	env      *cliEnv
	res      *Result
	i        int
	r        *rand.Rand
	thorough bool

	dir   string
	prog  string // name of the program file of this case (the stem matters for --bdump without a file name)
	src   []byte
	class string // ok, parse-fail, run-fail
	fails int
}

// program file names: stems ending in every letter of ".bcl", with dots, one letter
// … and long ones (the name travels into the dump: 60, 86…96 and 250 bytes)
var cliProgNames = func() []string {
	ns := []string{"prog.bcl", "prog.bcl", "calc.bcl", "lib.bcl", "public.bcl", "a.b.bcl", "x.bcl", "bcl.bcl", "cc.bcl", "l.bcl"}
	for _, n := range []int{60, 86, 87, 88, 89, 90, 91, 92, 93, 96, 250} {
		ns = append(ns, strings.Repeat("n", n-4)+".bcl")
	}
	return ns
}()

var cliSubsets = func() []string {
	var out []string
	for m := 0; m < 16; m++ {
		s := ""
		for k, c := range "dtrs" {
			if m&(1<<k) != 0 {
				s += string(c)
			}
		}
		out = append(out, s)
	}
	return out
}()

func (c *cliCase) subset() string { return cliSubsets[c.r.Intn(16)] }

// nonempty subset, larger ones more often (more orders and clusterings)
func (c *cliCase) bigSubset() string {
	for {
		s := c.subset()
		if len(s) >= 2 || len(s) == 1 && c.r.Intn(3) == 0 {
			return s
		}
	}
}

// ---------- programs ----------

var cliDamage = [][]string{
	{"var"}, {"print", ")"}, {"def", "{"}, {"}"}, {"=", "1"}, {"bind", "x"}, {`"unterminated`}, {"@"},
	{"print"}, {"def", "srv", `"a"`, "{", "f", "="}, {"1", "+"}, {"var", "x", "=", "(", "1"}, {"eval", "\xff"},
}

func cliProgram(r *rand.Rand, i int) (src []byte, kind string) {
	switch {
	case i%61 == 13:
		return []byte(strings.Repeat(" ", r.Intn(3)) + strings.Repeat("\n", r.Intn(2))), "empty"
	}
	g := NewGen(r)
	g.MaxDepth = 1 + r.Intn(4)
	kind = []string{"clean", "default", "illtyped", "damaged"}[(i/16)%4] // independent of the i%16, i%8, i%3 rotations below
	switch kind {
	case "clean":
		g.ErrRate = 0
	case "illtyped":
		g.ErrRate = 3
	}
	ss := g.Program(1 + r.Intn(8))
	if kind == "damaged" {
		k := r.Intn(len(ss) + 1)
		d := RawStmt{Toks: cliDamage[r.Intn(len(cliDamage))]}
		ss = append(ss[:k], append([]Stmt{d}, ss[k:]...)...)
	}
	text := Render(ss, r, r.Intn(3) == 0)
	if i%23 == 5 {
		// cross the 4096-byte read size of ParseFile
		text = "#" + strings.Repeat(" long comment", 330+r.Intn(40)) + "\n" + text
	}
	return []byte(text), kind
}

func cliClassify(src []byte, name string) string {
	return guarded(opTimeout, func() string {
		var sink bytes.Buffer
		p, err := bcl.Parse(src, name, bcl.OptOutput(&sink), bcl.OptLogger(&sink))
		if err != nil {
			return "parse-fail"
		}
		if _, _, err := bcl.Execute(p, bcl.OptOutput(&sink), bcl.OptLogger(&sink)); err != nil {
			return "run-fail"
		}
		return "ok"
	})
}

// ---------- one case ----------

func (c *cliCase) run() {
	c.dir = filepath.Join(c.env.work, fmt.Sprintf("c%d", c.i))
	if err := os.Mkdir(c.dir, 0o755); err != nil {
		fatalf("cli: %v", err)
	}
	defer os.RemoveAll(c.dir)
	var kind string
	c.prog = cliProgNames[c.r.Intn(len(cliProgNames))]
	c.res.Count("prog.name."+c.prog, 1)
	c.src, kind = cliProgram(c.r, c.i)
	if err := os.WriteFile(filepath.Join(c.dir, c.prog), c.src, 0o644); err != nil {
		fatalf("cli: %v", err)
	}
	c.class = cliClassify(c.src, c.prog)
	if kind == "empty" {
		c.res.Count("prog.empty-or-blank", 1)
	}
	if strings.HasPrefix(c.class, "PANIC") || c.class == "HANG" {
		// the library itself misbehaves on this program: other streams' business
		c.res.Count("class.skipped-library-panic-or-hang", 1)
		return
	}
	c.res.Count("class."+c.class, 1)
	if len(c.src) > 4096 {
		c.res.Count("prog.over-4096-bytes", 1)
	}

	c.mirror()
	c.invariance()
	c.usageErrors()
	c.ioErrors()
	c.dumpLoad()
	c.argsExtras()

	if c.i < 4 {
		c.res.Sample(fmt.Sprintf("[%s] %s", c.class, c.src))
	}
}

// stdinFor gives the standard input for a vector reading the given bytes.
func stdinFor(v cliVec, data []byte) ([]byte, bool) {
	if v.inputFile() == "-" {
		return data, true
	}
	return nil, false
}

func (c *cliCase) exec(argv []string, stdin []byte, has bool) *cliRun {
	run := c.env.run(c.dir, argv, stdin, has, false)
	if !run.Timeout && run.WaitErr == "" {
		c.res.Count(fmt.Sprintf("exit.%d", run.Exit), 1)
	}
	return run
}

func (c *cliCase) fail(op string, run *cliRun, impl, expected, note string) {
	c.fails++
	c.res.Fail(Failure{Kind: "oracle", Op: op, Input: cliDescribe(c.dir, run, ""), Impl: impl, Expected: expected, Note: note})
}

// check compares a real run with the reference outcome.
func (c *cliCase) check(oracle string, v cliVec, run *cliRun, exp cliExpect, note string) bool {
	if exp.Bad != "" {
		c.res.Count("skipped.library-panic-or-hang", 1)
		return true
	}
	if run.WaitErr != "" {
		c.res.Count("skipped.subprocess-io-error", 1)
		return true
	}
	c.res.Eval(1)
	c.res.Count("oracle."+oracle, 1)
	if exp.Stdout != "" || exp.Stderr != "" {
		c.res.Nontrivial(fmt.Sprintf("%s|%q|%+v", oracle, c.src, v))
	}
	if run.Timeout {
		c.fail(oracle, run, run.observed(), exp.String(), "the tool did not exit. "+note)
		return false
	}
	if run.Exit != exp.Exit || run.Stdout != exp.Stdout || run.Stderr != exp.Stderr {
		var what []string
		if run.Exit != exp.Exit {
			what = append(what, "exit status")
		}
		if run.Stdout != exp.Stdout {
			what = append(what, "stdout")
		}
		if run.Stderr != exp.Stderr {
			what = append(what, "stderr")
		}
		c.fail(oracle, run, run.observed(), exp.String(),
			strings.Join(what, ", ")+" differ from the library called in-process with the same options ("+c.class+" program). "+note)
		return false
	}
	for name, want := range exp.Files {
		got, err := os.ReadFile(filepath.Join(c.dir, name))
		if err != nil {
			c.fail(oracle, run, run.observed()+"\nfile "+name+": "+err.Error(), exp.String(), "--bdump did not write its file. "+note)
			return false
		}
		if !bytes.Equal(got, want) {
			c.fail(oracle, run, run.observed()+"\nfile "+name+"=hex:"+hxe(got), exp.String(),
				"the dumped file differs from Prog.Dump of the library's parse of the same input under the same name. "+note)
			return false
		}
	}
	return true
}

// argsCheck runs the ARGS hook and compares the parsed record.
func (c *cliCase) argsCheck(oracle string, argv []string, want string, suffixOnly bool, note string) bool {
	run := c.env.run(c.dir, argv, nil, false, true)
	if run.WaitErr != "" {
		c.res.Count("skipped.subprocess-io-error", 1)
		return true
	}
	c.res.Eval(1)
	c.res.Count("oracle."+oracle, 1)
	ok := run.Exit == 0 && run.Stderr == "" && !run.Timeout
	if suffixOnly {
		ok = ok && strings.HasSuffix(run.Stdout, want) && strings.Count(run.Stdout, "\n") == 1
	} else {
		ok = ok && run.Stdout == want
	}
	if !ok {
		c.fail(oracle, run, run.observed(), fmt.Sprintf("exit=0\nstdout=%q\nstderr=\"\"", want), note)
	}
	return ok
}

func (c *cliCase) countVec(v cliVec) {
	c.res.Count("flags."+v.flagKey(), 1)
	c.res.Count("mode."+v.mode(), 1)
}

func (c *cliCase) removeDump(v cliVec) {
	if f := v.dumpFile(); f != "" {
		os.Remove(filepath.Join(c.dir, f))
	}
}

// (a) the tool mirrors the library: by name, as '-', and with the file omitted.
func (c *cliCase) mirror() {
	sets := []string{cliSubsets[c.i%16]}
	if sets[0] != "" {
		sets = append(sets, "")
	}
	for k, fl := range sets {
		files := []string{c.prog, "-", ""}
		if k == 1 {
			files = files[c.r.Intn(3):][:1]
		}
		for _, f := range files {
			v := cliVec{flags: fl, file: f}
			stdin, has := stdinFor(v, c.src)
			exp := cliExpectRun(v, c.dir, stdin)
			run := c.exec(v.plain(), stdin, has)
			c.countVec(v)
			c.check("mirror", v, run, exp, "")
		}
	}
}

// (c)+(e) every order, spelling and clustering of one vector gives one outcome
// and one parsed record.
func (c *cliCase) invariance() {
	v := cliVec{flags: c.bigSubset(), file: []string{c.prog, c.prog, "-", ""}[c.r.Intn(4)]}
	switch {
	case c.r.Intn(4) == 0:
		v.bdump, v.bdumpFile = 2, "inv.bcb"
	case v.mode() == "file" && c.r.Intn(6) == 0:
		v.bdump = 1
	}
	stdin, has := stdinFor(v, c.src)
	exp := cliExpectRun(v, c.dir, stdin)

	type variant struct {
		argv  []string
		shape string
	}
	vs := []variant{{v.plain(), "plain"}}
	if c.thorough && c.i%4 == 0 {
		for _, a := range v.allVariants(c.r) {
			vs = append(vs, variant{a, "enumerated"})
		}
		c.res.Count("invariance.vectors-enumerated-exhaustively", 1)
	}
	k := 6
	if c.thorough {
		k = 12
	}
	for j := 0; j < k; j++ {
		a, sh := v.variant(c.r)
		vs = append(vs, variant{a, sh})
	}
	var base *cliRun
	for j, x := range vs {
		c.removeDump(v)
		run := c.exec(x.argv, stdin, has)
		c.countVec(v)
		if x.shape != "plain" && x.shape != "enumerated" {
			for _, w := range strings.Fields(x.shape) {
				if !strings.HasSuffix(w, "=0") && !strings.HasPrefix(w, "short") {
					c.res.Count("spelling."+strings.SplitN(w, "=", 2)[0], 1)
				}
			}
		}
		if v.bdump != 0 {
			c.res.Count("invariance.with-bdump", 1)
		}
		note := fmt.Sprintf("spelling %d of the vector %v", j, v.plain())
		if base != nil {
			note += fmt.Sprintf("; the plain spelling gave exit=%d stdout=%q stderr=%q", base.Exit, cliClip(base.Stdout), cliClip(base.Stderr))
		}
		if !c.check("invariance", v, run, exp, note) {
			break
		}
		if j == 0 {
			base = run
		}
		if !c.argsCheck("args", x.argv, v.record(), false, "parsed record differs from the record of the plain spelling "+strings.Join(v.plain(), " ")) {
			break
		}
	}
	c.removeDump(v)
}

// spelled gives the switches of a subset in random spelling and order.
func (c *cliCase) spelled(flags string) []string {
	a, _ := cliVec{flags: flags}.variant(c.r)
	// variant may append "--": not wanted here
	if n := len(a); n > 0 && a[n-1] == "--" {
		a = a[:n-1]
	}
	return a
}

func (c *cliCase) insert(toks []string, xs ...string) []string {
	for _, x := range xs {
		k := c.r.Intn(len(toks) + 1)
		toks = append(toks[:k], append([]string{x}, toks[k:]...)...)
	}
	return toks
}

func cliListDir(dir string) string {
	ents, _ := os.ReadDir(dir)
	var names []string
	for _, e := range ents {
		names = append(names, e.Name())
	}
	sort.Strings(names)
	return strings.Join(names, " ")
}

// (b) usage errors: exit status 2, usage text on stderr, nothing on stdout,
// nothing done.
func (c *cliCase) usageErrors() {
	pick := func(xs ...string) string { return xs[c.r.Intn(len(xs))] }
	for n := 0; n < 3; n++ {
		toks := c.spelled(c.subset())
		var kind string
		switch k := (c.i*3 + n) % 9; k {
		case 0:
			kind = "unknown-short"
			toks = c.insert(toks, "-"+string("abcefgijklmnopquvwxyz"[c.r.Intn(21)]))
			toks = c.insert(toks, pick(c.prog, "-"))
		case 1:
			kind = "unknown-long"
			toks = c.insert(toks, pick("--foo", "--disasmx", "--bdumpx", "--bloadfile", "--dis", "--Trace", "--stat", "--bdump-x", "--resul", "--d", "---trace"))
			toks = c.insert(toks, pick(c.prog, "-"))
		case 2:
			kind = "unknown-nonletter"
			toks = c.insert(toks, pick("-D", "-1", "-_", "-T", "-=", "-R"))
			toks = c.insert(toks, c.prog)
		case 3:
			kind = "cluster-unknown-letter"
			toks = c.insert(toks, pick("-dx", "-xd", "-tsq", "-rsa", "-zz", "-dtrsx"))
			toks = c.insert(toks, c.prog)
		case 4:
			kind = "cluster-nonletter"
			toks = c.insert(toks, pick("-d1", "-dT", "-t-", "-d=", "-rs.", "-dé", "-dtrS", "-s t", "-d-t"))
			toks = c.insert(toks, c.prog)
		case 5:
			kind = "two-files"
			toks = c.insert(toks, pick(c.prog, "-", "other.bcl"), pick(c.prog, "-", "other.bcl"))
		case 6:
			kind = "two-files-after-ddash"
			if c.r.Intn(2) == 0 {
				toks = append(toks, "--", pick(c.prog, "-"), pick(c.prog, "-d", "-"))
			} else {
				toks = append(c.insert(toks, c.prog), "--", pick("-d", "-t", "--stats", c.prog))
			}
		case 7:
			kind = "bdump-underivable"
			toks = c.insert(toks, "--bdump")
			if f := pick("", "-", "prog.txt", "prog.bcl.bak", "prog", "prog.bcb"); f != "" {
				toks = c.insert(toks, f)
			}
		case 8:
			kind = "bload-conflict"
			toks = c.insert(toks, "--bload="+pick("x.bcb", c.prog), pick(c.prog, "y.bcb", "-"))
		}
		if c.r.Intn(3) == 0 && kind != "bdump-underivable" {
			toks = c.insert(toks, "--bdump=usage.bcb")
		}
		before := cliListDir(c.dir)
		run := c.exec(toks, c.src, true)
		after := cliListDir(c.dir)
		if run.WaitErr != "" {
			c.res.Count("skipped.subprocess-io-error", 1)
			continue
		}
		c.res.Eval(1)
		c.res.Count("oracle.usage", 1)
		c.res.Count("usage."+kind, 1)
		c.res.Nontrivial(fmt.Sprintf("usage|%q", toks))
		lines := strings.Split(strings.TrimSuffix(run.Stderr, "\n"), "\n")
		if run.Timeout || run.Exit != 2 || run.Stdout != "" || len(lines) < 2 || !strings.HasPrefix(lines[len(lines)-1], "usage:") || before != after {
			impl := run.observed()
			if before != after {
				impl += "\ndirectory afterwards: " + after
			}
			c.fail("usage", run, impl,
				"exit=2, stdout empty, stderr = a message followed by the usage line, no file created (directory: "+before+")",
				"usage error of kind "+kind)
			continue
		}
		c.argsCheck("args", toks, "usage-error\n", false, "usage error of kind "+kind+": the argument parser must reject the vector")
	}
}

// (a)/(b) I/O errors: exit status 1 with the library's (or the system's)
// diagnostic on stderr.
func (c *cliCase) ioErrors() {
	fl := c.subset()
	var v cliVec
	var stdin []byte
	kind := ""
	switch k := c.i % 8; k {
	case 0:
		kind, v = "nonexistent-file", cliVec{flags: fl, file: "nosuch.bcl"}
	case 1:
		kind, v = "directory-as-file", cliVec{flags: fl, file: "sub"}
		os.Mkdir(filepath.Join(c.dir, "sub"), 0o755)
	case 2:
		kind, v = "bload-nonexistent", cliVec{flags: fl, bload: 1, file: "nosuch.bcb"}
	case 3:
		kind, v = "bload-nonexistent", cliVec{flags: fl, bload: 2, bloadFile: "nosuch.bcb"}
	case 4:
		kind, v = "bload-not-a-dump", cliVec{flags: fl, bload: 1, file: c.prog}
	case 5:
		kind, v = "bload-not-a-dump-stdin", cliVec{flags: fl, bload: 1, file: []string{"", "-"}[c.r.Intn(2)]}
		stdin = c.src
	case 6, 7:
		if c.class == "parse-fail" {
			kind, v = "bdump-nonexistent-source", cliVec{flags: fl, bdump: 1, file: "nosuch.bcl"}
			break
		}
		p, err := bcl.Parse(c.src, c.prog, bcl.OptOutput(&bytes.Buffer{}), bcl.OptLogger(&bytes.Buffer{}))
		if err != nil {
			return
		}
		d, _ := dumpOf(p)
		if k == 6 {
			cut := d[:c.r.Intn(len(d))]
			if c.r.Intn(2) == 0 {
				kind, v = "bload-truncated", cliVec{flags: fl, bload: 1, file: "trunc.bcb"}
				os.WriteFile(filepath.Join(c.dir, "trunc.bcb"), cut, 0o644)
			} else {
				kind, v = "bload-truncated-stdin", cliVec{flags: fl, bload: 1}
				stdin = cut
			}
		} else {
			kind, v = "bdump-unwritable", cliVec{flags: fl, bdump: 2, bdumpFile: "nodir/x.bcb", file: c.prog}
		}
	}
	in, has := stdinFor(v, stdin)
	exp := cliExpectRun(v, c.dir, in)
	if exp.Bad == "" && exp.Exit != 1 {
		// e.g. a damaged program that happens to start like a dump: not an error case after all
		c.res.Count("io.not-an-error-after-all", 1)
		return
	}
	argv, _ := v.variant(c.r)
	run := c.exec(argv, in, has)
	c.countVec(v)
	c.res.Count("io."+kind, 1)
	c.check("io-error", v, run, exp, "I/O error of kind "+kind+": expected exit status 1 and the library's error on stderr")
	os.Remove(filepath.Join(c.dir, "trunc.bcb"))
	os.Remove(filepath.Join(c.dir, "sub"))
}

// (d) --bdump writes Prog.Dump of the parsed program; --bload of that file, in
// every form, reproduces the direct run.
func (c *cliCase) dumpLoad() {
	fd := c.subset()
	if c.class == "parse-fail" {
		v := cliVec{flags: fd, bdump: 2, bdumpFile: "x.bcb", file: c.prog}
		exp := cliExpectRun(v, c.dir, nil)
		argv, _ := v.variant(c.r)
		run := c.exec(argv, nil, false)
		c.countVec(v)
		c.check("bdump", v, run, exp, "program that does not parse: nothing to dump, exit status 1")
		if _, err := os.Stat(filepath.Join(c.dir, "x.bcb")); err == nil {
			c.res.Count("bdump.parse-fail.file-left-behind", 1)
			os.Remove(filepath.Join(c.dir, "x.bcb"))
		} else {
			c.res.Count("bdump.parse-fail.no-file", 1)
		}
		return
	}

	// the library's Parse of the same source under the same name
	ref := func(name string) []byte {
		p, err := bcl.Parse(c.src, name, bcl.OptOutput(&bytes.Buffer{}), bcl.OptLogger(&bytes.Buffer{}))
		if err != nil {
			return nil
		}
		d, _ := dumpOf(p)
		return d
	}
	dumpRun := func(v cliVec, name string) []byte {
		stdin, has := stdinFor(v, c.src)
		exp := cliExpectRun(v, c.dir, stdin)
		c.removeDump(v)
		argv, _ := v.variant(c.r)
		run := c.exec(argv, stdin, has)
		c.countVec(v)
		c.res.Count(fmt.Sprintf("bdump.form-%d.%s", v.bdump, v.mode()), 1)
		if !c.check("bdump", v, run, exp, "--bdump: same outcome as the direct run, and the file is written") {
			return nil
		}
		got, _ := os.ReadFile(filepath.Join(c.dir, v.dumpFile()))
		if want := ref(name); want != nil {
			c.res.Eval(1)
			c.res.Count("oracle.bdump=Parse+Dump", 1)
			if !bytes.Equal(got, want) {
				c.fail("bdump", run, "file "+v.dumpFile()+"=hex:"+hxe(got), "file "+v.dumpFile()+"=hex:"+hxe(want),
					"the written file differs from Prog.Dump of bcl.Parse(source, "+fmt.Sprintf("%q", name)+")")
				return nil
			}
		}
		return got
	}
	x := dumpRun(cliVec{flags: fd, bdump: 2, bdumpFile: "x.bcb", file: c.prog}, c.prog)
	y := dumpRun(cliVec{flags: c.subset(), bdump: 1, file: c.prog}, c.prog)
	s := dumpRun(cliVec{flags: c.subset(), bdump: 2, bdumpFile: "s.bcb", file: []string{"-", ""}[c.r.Intn(2)]}, "/dev/stdin")
	if x == nil || y == nil || s == nil {
		return
	}

	// load what the tool wrote
	bfile, direct := "x.bcb", cliVec{file: c.prog}
	data := x
	if c.r.Intn(3) == 0 {
		bfile, direct, data = "s.bcb", cliVec{file: "-"}, s
	}
	fl := c.subset()
	direct.flags = fl
	dstdin, _ := stdinFor(direct, c.src)
	dexp := cliExpectRun(direct, c.dir, dstdin)
	forms := []cliVec{
		{flags: fl, bload: 1, file: bfile},
		{flags: fl, bload: 2, bloadFile: bfile},
		{flags: fl, bload: 1, file: ""},
		{flags: fl, bload: 1, file: "-"},
	}
	for k, v := range forms {
		stdin, has := stdinFor(v, data)
		exp := cliExpectRun(v, c.dir, stdin)
		argv, _ := v.variant(c.r)
		run := c.exec(argv, stdin, has)
		c.countVec(v)
		c.res.Count(fmt.Sprintf("bload.form-%d.%s", v.bload, v.mode()), 1)
		if !c.check("bload", v, run, exp, "--bload of the file written by --bdump") {
			break
		}
		if !c.argsCheck("args", argv, v.record(), false, "parsed record of a --bload vector") {
			break
		}
		// the claim of the property: same output and exit status as the direct run.
		// -s is left out of this comparison: parse statistics exist only where parsing happens.
		if dexp.Bad != "" || strings.Contains(fl, "s") {
			c.res.Count("bload=direct.not-compared(-s)", 1)
			continue
		}
		c.res.Eval(1)
		c.res.Count("oracle.bload=direct", 1)
		c.res.Count("bload=direct."+c.class, 1)
		if run.Exit != dexp.Exit || run.Stdout != dexp.Stdout || run.Stderr != dexp.Stderr {
			c.fail("bload=direct", run, run.observed(), dexp.String(),
				fmt.Sprintf("form %d: --bload of the dump of prog.bcl (%s) must reproduce the direct run %v", k, bfile, direct.plain()))
			break
		}
	}

	// load and dump again in one run
	v := cliVec{flags: c.subset(), bload: 1, bdump: 2, bdumpFile: "re.bcb", file: "x.bcb"}
	exp := cliExpectRun(v, c.dir, nil)
	argv, _ := v.variant(c.r)
	run := c.exec(argv, nil, false)
	c.countVec(v)
	if c.check("bload+bdump", v, run, exp, "--bload X --bdump=Y") {
		if got, err := os.ReadFile(filepath.Join(c.dir, "re.bcb")); err == nil && bytes.Equal(got, x) {
			c.res.Count("redump.identical", 1)
		} else {
			c.res.Count("redump.differs", 1)
		}
	}
	for _, f := range []string{"x.bcb", strings.TrimSuffix(c.prog, ".bcl") + ".bcb", "s.bcb", "re.bcb"} {
		os.Remove(filepath.Join(c.dir, f))
	}
}

// (e) "--" ends the flags; "-h" asks for the usage text.
func (c *cliCase) argsExtras() {
	fl := c.subset()
	switch c.i % 3 {
	case 0:
		// flags, then "--", then a name that looks like a flag: it is the file
		name := []string{"-d", "-t", "--stats", "-x", "--bload", "-dt"}[c.r.Intn(6)]
		v := cliVec{flags: fl, file: name}
		argv := append(c.spelled(fl), "--", name)
		if !c.argsCheck("args", argv, v.record(), false, "after \"--\" every argument is a file name") {
			return
		}
		exp := cliExpectRun(v, c.dir, nil)
		run := c.exec(argv, c.src, true)
		c.countVec(v)
		c.check("ddash", v, run, exp, "after \"--\" the argument is a file name (no such file: exit status 1)")
	case 1:
		// "--" with nothing after it: standard input
		v := cliVec{flags: fl}
		argv := append(c.spelled(fl), "--")
		if !c.argsCheck("args", argv, v.record(), false, "\"--\" with nothing after it") {
			return
		}
		exp := cliExpectRun(v, c.dir, c.src)
		run := c.exec(argv, c.src, true)
		c.countVec(v)
		c.check("ddash", v, run, exp, "\"--\" with nothing after it: the program comes from standard input")
	case 2:
		// -h among valid flags, before or after the file, alone or in a cluster
		argv := c.spelled(fl)
		h := "-h"
		if c.r.Intn(3) == 0 {
			h = []string{"-hd", "-dh", "-tsh", "-hr"}[c.r.Intn(4)]
		}
		argv = c.insert(argv, h)
		if c.r.Intn(2) == 0 {
			argv = c.insert(argv, []string{c.prog, "-", "nosuch.bcl"}[c.r.Intn(3)])
		}
		if !c.argsCheck("args", argv, "help=true\n", true, "-h among valid flags asks for help") {
			return
		}
		run := c.exec(argv, c.src, true)
		if run.WaitErr != "" {
			c.res.Count("skipped.subprocess-io-error", 1)
			return
		}
		c.res.Eval(1)
		c.res.Count("oracle.help", 1)
		c.res.Nontrivial(fmt.Sprintf("help|%q", argv))
		if run.Timeout || run.Exit != 0 || run.Stderr != "" || !strings.HasPrefix(run.Stdout, "usage:") || strings.Count(run.Stdout, "\n") != 1 {
			c.fail("help", run, run.observed(), "exit=0, stdout = the usage line, stderr empty", "-h prints the usage text and nothing is run")
		}
	}
}
