package main

import (
	"crypto/sha1"
	"encoding/json"
	"fmt"
	"os"
	"sort"
	"strings"
	"sync"
)

// Failure is one disagreement or oracle violation, with everything needed to replay it.
type Failure struct {
	Stream   string `json:"stream"`
	Kind     string `json:"kind"` // "model-diff" (correspondence broke) or "oracle" (implementation violates the property)
	Op       string `json:"op,omitempty"`
	Input    string `json:"input,omitempty"` // human-readable form of the input
	Impl     string `json:"impl,omitempty"`
	Model    string `json:"model,omitempty"`
	Expected string `json:"expected,omitempty"`
	Note     string `json:"note,omitempty"`
}

// Result accumulates what a stream covered.
type Result struct {
	mu          sync.Mutex
	Stream      string
	Evaluations int
	nontrivial  map[[20]byte]bool
	Dist        map[string]int
	Samples     []string
	Failures    []Failure
	Rule        string
}

func NewResult(stream, rule string) *Result {
	return &Result{Stream: stream, nontrivial: map[[20]byte]bool{}, Dist: map[string]int{}, Rule: rule}
}

func (r *Result) Eval(n int) {
	r.mu.Lock()
	r.Evaluations += n
	r.mu.Unlock()
}

// Nontrivial records a case that is non-trivial by the stream's rule; key identifies it.
func (r *Result) Nontrivial(key string) {
	h := sha1.Sum([]byte(key))
	r.mu.Lock()
	r.nontrivial[h] = true
	r.mu.Unlock()
}

func (r *Result) Count(k string, n int) {
	r.mu.Lock()
	r.Dist[k] += n
	r.mu.Unlock()
}

func (r *Result) Merge(m map[string]int) {
	r.mu.Lock()
	for k, v := range m {
		r.Dist[k] += v
	}
	r.mu.Unlock()
}

func (r *Result) Sample(s string) {
	r.mu.Lock()
	if len(r.Samples) < 6 {
		if len(s) > 400 {
			s = s[:400] + "…"
		}
		r.Samples = append(r.Samples, s)
	}
	r.mu.Unlock()
}

func (r *Result) Fail(f Failure) {
	if strings.HasPrefix(f.Impl, "SKIPPED-AFTER-HANGS") {
		return // not an observation: the run was cut short after several hangs, which are reported
	}
	f.Stream = r.Stream
	r.mu.Lock()
	// at most 50 per kind, so that many correspondence diffs cannot crowd out an oracle failure
	n := 0
	for _, g := range r.Failures {
		if g.Kind == f.Kind {
			n++
		}
	}
	if n < 50 {
		r.Failures = append(r.Failures, f)
	}
	r.mu.Unlock()
}

func (r *Result) NumNontrivial() int { return len(r.nontrivial) }

type resultJSON struct {
	Stream      string         `json:"stream"`
	Rule        string         `json:"rule"`
	Evaluations int            `json:"evaluations"`
	Nontrivial  int            `json:"distinct_nontrivial"`
	Dist        map[string]int `json:"distribution"`
	Samples     []string       `json:"samples"`
	Failures    []Failure      `json:"failures"`
}

func (r *Result) JSON() resultJSON {
	// keep the distribution readable: top 60 keys
	type kv struct {
		k string
		v int
	}
	var kvs []kv
	for k, v := range r.Dist {
		kvs = append(kvs, kv{k, v})
	}
	sort.Slice(kvs, func(i, j int) bool { return kvs[i].v > kvs[j].v || kvs[i].v == kvs[j].v && kvs[i].k < kvs[j].k })
	d := map[string]int{}
	for i, e := range kvs {
		if i >= 80 {
			break
		}
		d[e.k] = e.v
	}
	fs := r.Failures
	if fs == nil {
		fs = []Failure{}
	}
	if r.Samples == nil {
		r.Samples = []string{}
	}
	return resultJSON{r.Stream, r.Rule, r.Evaluations, r.NumNontrivial(), d, r.Samples, fs}
}

func writeJSON(path string, v any) error {
	b, err := json.MarshalIndent(v, "", " ")
	if err != nil {
		return err
	}
	return os.WriteFile(path, append(b, '\n'), 0o644)
}

func fatalf(format string, a ...any) {
	fmt.Fprintf(os.Stderr, format+"\n", a...)
	os.Exit(3)
}
