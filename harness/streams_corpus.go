package main

import (
	"encoding/binary"
	"encoding/json"
	"fmt"
	"io"
	"math"
	"os"
	"path/filepath"
	"sort"
	"strings"

	"github.com/wkhere/bcl"
)

func init() {
	streams["corpus"] = streamCorpus
}

func corpusDir() string {
	if d := os.Getenv("BCLH_CORPUS"); d != "" {
		return d
	}
	return "/verif/corpus"
}

// ---- an assembler for format 1.1 written from the documented layout only ----

// sqlite4 varint, transcribed from its published definition.
func asmUvarint(v uint64) []byte {
	switch {
	case v <= 240:
		return []byte{byte(v)}
	case v <= 2287:
		return []byte{byte((v-240)/256 + 241), byte((v - 240) % 256)}
	case v <= 67823:
		return []byte{249, byte((v - 2288) / 256), byte((v - 2288) % 256)}
	}
	n := 3
	for ; n < 8 && v >= 1<<(8*uint(n)); n++ {
	}
	b := []byte{byte(247 + n)}
	for i := n - 1; i >= 0; i-- {
		b = append(b, byte(v>>(8*uint(i))))
	}
	return b
}

type asmProg struct {
	name      string
	code      []byte
	consts    []any
	positions []int // one per code byte; filled with 0.. if shorter
	lfs       []int
}

func (p asmProg) bytes() []byte {
	b := []byte{0xFC, 0x6C, 1, 1}
	b = append(b, asmUvarint(uint64(len(p.name)))...)
	b = append(b, p.name...)
	b = append(b, asmUvarint(uint64(len(p.code)))...)
	b = append(b, p.code...)
	b = append(b, asmUvarint(uint64(len(p.consts)))...)
	for _, c := range p.consts {
		switch x := c.(type) {
		case nil:
			b = append(b, 0)
		case int:
			b = append(b, 1)
			b = append(b, asmUvarint(uint64(int64(x)))...)
		case float64:
			b = append(b, 2)
			var f [8]byte
			binary.BigEndian.PutUint64(f[:], math.Float64bits(x))
			b = append(b, f[:]...)
		case string:
			b = append(b, 3)
			b = append(b, asmUvarint(uint64(len(x)))...)
			b = append(b, x...)
		case bool:
			b = append(b, 4)
			if x {
				b = append(b, 1)
			} else {
				b = append(b, 0)
			}
		}
	}
	pos := p.positions
	for len(pos) < len(p.code) {
		pos = append(pos, len(pos))
	}
	b = append(b, asmUvarint(uint64(len(pos)))...)
	for _, x := range pos {
		b = append(b, asmUvarint(uint64(x))...)
	}
	b = append(b, asmUvarint(uint64(len(p.lfs)))...)
	for _, x := range p.lfs {
		b = append(b, asmUvarint(uint64(x))...)
	}
	return b
}

// opcode numbers of format 1.1 (frozen)
const (
	oNOP = iota
	oRET
	oPRINT
	oSETLOCAL
	oGETLOCAL
	oDEFBLOCK
	oENDBLOCK
	oSETFIELD
	oGETFIELD
	oCONST
	oNIL
	oZERO
	oONE
	oTRUE
	oFALSE
	oNOT
	oEQ
	oLT
	oGT
	oADD
	oSUB
	oMUL
	oDIV
	oNEG
	oUNPLUS
	oJUMP
	oLOOP
	oJFALSE
	oPOP
	oPOPN
	oBIND
)

func handAssembled() map[string]asmProg {
	m := map[string]asmProg{}
	// count-down loop with LOOP, NOP: var i = 3; while i { print i; i = i - 1 }
	loop := []byte{
		oCONST, 0, // 0: i = 3
		oNOP,         // 2
		oGETLOCAL, 0, // 3: L:
		oJFALSE, 0, 13, // 5: if !i goto END (8+13 = 21)
		oPOP,         // 8
		oGETLOCAL, 0, // 9
		oPRINT,       // 11
		oGETLOCAL, 0, // 12
		oONE,         // 14
		oSUB,         // 15
		oSETLOCAL, 0, // 16
		oPOP,         // 18
		oLOOP, 0, 18, // 19: pc after = 22 ; 22-18 = 4 ?  (adjusted below)
		oPOP, // 22: END: pops the tested value
		oPOP, // 23: pops i
		oRET, // 24
	}
	// make the numbers exact: JFALSE at 5 reads operand → pc 8; target END = 22 → distance 14
	loop[7] = 14
	// LOOP at 19 reads operand → pc 22; target L = 3 → distance 19
	loop[21] = 19
	m["hand-loop"] = asmProg{name: "hand", code: loop, consts: []any{3}, lfs: []int{10, 20}}
	// every constant kind incl. negative ints, bools, nil, floats; equality across them
	m["hand-consts"] = asmProg{name: "", code: []byte{
		oCONST, 0, oPRINT, oCONST, 1, oPRINT, oCONST, 2, oPRINT, oCONST, 3, oPRINT, oCONST, 4, oPRINT,
		oCONST, 5, oPRINT, oCONST, 6, oPRINT, oCONST, 7, oPRINT, oCONST, 0, oCONST, 1, oADD, oPRINT, oRET},
		consts: []any{-5, math.MinInt64, nil, true, false, -2.5, "str\x00\xff", 1e300}}
	// multi-byte sizes: 300 constants, a 70000-byte string, CONST with a two-byte index
	var cs []any
	for i := 0; i < 300; i++ {
		cs = append(cs, i*7)
	}
	cs = append(cs, strings.Repeat("z", 70000))
	m["hand-sizes"] = asmProg{name: strings.Repeat("n", 300), code: []byte{
		oCONST, 0xF1, 59, oPRINT, // index 240 + 256*0 + 59 = 299
		oCONST, 0xF1, 60, oCONST, 0xF1, 60, oEQ, oPRINT, oRET}, consts: cs, lfs: []int{241, 2288, 67824, 1 << 24}}
	// three-byte operands: 2400 constants, CONST with the largest two-byte index (2287), the smallest
	// three-byte one (2288) and the last constant (2399), POPN of nothing after them
	var cs3 []any
	for i := 0; i < 2400; i++ {
		cs3 = append(cs3, i*3)
	}
	m["hand-sizes3"] = asmProg{name: "s3", code: []byte{
		oCONST, 0xF8, 255, oPRINT, // 240 + 256*7 + 255 = 2287
		oCONST, 0xF9, 0, 0, oPRINT, // 2288
		oCONST, 0xF9, 0, 111, oPRINT, // 2288 + 111 = 2399
		oCONST, 0xF9, 0, 111, oCONST, 0xF8, 255, oSUB, oPRINT, oRET}, consts: cs3, lfs: []int{2287, 2288, 67823}}
	// blocks, fields, bind with a hand-written option byte, runtime error position from the position table
	m["hand-blocks"] = asmProg{name: "b", code: []byte{
		oDEFBLOCK, 0, 1, oTRUE, oSETFIELD, 2, oPOP, oDEFBLOCK, 3, 4, oGETFIELD, 2, oNOT, oSETFIELD, 5, oPOP, oENDBLOCK, oENDBLOCK,
		oBIND, 0, 0x21, oBIND, 0, 0x13, oZERO, oZERO, oDIV, oRET},
		consts:    []any{"t", "name", "f", "c", "", "g"},
		positions: []int{0, 0, 0, 1, 2, 2, 2, 3, 3, 3, 4, 4, 5, 6, 6, 6, 7, 8, 9, 9, 9, 12, 12, 12, 30, 31, 32, 33}, lfs: []int{10, 20}}
	// BIND with operand bytes no compiler writes (struct target with selector "all", a selector that does
	// not exist, a target that does not exist): what such a file does is part of what version 1.1 means
	for _, b := range []byte{0x1F, 0x14, 0x31, 0x00} {
		m[fmt.Sprintf("hand-bind-%02x", b)] = asmProg{name: "bo", code: []byte{
			oDEFBLOCK, 0, 1, oTRUE, oSETFIELD, 2, oPOP, oENDBLOCK, oDEFBLOCK, 0, 1, oENDBLOCK, oBIND, 0, b, oRET},
			consts: []any{"t", "", "f"}, lfs: []int{4, 9}}
	}
	return m
}

type corpusRecord struct {
	File   string `json:"file"`
	Origin string `json:"origin"`
	Source string `json:"source,omitempty"`
	Run    string `json:"run"`    // canonical RUN line without xstats
	Disasm string `json:"disasm"` // hex
}

func stripXstats(line string) string {
	if i := strings.Index(line, " xstats="); i >= 0 {
		return line[:i]
	}
	return line
}

func implDisasmOfDump(dump []byte) string {
	return guarded(opTimeout, func() string {
		var out capBuf
		_, err := bcl.LoadProg(bytesReader(dump), "ignored", bcl.OptOutput(&out), bcl.OptLogger(io.Discard), bcl.OptDisasm(true))
		if err != nil {
			return "loaderr " + loadErrClass(err)
		}
		return "ok " + hx(out.Bytes())
	})
}

// corpusGen writes the corpus: files produced by the current build for a fixed list of
// sources (every opcode the compiler emits, every constant kind) and the hand-assembled
// files, each with its recorded behaviour.
func corpusGen(dir string) {
	os.MkdirAll(dir, 0o755)
	srcs := map[string]string{
		"arith":   "print 1 + 2 * 3 - 4 / 2\nprint 7 / 2\nprint 7.0 / 2\nprint -3 + +4\nprint 1 < 2\nprint 2 <= 1\nprint 1.5 > 1\nprint 3 >= 3.0\nprint 1 == 1.0\nprint 1 != 2\n",
		"strings": "print \"a\" + \"b\"\nprint \"n=\" + 42\nprint \"f=\" + 2.5\nprint \"x\" * 3\nprint \"a\" < \"b\"\nprint \"q\" + nil\nprint \"\" == \"\"\n",
		"logic":   "print 1 == 1 and 42\nprint 0 or \"dflt\"\nprint not nil\nprint nil and 1\nprint false or 0 or \"\"\nprint not \"\"\nprint 0.0 or 5\n",
		"vars":    "var x = 10\nvar y\nprint y\neval x = x + 1\nprint x\nvar z = x = 3\nprint z + x\nprint (y = 2) + y\n",
		"blocks":  "var port = 8000\ndef srv \"main\" {\n host = \"h\"\n port = port + 1\n def tls { on = true }\n def tls \"alt\" { on = false; t = TYPE + \".\" + NAME }\n var tmp = 1\n q = tmp\n}\ndef db { n = 1 }\ndef db \"second\" { n = 2 }\n",
		"bind1":   "def a { x = 1 }\nbind a -> struct\n",
		"bindall": "def a { x = 1 }\ndef b { y = 0 }\ndef a \"two\" { x = 2 }\nbind a:all -> slice\nbind a:last -> struct\nbind a:first -> slice\n",
		"rterr":   "def a { x = 1 }\nprint 1 + 1\nprint \"s\" - 1\n",
		"rterr2":  "def a { def b {}\n def b {} }\n",
		"neg":     "print -5\nprint -2.5\nprint 0 - 9223372036854775807 - 1\nvar n = -1\nprint n * n\n",
		"floats":  "print 1e21\nprint 1e-7\nprint 123456.789\nprint 5e-324\nprint 0.1 + 0.2\nprint 1.0 / 3\n",
		"scopes":  "var a = 1\ndef t { var a = a + 1; f = a; def u { var a = a * 10; g = a }; h = a }\nprint a\n",
	}
	var recs []corpusRecord
	names := make([]string, 0, len(srcs))
	for n := range srcs {
		names = append(names, n)
	}
	sort.Strings(names)
	for _, n := range names {
		prog, err := bcl.Parse([]byte(srcs[n]), n+".bcl", bcl.OptOutput(io.Discard), bcl.OptLogger(io.Discard))
		if err != nil {
			fatalf("corpus source %s does not parse", n)
		}
		d, _ := dumpOf(prog)
		os.WriteFile(filepath.Join(dir, n+".bcb"), d, 0o644)
		recs = append(recs, corpusRecord{File: n + ".bcb", Origin: "written by Prog.Dump of the pinned build (after the fix: commits)", Source: srcs[n],
			Run: stripXstats(implRun(d, false)), Disasm: implDisasmOfDump(d)})
	}
	hand := handAssembled()
	hn := make([]string, 0, len(hand))
	for n := range hand {
		hn = append(hn, n)
	}
	sort.Strings(hn)
	for _, n := range hn {
		d := hand[n].bytes()
		os.WriteFile(filepath.Join(dir, n+".bcb"), d, 0o644)
		recs = append(recs, corpusRecord{File: n + ".bcb", Origin: "hand-assembled from the documented layout by the harness's own assembler",
			Run: stripXstats(implRun(d, false)), Disasm: implDisasmOfDump(d)})
	}
	writeJSON(filepath.Join(dir, "records.json"), recs)
	fmt.Printf("corpus: %d files written to %s\n", len(recs), dir)
}

func streamCorpus(ctx *Ctx) *Result {
	res := NewResult("corpus", "the recorded corpus of version 1.1 files (dumps of the pinned build covering every opcode the compiler emits and every constant kind; hand-assembled files with LOOP, NOP, negative ints, booleans, nil, multi-byte sizes): each is loaded and executed by the implementation and by the model and compared with its recorded output, blocks, binding, warnings, error and disassembly; the hand assembler's bytes are re-generated and compared with the stored files; non-trivial = every file; distinct by file")
	dir := corpusDir()
	b, err := os.ReadFile(filepath.Join(dir, "records.json"))
	if err != nil {
		fatalf("corpus: %v", err)
	}
	var recs []corpusRecord
	if err := json.Unmarshal(b, &recs); err != nil {
		fatalf("corpus: %v", err)
	}
	d := ctx.Pool.ds[0]
	hand := handAssembled()
	for _, r := range recs {
		data, err := os.ReadFile(filepath.Join(dir, r.File))
		if err != nil {
			fatalf("corpus: %v", err)
		}
		res.Eval(1)
		res.Nontrivial(r.File)
		res.Count("files", 1)
		gotRun := stripXstats(implRun(data, false))
		gotDis := implDisasmOfDump(data)
		if gotRun != r.Run || gotDis != r.Disasm {
			res.Fail(Failure{Kind: "oracle", Input: "corpus file " + r.File + " (" + r.Origin + ")", Impl: trunc(gotRun, 1500) + " | disasm " + trunc(gotDis, 300),
				Expected: "the recorded behaviour: " + trunc(r.Run, 1500)})
			continue
		}
		mRun := stripXstats(ask(d, "RUN "+hxe(data)+" 0"))
		if mRun != r.Run {
			res.Fail(Failure{Kind: "model-diff", Op: "RUN " + r.File, Impl: trunc(r.Run, 1500), Model: trunc(mRun, 1500), Note: "model disagrees with the recorded behaviour of a corpus file"})
		}
		mDis := ask(d, "DISASM "+hxe(data))
		if mDis != r.Disasm {
			res.Fail(Failure{Kind: "model-diff", Op: "DISASM " + r.File, Impl: trunc(r.Disasm, 600), Model: trunc(mDis, 600), Note: "model disassembly of a corpus file"})
		}
		if h, ok := hand[strings.TrimSuffix(r.File, ".bcb")]; ok {
			if string(h.bytes()) != string(data) {
				res.Fail(Failure{Kind: "oracle", Input: r.File, Impl: "the harness's assembler no longer reproduces the stored file", Expected: "identical bytes"})
			}
			res.Count("hand-assembled", 1)
		} else if r.Source != "" {
			// a newly written dump of the same source follows the same layout: identical bytes
			prog, err := bcl.Parse([]byte(r.Source), strings.TrimSuffix(r.File, ".bcb")+".bcl", bcl.OptOutput(io.Discard), bcl.OptLogger(io.Discard))
			if err != nil {
				res.Fail(Failure{Kind: "oracle", Input: r.Source, Impl: "the source of corpus file " + r.File + " no longer parses", Expected: "accepted"})
				continue
			}
			nd, _ := dumpOf(prog)
			res.Eval(1)
			if string(nd) != string(data) {
				res.Fail(Failure{Kind: "oracle", Input: "source of corpus file " + r.File + ": " + r.Source, Impl: "newly written dump: " + trunc(hxe(nd), 1200),
					Expected: "the bytes recorded for format 1.1: " + trunc(hxe(data), 1200)})
			}
			res.Count("pinned-dumps", 1)
		}
		res.Sample(r.File + ": " + trunc(r.Run, 200))
	}
	// every operand byte of BIND (target nibble, selector nibble), over zero, one and three blocks of the
	// bound type: what a version 1.1 file with that byte means, valid or not, is compared with the model
	for nblocks := 0; nblocks <= 3; nblocks += 1 {
		if nblocks == 2 {
			continue
		}
		for b := 0; b < 256; b++ {
			var code []byte
			for k := 0; k < nblocks; k++ {
				code = append(code, oDEFBLOCK, 0, 1, oENDBLOCK)
			}
			code = append(code, oBIND, 0, byte(b), oRET)
			pos := make([]int, len(code))
			for k := range pos {
				pos[k] = k
			}
			data := asmProg{name: "bindop", code: code, consts: []any{"t", ""}, positions: pos, lfs: []int{5}}.bytes()
			ri := stripXstats(implRun(data, false))
			rm := stripXstats(ask(d, "RUN "+hxe(data)+" 0"))
			res.Eval(1)
			res.Count("bind-operand-sweep", 1)
			if ri != rm {
				res.Fail(Failure{Kind: "model-diff", Op: fmt.Sprintf("RUN of a hand-assembled file: %d block(s) of type t, then BIND t with operand byte 0x%02X", nblocks, b),
					Impl: trunc(ri, 800), Model: trunc(rm, 800), Note: "what a BIND operand byte means"})
			}
		}
	}
	return res
}
