package main

// Stream "determinism" (C16): parsing, executing and unmarshalling are
// functions of their input.  Every input is evaluated 20 times in this process
// (sequentially, interleaved with other inputs, and concurrently) and, in
// fresh processes of this same binary with other GOMAXPROCS values (and, being
// fresh processes, other map hash seeds).

import (
	"bufio"
	"bytes"
	"crypto/sha1"
	"encoding/hex"
	"encoding/json"
	"fmt"
	"math/rand"
	"os"
	"os/exec"
	"sort"
	"strings"
	"sync"

	"github.com/wkhere/bcl"
)

const detChildEnv = "BCLH_DET_CHILD"

// Child mode: print one line of digests per input and exit, before main runs.
func init() {
	path := os.Getenv(detChildEnv)
	if path == "" {
		return
	}
	data, err := os.ReadFile(path)
	if err != nil {
		fmt.Fprintln(os.Stderr, "determinism child:", err)
		os.Exit(3)
	}
	var inputs [][]byte // base64 in the file: sources need not be valid UTF-8
	if err := json.Unmarshal(data, &inputs); err != nil {
		fmt.Fprintln(os.Stderr, "determinism child:", err)
		os.Exit(3)
	}
	w := bufio.NewWriter(os.Stdout)
	for _, src := range inputs {
		fmt.Fprintln(w, detEval(string(src)).hashes())
	}
	w.Flush()
	os.Exit(0)
}

// ---------- targets ----------

type detLeafAny = struct {
	Name                                     string
	F, G, H, Port, Host, X, A, MaxConn, Flag any
	V, B, C, Xy                              any
}

type detAny = struct {
	Name                                     string
	F, G, H, Port, Host, X, A, MaxConn, Flag any
	V, B, Xy                                 any
	C                                        detLeafAny
	Srv, Db, T, U, Conf                      detLeafAny
}

type detLeafTyped = struct {
	Name    string
	F       int
	G       float64
	H       string
	Port    int
	Host    string
	X       any
	A       bool
	MaxConn int
	Flag    bool
	V       int
}

type detTyped = struct {
	Name    string
	F       int
	G       float64
	H       string
	Port    int
	Host    string
	X       int
	A       bool
	MaxConn int
	Flag    bool
	V       int
	B       float64
	Xy      int
	C       detLeafTyped
	Srv     detLeafTyped
	Db      detLeafTyped
	T       detLeafTyped
	U       detLeafTyped
	Conf    detLeafTyped
}

var detTargets = []struct {
	name string
	mk   func() any
}{
	{"*struct{…any}", func() any { return &detAny{} }},
	{"*struct{…typed}", func() any { return &detTyped{} }},
	{"*struct{…typed} prefilled", func() any {
		return &detTyped{Name: "old", F: 9, G: 9.5, H: "old", Port: 9, Host: "old", X: 9, A: true, MaxConn: 9, Flag: true, V: 9, B: 9.5, Xy: 9,
			C: detLeafTyped{Name: "old", F: 9, V: 9}, Srv: detLeafTyped{Name: "old", Port: 9}}
	}},
	{"*[]struct{…any} with 1 element", func() any { return &[]detAny{{Name: "stale"}} }},
	{"*[]struct{…typed} with 2 elements", func() any { return &[]detTyped{{Port: 9}, {Host: "stale"}} }},
	{"*int", func() any { return new(int) }},
}

// ---------- one evaluation ----------

type detOutcome struct {
	parse, exec, unm string
	parseOK, execOK  bool
	bound            bool
	ndiag            int
	unmOK, unmErr    int
	violation        string // a breach visible within one evaluation (Prog altered by Execute)
}

func sha(s string) string {
	h := sha1.Sum([]byte(s))
	return hex.EncodeToString(h[:8])
}

func (o detOutcome) hashes() string { return sha(o.parse) + " " + sha(o.exec) + " " + sha(o.unm) }

func detEval(src string) (o detOutcome) {
	var out, log bytes.Buffer
	var prog *bcl.Prog
	var err error
	// the introspection options are part of the input: chosen from the text, so that
	// every repetition of an input uses the same ones (statistics, disassembly and trace
	// go to the log and must repeat as well)
	hs := sha1.Sum([]byte(src))
	stats, disasm, trace := hs[0]&1 == 1, hs[0]&6 == 6, hs[0]&24 == 24
	if p := guardedCall(func() {
		prog, err = bcl.Parse([]byte(src), "input", bcl.OptOutput(&out), bcl.OptLogger(&log), bcl.OptStats(stats), bcl.OptDisasm(disasm))
	}); p != "" {
		o.parse = p
		return o
	}
	o.ndiag = strings.Count(log.String(), "\n")
	if err != nil {
		o.parse = fmt.Sprintf("parse err=%q out=%q log=%q", err.Error(), out.String(), log.String())
	} else {
		o.parseOK = true
		d1, derr := dumpOf(prog)
		o.parse = fmt.Sprintf("parse ok dump=%x dumperr=%v out=%q log=%q", d1, derr, out.String(), log.String())
		var first string
		for k := 0; k < 2; k++ {
			out.Reset()
			log.Reset()
			var blocks []bcl.Block
			var binding bcl.Binding
			var xerr error
			p := guardedCall(func() {
				blocks, binding, xerr = bcl.Execute(prog, bcl.OptOutput(&out), bcl.OptLogger(&log), bcl.OptStats(stats), bcl.OptTrace(trace))
			})
			e := "-"
			if xerr != nil {
				e = xerr.Error()
			}
			s := fmt.Sprintf("%s err=%q out=%q log=%q blocks=%s binding=%s", p, e, out.String(), log.String(), fmtBlocks(blocks), fmtBinding(binding))
			if k == 0 {
				first = s
				o.exec = s
				o.execOK = p == "" && xerr == nil
				o.bound = binding != nil
			} else if s != first {
				o.violation = "executing the same Prog a second time gave a different result:\n1st: " + first + "\n2nd: " + s
			}
			d2, _ := dumpOf(prog)
			if !bytes.Equal(d1, d2) {
				o.violation = fmt.Sprintf("Execute altered the Prog: dump before %x, after %x", d1, d2)
			}
		}
	}
	var b strings.Builder
	for _, t := range detTargets {
		target := t.mk()
		out.Reset()
		log.Reset()
		var uerr error
		p := guardedCall(func() {
			uerr = bcl.Unmarshal([]byte(src), target, bcl.OptOutput(&out), bcl.OptLogger(&log))
		})
		e := "-"
		if uerr != nil {
			e = uerr.Error()
			o.unmErr++
		} else {
			o.unmOK++
		}
		fmt.Fprintf(&b, "%s: %s err=%q target=%s out=%q log=%q\n", t.name, p, e, advDump(target), out.String(), log.String())
	}
	o.unm = b.String()
	return o
}

// ---------- inputs ----------

var detHandcrafted = []struct {
	kind string
	gen  func(r *rand.Rand) string
}{
	{"collide.x_y+xy", func(r *rand.Rand) string {
		ks := [][2]string{{"x_y", "xy"}, {"Xy", "xy"}, {"X_Y", "x__y"}, {"max_conn", "maxconn"}, {"MaxConn", "max_conn"}, {"port", "Port"}, {"P_ort", "PORT"}}[r.Intn(7)]
		return fmt.Sprintf("def t {\n %s = %d\n %s = %d\n f = 3\n}\nbind t -> %s\n", ks[0], r.Intn(9), ks[1], r.Intn(9), detTgt(r, "t"))
	}},
	{"collide.block-name+name-key", func(r *rand.Rand) string {
		k := []string{"name", "Name", "NAME", "n_ame"}[r.Intn(4)]
		k2 := []string{"name", "Name", "NAME", "na_me"}[r.Intn(4)]
		nm := []string{`"nm"`, `""`, ``, `"x.y"`}[r.Intn(4)]
		s := fmt.Sprintf("def t %s {\n %s = \"other\"\n h = \"s\"\n", nm, k)
		if k2 != k && r.Intn(2) == 0 {
			s += fmt.Sprintf(" %s = \"third\"\n", k2)
		}
		return s + "}\nbind t -> " + detTgt(r, "t") + "\n"
	}},
	{"collide.two-named-children", func(r *rand.Rand) string {
		c := []string{"c", "srv", "conf"}[r.Intn(3)]
		c2 := c
		if r.Intn(3) == 0 {
			c2 = strings.ToUpper(c)
		}
		return fmt.Sprintf("def t {\n def %s \"a\" { v = 1 }\n def %s \"b\" { v = 2 }\n def %s { v = 3 }\n f = 1\n}\nbind t -> %s\n", c, c2, []string{c, "db"}[r.Intn(2)], detTgt(r, "t"))
	}},
	{"several-type-mismatches", func(r *rand.Rand) string {
		vals := []string{`"s"`, "1.5", "true", "7", "nil"}
		var b strings.Builder
		b.WriteString("var u\ndef t \"n\" {\n")
		for _, k := range []string{"a", "f", "g", "h", "port", "host", "max_conn", "flag", "v", "b", "x"} {
			if r.Intn(4) != 0 {
				v := vals[r.Intn(len(vals))]
				if v == "nil" {
					v = "u"
				}
				fmt.Fprintf(&b, " %s = %s\n", k, v)
			}
		}
		b.WriteString(" def c { v = \"s\"; f = 1.5; zz = 1 }\n}\n")
		if r.Intn(2) == 0 {
			b.WriteString("def t { port = 1 }\ndef t { port = \"p\"; host = 2; yy = 0 }\n")
			return b.String() + "bind t:all -> slice\n"
		}
		return b.String() + "bind t -> " + detTgt(r, "t") + "\n"
	}},
	{"several-missing-fields", func(r *rand.Rand) string {
		ks := []string{"zz", "yy", "aa1", "q_q", "ww", "k9", "mm", "bb"}
		r.Shuffle(len(ks), func(i, j int) { ks[i], ks[j] = ks[j], ks[i] })
		var b strings.Builder
		b.WriteString("def t {\n")
		for _, k := range ks[:2+r.Intn(6)] {
			fmt.Fprintf(&b, " %s = %d\n", k, r.Intn(5))
		}
		return b.String() + " port = 1\n}\nbind t -> " + detTgt(r, "t") + "\n"
	}},
	{"several-parse-errors", func(r *rand.Rand) string {
		bad := []string{"def { = }", "bind -> x", "var 1 = 2", "print )", "def t { x = }", "eval 08", `print "\q"`, "bind t:2 -> struct", "def t \"n\" \"m\" {}", "@", "1 +", "def t { def }"}
		var parts []string
		for k := 0; k < 2+r.Intn(4); k++ {
			parts = append(parts, bad[r.Intn(len(bad))])
		}
		return strings.Join(parts, []string{"\n", "; ", " "}[r.Intn(3)]) + "\n"
	}},
	{"several-runtime-candidates", func(r *rand.Rand) string {
		bad := []string{"print 1/0", `print "a" - 1`, "print nosuch", "print -\"s\"", "bind nosuch -> struct", "print 1 < \"a\""}
		return "print 1\ndef t { f = 1; print f }\n" + bad[r.Intn(len(bad))] + "\n" + bad[r.Intn(len(bad))] + "\nbind t -> struct\n"
	}},
	{"repeated-bind", func(r *rand.Rand) string {
		return fmt.Sprintf("def t { f = 1 }\ndef u \"n\" { g = 2.5 }\nbind t -> struct\nbind u -> %s\nbind t:%s -> slice\n", detTgt(r, "u"), []string{"all", "first", "last", "1"}[r.Intn(4)])
	}},
	{"many-blocks-slice", func(r *rand.Rand) string {
		var b strings.Builder
		n := 2 + r.Intn(6)
		for k := 0; k < n; k++ {
			fmt.Fprintf(&b, "def t \"n%d\" { f = %d; g = %d.5; h = \"s%d\"; def srv { port = %d } }\n", r.Intn(3), k, k, k, 8000+k)
		}
		return b.String() + "bind t:" + []string{"all", "first", "last"}[r.Intn(3)] + " -> slice\n"
	}},
}

func detTgt(r *rand.Rand, _ string) string { return []string{"struct", "struct", "slice"}[r.Intn(3)] }

type detCase struct {
	i      int
	src    string
	hashes string
}

func streamDeterminism(ctx *Ctx) *Result {
	res := NewResult("determinism", "generated programs (valid and invalid, with an added bind statement for half of them) and handcrafted "+
		"inputs with colliding keys or several errors at once; each evaluated 20 times in process (10 in a row, 5 more after other "+
		"inputs, 5 concurrently) as Parse+Dump, Execute twice, Dump again, Unmarshal into 6 targets; in fresh processes with other "+
		"GOMAXPROCS (2 in the quick tier, 4 in the thorough tier); non-trivial = execution produced a binding or parsing produced at "+
		"least 2 diagnostic lines; distinct by source text")
	n := ctx.N(3000)
	const batch = 8
	var mu sync.Mutex
	var cases []detCase
	parallelCPU(ctx.Seed, 0x16, (n+batch-1)/batch, func(bi int, r *rand.Rand) {
		st := map[string]int{}
		type item struct {
			src  string
			kind string
			ref  detOutcome
		}
		var items []item
		for k := 0; k < batch && bi*batch+k < n; k++ {
			var src, kind string
			if r.Intn(3) == 0 {
				h := detHandcrafted[r.Intn(len(detHandcrafted))]
				src, kind = h.gen(r), "handcrafted."+h.kind
			} else {
				g := NewGen(r)
				g.MaxDepth = 1 + r.Intn(4)
				ss := g.Program(1 + r.Intn(8))
				src, kind = Render(ss, r, r.Intn(4) == 0), "generated"
				if len(g.Blocks) > 0 && r.Intn(2) == 0 {
					bt := g.Blocks[r.Intn(len(g.Blocks))]
					src += "\nbind " + bt + []string{" -> struct", ":first -> struct", ":last -> struct", ":all -> slice", ":last -> slice"}[r.Intn(5)] + "\n"
					kind = "generated+bind"
				}
			}
			items = append(items, item{src: src, kind: kind})
		}
		report := func(it item, what string, a, b detOutcome) {
			part, x, y := "parse", a.parse, b.parse
			if x == y {
				part, x, y = "execute", a.exec, b.exec
			}
			if x == y {
				part, x, y = "unmarshal", a.unm, b.unm
			}
			res.Fail(Failure{Kind: "oracle", Op: "repeat " + part, Input: it.src, Impl: what + ":\n" + y,
				Expected: "the same as the first evaluation:\n" + x})
		}
		same := func(a, b detOutcome) bool {
			if strings.Contains(a.parse+a.exec+a.unm+b.parse+b.exec+b.unm, "HANG") {
				// the watchdog fired (an overloaded machine): says nothing about the property
				st["skipped.watchdog"]++
				return true
			}
			return a.parse == b.parse && a.exec == b.exec && a.unm == b.unm
		}
		// pass 1: first evaluation and 9 repetitions in a row
		for k := range items {
			it := &items[k]
			it.ref = detEval(it.src)
			res.Eval(1)
			if it.ref.violation != "" {
				res.Fail(Failure{Kind: "oracle", Op: "Execute", Input: it.src, Impl: it.ref.violation, Expected: "executing a Prog does not alter it"})
			}
			for rep := 1; rep < 10; rep++ {
				o := detEval(it.src)
				res.Eval(1)
				if !same(it.ref, o) {
					report(*it, fmt.Sprintf("repetition %d in a row", rep), it.ref, o)
					break
				}
			}
		}
		// pass 2: after the other inputs of the batch, in another order
		for k := len(items) - 1; k >= 0; k-- {
			it := items[k]
			for rep := 0; rep < 5; rep++ {
				o := detEval(it.src)
				res.Eval(1)
				if !same(it.ref, o) {
					report(it, "evaluation after other inputs were processed", it.ref, o)
					break
				}
			}
		}
		// pass 3: concurrently
		var wg sync.WaitGroup
		outs := make([][5]detOutcome, len(items))
		for k := range items {
			for rep := 0; rep < 5; rep++ {
				wg.Add(1)
				go func(k, rep int) {
					defer wg.Done()
					outs[k][rep] = detEval(items[k].src)
				}(k, rep)
			}
		}
		wg.Wait()
		for k, it := range items {
			for rep := 0; rep < 5; rep++ {
				res.Eval(1)
				if !same(it.ref, outs[k][rep]) {
					report(it, "evaluation in concurrent goroutines", it.ref, outs[k][rep])
					break
				}
			}
		}
		for k, it := range items {
			o := it.ref
			st["input."+it.kind]++
			switch {
			case !o.parseOK:
				st["outcome.parse-error"]++
				dn := o.ndiag
				if dn > 4 {
					dn = 4
				}
				st[fmt.Sprintf("outcome.parse-error.diagnostic-lines=%d%s", dn, map[bool]string{true: "+"}[dn == 4])]++
			case !o.execOK:
				st["outcome.runtime-error"]++
			case o.bound:
				st["outcome.executed.with-binding"]++
			default:
				st["outcome.executed.no-binding"]++
			}
			st["unmarshal.ok"] += o.unmOK
			st["unmarshal.error"] += o.unmErr
			for _, l := range strings.Split(o.unm, "\n") {
				if j := strings.Index(l, " err=\""); j >= 0 {
					e := l[j+6:]
					for _, cls := range []string{"is mapped from both", "type mismatch", "not found in struct", "has nil value", "expected struct", "expected slice", "runtime error", "no binding", "parse error", "mismatch: struct type"} {
						if strings.Contains(e, cls) {
							st["unmarshal.error."+cls]++
						}
					}
				}
			}
			if o.bound || o.ndiag >= 2 {
				res.Nontrivial(it.src)
			}
			if bi == 0 && k < 4 {
				res.Sample(it.src)
			}
			mu.Lock()
			cases = append(cases, detCase{bi*batch + k, it.src, o.hashes()})
			mu.Unlock()
		}
		res.Merge(st)
	})

	// fresh processes
	sort.Slice(cases, func(a, b int) bool { return cases[a].i < cases[b].i })
	procs := []string{"1", "4"}
	if ctx.Tier == "thorough" {
		procs = []string{"1", "4", "16", "2"}
	}
	detChildren(res, cases, procs)
	return res
}

func detChildren(res *Result, cases []detCase, procs []string) {
	exe, err := os.Executable()
	if err != nil {
		res.Count("child.cannot-find-executable", 1)
		return
	}
	srcs := make([][]byte, len(cases))
	for i, c := range cases {
		srcs[i] = []byte(c.src)
	}
	data, _ := json.Marshal(srcs)
	f, err := os.CreateTemp("", "bclh-det-*.json")
	if err != nil {
		res.Count("child.cannot-write-inputs", 1)
		return
	}
	defer os.Remove(f.Name())
	f.Write(data)
	f.Close()
	var wg sync.WaitGroup
	for pi, gmp := range procs {
		wg.Add(1)
		go func(pi int, gmp string) {
			defer wg.Done()
			cmd := exec.Command(exe)
			cmd.Env = append(os.Environ(), detChildEnv+"="+f.Name(), "GOMAXPROCS="+gmp)
			var stderr bytes.Buffer
			cmd.Stderr = &stderr
			outb, err := cmd.Output()
			lines := strings.Split(strings.TrimSuffix(string(outb), "\n"), "\n")
			if err != nil || len(lines) != len(cases) {
				// not a property violation: the environment did not let the child run
				res.Count("child.failed-to-run", 1)
				fmt.Fprintf(os.Stderr, "determinism: child process %d did not complete: %v %s\n", pi, err, stderr.String())
				return
			}
			res.Count("child.process.GOMAXPROCS="+gmp, 1)
			for i, c := range cases {
				res.Eval(1)
				if lines[i] != c.hashes {
					part := "parse"
					a, b := strings.Fields(c.hashes), strings.Fields(lines[i])
					if len(b) == 3 && a[0] == b[0] {
						part = "execute"
						if a[1] == b[1] {
							part = "unmarshal"
						}
					}
					res.Fail(Failure{Kind: "oracle", Op: "fresh process " + part, Input: c.src,
						Impl:     fmt.Sprintf("fresh process with GOMAXPROCS=%s: digests (parse execute unmarshal) %s", gmp, lines[i]),
						Expected: "the digests of this process: " + c.hashes,
						Note:     "replay: write the input as a JSON array of one base64 string to a file and run the harness binary with " + detChildEnv + "=<file>"})
				}
			}
		}(pi, gmp)
	}
	wg.Wait()
}
