package main

import (
	"fmt"
	"math/rand"
	"strings"
)

func init() {
	streams["partitions"] = streamPartitions
	streams["layout"] = streamLayout
}

// shortSources: small inputs that contain every token kind, multi-byte characters in
// strings, comments and as whitespace, and lexical/syntax errors.
var shortSources = []string{
	"print 1+2", "var x=1;print x", `print "é世界"`, "print 1 # é世\nprint 2", "print\u00851 + 2",
	"x<=1", "a!=b", "print 1>=2==true", "bind t:all->slice", `def t "n" {f=1}`, "print 0x1F+017", "print 1.5e+3",
	`print "a\"b\\"`, "print @", "print 12ab", `print "abc`, "print 1 !", "print \"x\"y", "print 1.", "print 1e+",
	"print )\nprint (\nvar", "eval 1 ;; eval 2", "print 1\r\nprint 2\r\n", "#only comment", "", "\n\n", "print \"\xff\xfe\"",
	"print 1 \xc2", "\xe4\xb8", "print é", "var é = 1", "print -1--1", "print 1->2", "def a{def b{x=TYPE+NAME}}",
	// a multi-byte layout character directly after a token that is complete without look-ahead (one-character
	// tokens, complete two-character operators), and at offset 0; other multi-byte characters in the same places
	"\u0085print 1", "\u00a0\u0085print 1", "def t {\u00a0f = 1 }\u0085", "print (\u00851)\u00a0", "print 1 ==\u00a02", "print 1 +\u00852*\u00a03",
	"def t { a = 1;\u0085b = 2 }", "bind t:\u00a0all ->\u0085slice", "print 1 <=\u00852", "print (世)", "print 1 +世", "{\U0001F600}", "print 1 !=\u00a01",
}

func randomPartition(r *rand.Rand, b []byte, maxParts int, withEmpty bool) [][]byte {
	var parts [][]byte
	rest := b
	n := 1 + r.Intn(maxParts)
	for i := 0; i < n-1 && len(rest) > 0; i++ {
		if withEmpty && r.Intn(5) == 0 {
			parts = append(parts, nil)
			continue
		}
		k := r.Intn(len(rest) + 1)
		parts = append(parts, rest[:k])
		rest = rest[k:]
	}
	parts = append(parts, rest)
	if withEmpty && r.Intn(4) == 0 {
		parts = append(parts, nil)
	}
	return parts
}

// checkPartition: ParseFile under the partition against Parse on the whole (direct
// oracle of C07), and the lexer alone against the model.
func checkPartition(res *Result, d *Driver, src []byte, parts [][]byte, whole string) {
	// every other case delivers the last bytes together with io.EOF, as io.Reader allows
	withEOF := (len(src)+len(parts))%2 == 0
	got := implParseChunksEOF(parts, withEOF)
	if withEOF {
		res.Count("last-read-with-EOF", 1)
	}
	res.Eval(1)
	if got != whole {
		res.Fail(Failure{Kind: "oracle", Input: fmt.Sprintf("source=%q reads=%s lastReadWithEOF=%v", trunc(string(src), 600), trunc(chunksArg(parts), 1500), withEOF),
			Impl: trunc(got, 1500), Expected: "the outcome of Parse on the whole input: " + trunc(whole, 1500)})
		return
	}
	if len(src) <= 2000 {
		op := "LEX " + chunksArg(parts)
		li, lm := implLex(parts), ask(d, op)
		res.Eval(1)
		if li != lm {
			res.Fail(Failure{Kind: "model-diff", Op: op, Input: string(src), Impl: trunc(li, 1500), Model: trunc(lm, 1500), Note: "LEX: tokens or line table differ"})
		}
	}
}

func stripDisasm(line string) string {
	// drop the disasm= field of a PARSE line so it compares with a PARSEC line
	if i := strings.Index(line, " disasm="); i >= 0 {
		return line[:i]
	}
	return line
}

func streamPartitions(ctx *Ctx) *Result {
	res := NewResult("partitions", "inputs (valid, syntax/lexical errors, multi-byte characters in strings, comments and as whitespace) × partitions into reads: all 2-part cuts of short inputs, random ≤6-part partitions with empty reads, 4096-byte pages at sliding offsets; non-trivial = a partition with ≥2 non-empty parts or an empty read; distinct by (input, partition)")
	var srcs [][]byte
	for _, s := range shortSources {
		srcs = append(srcs, []byte(s))
	}
	g0 := rand.New(rand.NewSource(ctx.Seed))
	for i := 0; i < ctx.N(60); i++ {
		g := NewGen(g0)
		g.MaxDepth = 1 + g0.Intn(3)
		s := Render(g.Program(1+g0.Intn(3)), g0, true)
		if len(s) <= 160 {
			srcs = append(srcs, []byte(s))
		}
	}
	parallel(ctx.Pool, ctx.Seed, len(srcs), func(i int, r *rand.Rand, d *Driver) {
		src := srcs[i]
		whole := stripDisasm(implParse("input", src, false))
		// the whole input in one read must itself agree with the model
		wm := ask(d, "PARSEC "+hxs("input")+" "+chunksArg([][]byte{src}))
		res.Eval(1)
		if wm != whole {
			res.Fail(Failure{Kind: "model-diff", Op: "PARSEC", Input: string(src), Impl: trunc(whole, 1000), Model: trunc(wm, 1000), Note: "PARSEC whole"})
		}
		for k := 0; k <= len(src); k++ {
			parts := [][]byte{src[:k], src[k:]}
			checkPartition(res, d, src, parts, whole)
			if k > 0 && k < len(src) {
				res.Nontrivial(fmt.Sprintf("%x|%d", src, k))
				res.Count("cut.2part", 1)
			}
		}
		for j := 0; j < 6; j++ {
			parts := randomPartition(r, src, 6, true)
			checkPartition(res, d, src, parts, whole)
			res.Nontrivial(fmt.Sprintf("%x|%s", src, chunksArg(parts)))
			res.Count("cut.random", 1)
			for _, p := range parts {
				if len(p) == 0 {
					res.Count("empty-read", 1)
				}
			}
			if i < 3 && j == 0 {
				res.Sample(fmt.Sprintf("source %q reads %s", string(src), chunksArg(parts)))
			}
		}
		// every multi-byte character cut at each of its inner byte boundaries, with zero, one or two
		// reads of zero bytes at the cut, and (for characters of three or four bytes) cut twice
		for k := 0; k < len(src); k++ {
			if src[k] < 0xC0 {
				continue
			}
			n := 1
			for k+n < len(src) && src[k+n]&0xC0 == 0x80 && n < 4 {
				n++
			}
			for c := 1; c < n; c++ {
				for empties := 0; empties <= 2; empties++ {
					parts := [][]byte{src[:k+c]}
					for e := 0; e < empties; e++ {
						parts = append(parts, nil)
					}
					parts = append(parts, src[k+c:])
					checkPartition(res, d, src, parts, whole)
					res.Count("cut.inside-rune", 1)
				}
				if c+1 < n {
					parts := [][]byte{src[:k+c], src[k+c : k+c+1], nil, src[k+c+1:]}
					checkPartition(res, d, src, parts, whole)
					res.Count("cut.inside-rune-twice", 1)
				}
			}
		}
		// model of the chunked parser (lexer window + parser) on one random partition
		parts := randomPartition(r, src, 5, true)
		pm := ask(d, "PARSEC "+hxs("input")+" "+chunksArg(parts))
		res.Eval(1)
		if pm != whole {
			res.Fail(Failure{Kind: "model-diff", Op: "PARSEC " + chunksArg(parts), Input: string(src), Impl: trunc(whole, 1000), Model: trunc(pm, 1000), Note: "PARSEC: model of ParseFile under a partition"})
		}
	})
	// one-byte reads and real 4096-byte pages slid over every offset
	nlong := ctx.N(6)
	parallel(ctx.Pool, ctx.Seed+3, nlong, func(i int, r *rand.Rand, d *Driver) {
		g := NewGen(r)
		g.MaxDepth = 3
		var b strings.Builder
		for b.Len() < 9000 {
			b.WriteString(Render(g.Program(4), r, true))
			b.WriteString("# é世界 filler ")
			b.WriteString(strings.Repeat("·", r.Intn(40)))
			b.WriteString("\n")
		}
		src := []byte(b.String())
		whole := stripDisasm(implParse("input", src, false))
		steps := 40 * ctx.Scale
		for j := 0; j < steps; j++ {
			off := r.Intn(4096)
			// pad so that page boundaries fall at a different place in the tokens
			padded := append([]byte(strings.Repeat(" ", off)), src...)
			w2 := stripDisasm(implParse("input", padded, false))
			checkPartition(res, d, padded, [][]byte{padded}, w2) // chunkFile splits into 4096-byte pages
			res.Nontrivial(fmt.Sprintf("page|%d|%d", i, off))
			res.Count("cut.page4096", 1)
		}
		one := make([][]byte, len(src))
		for k := range src {
			one[k] = src[k : k+1]
		}
		checkPartition(res, d, src, one, whole)
		res.Count("cut.onebyte", 1)
	})
	return res
}

// ---------- C20: layout, comments, optional ';', redundant parentheses ----------

func addParens(r *rand.Rand, e Expr) Expr {
	wrap := func(x Expr) Expr {
		for r.Intn(4) == 0 {
			x = Paren{x}
		}
		if r.Intn(400) == 0 {
			// any number of redundant parentheses (C06 draws the line at 10^4 levels of nesting)
			for k, n := 0, 200+r.Intn(1200); k < n; k++ {
				x = Paren{x}
			}
		}
		return x
	}
	switch x := e.(type) {
	case Binary:
		return wrap(Binary{x.Op, addParens(r, x.A), addParens(r, x.B)})
	case Unary:
		return wrap(Unary{x.Op, addParens(r, x.E)})
	case Assign:
		return wrap(Assign{x.Name, addParens(r, x.E)})
	case Paren:
		return wrap(Paren{addParens(r, x.E)})
	default:
		return wrap(e)
	}
}

func addParensStmts(r *rand.Rand, ss []Stmt) []Stmt {
	out := make([]Stmt, len(ss))
	for i, s := range ss {
		switch x := s.(type) {
		case VarStmt:
			if x.Init != nil {
				out[i] = VarStmt{x.Name, addParens(r, x.Init)}
			} else {
				out[i] = x
			}
		case PrintStmt:
			out[i] = PrintStmt{addParens(r, x.E)}
		case EvalStmt:
			out[i] = EvalStmt{addParens(r, x.E)}
		case ExprStmt:
			// an assignment statement must keep its bare target; parenthesise inside only
			if a, ok := x.E.(Assign); ok {
				out[i] = ExprStmt{Assign{a.Name, addParens(r, a.E)}}
			} else {
				out[i] = ExprStmt{addParens(r, x.E)}
			}
		case DefStmt:
			out[i] = DefStmt{x.Type, x.Name, addParensStmts(r, x.Body)}
		default:
			out[i] = s
		}
	}
	return out
}

var rePos = regexpMust(`line \d+:\d+`)

// layoutKey: what must be invariant under re-rendering: code and constants of the
// dump (positions excluded), or the diagnostics modulo positions, and the run outcome.
func layoutKey(src []byte) string {
	line := implInterpNoPos(src)
	return line
}

func streamLayout(ctx *Ctx) *Result {
	res := NewResult("layout", "each generated program (accepted or rejected) re-rendered 5 times: random separators among space, tab, VT, FF, CR, LF, U+0085, U+00A0, '#' comments with arbitrary content ended by CR or LF, optional ';', redundant parentheses; code+constants and run outcome must coincide, diagnostics coincide modulo positions; non-trivial = a re-rendering that differs textually from the reference; distinct by rendering")
	parallel(ctx.Pool, ctx.Seed, ctx.N(700), func(i int, r *rand.Rand, d *Driver) {
		g := NewGen(r)
		g.MaxDepth = 1 + r.Intn(4)
		ss := g.Program(1 + r.Intn(6))
		ref := (&Layout{r: r, Compact: true}).Join(progToks(ss, func() bool { return false }))
		refKey := layoutKey([]byte(ref))
		res.Eval(1)
		refToks := progToks(ss, func() bool { return false })
		for j := 0; j < 5; j++ {
			var toks []string
			sameTokens := j%3 == 0
			if sameTokens {
				toks = refToks // layout and comments only
				res.Count("render.layout-only", 1)
			} else {
				ss2 := ss
				if j%2 == 1 {
					ss2 = addParensStmts(r, ss)
					res.Count("render.parens", 1)
				}
				toks = progToks(ss2, func() bool { return r.Intn(3) == 0 })
				res.Count("render.semicolons", 1)
			}
			src := (&Layout{r: r, Fancy: true}).Join(toks)
			k := layoutKey([]byte(src))
			res.Eval(1)
			if src != ref {
				res.Nontrivial(src)
			}
			// With the same token sequence everything but positions must coincide, for
			// rejected programs too.  Optional ';' and redundant parentheses change the
			// token sequence: for a rejected program only the verdict is compared then
			// (the follow-on diagnostics of panic-mode recovery depend on the tokens skipped).
			same := k == refKey
			if !sameTokens && strings.HasPrefix(refKey, "rejected") {
				same = strings.HasPrefix(k, "rejected")
			}
			if !same {
				res.Fail(Failure{Kind: "oracle", Input: fmt.Sprintf("reference rendering %q ; re-rendering %q", trunc(ref, 800), trunc(src, 800)),
					Impl: trunc(k, 1200), Expected: "same instructions, constants, diagnostics (modulo positions) and run outcome as the reference: " + trunc(refKey, 1200)})
				break
			}
			// the model must agree on the re-rendering too (its lexer is what the C20 theorems are about)
			diffParseRun(res, d, []byte(src), false)
			if i < 2 && j == 0 {
				res.Sample(src)
			}
		}
		if strings.HasPrefix(refKey, "accepted") {
			res.Count("accepted", 1)
		} else {
			res.Count("rejected", 1)
		}
	})
	// string bodies are verbatim; comments end at CR or LF only
	bodies := []string{"#", ";", "a # b", "( )", " \t ", "x;y#z(", "a\\\"b", "é世界", "\\n", "#\\t;", "  ", "\u0085 ", "print 1", "//", "}"}
	parallel(ctx.Pool, ctx.Seed+9, len(bodies)*4, func(i int, r *rand.Rand, d *Driver) {
		b := bodies[i%len(bodies)]
		var src, want string
		switch i / len(bodies) {
		case 0:
			src = "print \"" + b + "\""
			u, err := unquoteGo("\"" + b + "\"")
			if err != nil {
				return
			}
			want = u + "\n"
		case 1:
			src = "print 1 # " + strings.ReplaceAll(b, "\\", "") + " ; print 2 \" ( \nprint 3"
			want = "1\n3\n"
		case 2:
			src = "print 1 #" + strings.ReplaceAll(b, "\\", "") + "\rprint 3"
			want = "1\n3\n"
		default:
			src = "print 1 #" + strings.ReplaceAll(b, "\\", "") + " print 3"
			want = "1\n"
		}
		got := implOutput([]byte(src))
		res.Eval(1)
		res.Count("verbatim", 1)
		if got != want {
			res.Fail(Failure{Kind: "oracle", Input: src, Impl: fmt.Sprintf("%q", got), Expected: fmt.Sprintf("%q (string bodies are verbatim; a comment ends at the next CR or LF and nowhere else)", want)})
		}
		diffParseRun(res, d, []byte(src), false)
	})
	return res
}
