package main

// Scripted FileInput and goroutine bookkeeping shared by the streams "proto"
// (streams_proto.go) and "race" (streams_race.go).

import (
	"bytes"
	"context"
	"fmt"
	"io"
	"math/rand"
	"runtime"
	"runtime/pprof"
	"strings"
	"sync"
	"sync/atomic"
	"time"
)

// ---------- reader script ----------

// rstep is one Read call of a scripted file.
type rstep struct {
	n     int           // bytes handed over by this Read (0 is allowed); never more than a page
	eof   bool          // io.EOF is returned together with the n bytes
	fail  bool          // the file's own error is returned together with the n bytes
	yield int           // runtime.Gosched() calls before the Read returns
	sleep time.Duration // sleep before the Read returns
}

func (s rstep) String() string {
	var b strings.Builder
	fmt.Fprintf(&b, "%d", s.n)
	if s.eof {
		b.WriteString("+EOF")
	}
	if s.fail {
		b.WriteString("+ERR")
	}
	if s.yield > 0 {
		fmt.Fprintf(&b, "+g%d", s.yield)
	}
	if s.sleep > 0 {
		fmt.Fprintf(&b, "+s%dus", s.sleep.Microseconds())
	}
	return b.String()
}

// scriptString renders a script with run-length encoding: "4096 (1)x17 0 3+EOF".
// After the last step every further Read returns (0, io.EOF); after a step with
// +ERR every further Read returns (0, the same error).
func scriptString(steps []rstep) string {
	var b strings.Builder
	for i := 0; i < len(steps); {
		j := i
		for j < len(steps) && steps[j] == steps[i] {
			j++
		}
		if b.Len() > 0 {
			b.WriteByte(' ')
		}
		if j-i > 1 {
			fmt.Fprintf(&b, "(%s)x%d", steps[i], j-i)
		} else {
			b.WriteString(steps[i].String())
		}
		i = j
	}
	return b.String()
}

type scriptErr struct{ id int64 }

func (e *scriptErr) Error() string { return fmt.Sprintf("scripted read error #%d", e.id) }

var scriptErrSeq int64

// scriptFile is a FileInput that plays a script and records how it was used.
type scriptFile struct {
	src        []byte
	steps      []rstep
	injected   error // returned by steps with fail set
	closeDelay time.Duration

	mu               sync.Mutex
	si               int // next step
	off              int // bytes delivered so far
	reads            int
	nonEmpty         int
	closes           int
	readsAfterClose  int
	readsAfterEOF    int // Reads issued after a Read already returned io.EOF
	readsAfterErr    int // Reads issued after a Read already returned the injected error
	readsAfterReturn int // Reads that began after the API call had returned
	eofSeen          bool
	errSeen          bool
	cum              []int32 // bytes delivered after each Read
	returned         atomic.Bool
}

func newScriptFile(src []byte, steps []rstep) *scriptFile {
	return &scriptFile{src: src, steps: steps, injected: &scriptErr{atomic.AddInt64(&scriptErrSeq, 1)}}
}

func (f *scriptFile) Name() string { return "input" }

func (f *scriptFile) Read(p []byte) (int, error) {
	f.mu.Lock()
	f.reads++
	if f.closes > 0 {
		f.readsAfterClose++
	}
	if f.returned.Load() {
		f.readsAfterReturn++
	}
	if f.errSeen {
		f.readsAfterErr++
		f.cum = append(f.cum, int32(f.off))
		f.mu.Unlock()
		return 0, f.injected
	}
	if f.eofSeen {
		f.readsAfterEOF++
	}
	if f.eofSeen || f.si >= len(f.steps) {
		f.eofSeen = true
		f.cum = append(f.cum, int32(f.off))
		f.mu.Unlock()
		return 0, io.EOF
	}
	st := &f.steps[f.si]
	n := st.n
	if n > len(p) {
		n = len(p)
	}
	if n > len(f.src)-f.off {
		n = len(f.src) - f.off
	}
	copy(p, f.src[f.off:f.off+n])
	f.off += n
	var err error
	yield, sleep := 0, time.Duration(0)
	if n < st.n && f.off < len(f.src) {
		// the caller's buffer was smaller than the step: the rest comes with the next Read
		st.n -= n
	} else {
		yield, sleep = st.yield, st.sleep
		if st.fail {
			err = f.injected
			f.errSeen = true
		} else if st.eof {
			err = io.EOF
			f.eofSeen = true
		}
		f.si++
	}
	if n > 0 {
		f.nonEmpty++
	}
	f.cum = append(f.cum, int32(f.off))
	f.mu.Unlock()

	for i := 0; i < yield; i++ {
		runtime.Gosched()
	}
	if sleep > 0 {
		time.Sleep(sleep)
	}
	return n, err
}

func (f *scriptFile) Close() error {
	if f.closeDelay > 0 {
		time.Sleep(f.closeDelay)
	}
	f.mu.Lock()
	f.closes++
	f.mu.Unlock()
	return nil
}

type scriptFileUse struct {
	reads, nonEmpty, closes                                         int
	readsAfterClose, readsAfterEOF, readsAfterErr, readsAfterReturn int
	delivered                                                       int
	eofSeen, errSeen                                                bool
	cum                                                             []int32
}

func (f *scriptFile) use() scriptFileUse {
	f.mu.Lock()
	defer f.mu.Unlock()
	return scriptFileUse{f.reads, f.nonEmpty, f.closes, f.readsAfterClose, f.readsAfterEOF, f.readsAfterErr,
		f.readsAfterReturn, f.off, f.eofSeen, f.errSeen, append([]int32(nil), f.cum...)}
}

func (f *scriptFile) numCloses() int {
	f.mu.Lock()
	defer f.mu.Unlock()
	return f.closes
}

// ---------- script generator ----------

type scriptPlan struct {
	Mode     string // how read sizes are chosen
	Zero     int    // 1/Zero of the steps are preceded by an empty read (0 = never)
	Yield    int    // 1/Yield of the steps yield the processor
	Sleep    int    // 1/Sleep of the steps sleep a little
	EOFWith  bool   // io.EOF arrives together with the last bytes
	ErrAt    int    // step index at which the error is delivered, -1 = never
	ErrKind  string // none | first-read | middle | last-data-read | instead-of-eof
	ErrData  bool   // the error arrives together with data
	CloseDly time.Duration
}

var scriptModes = []string{"page", "big", "small", "tiny", "mixed", "window", "one"}

// genScript makes a reader script for src.  focus is a byte offset of interest
// (the damaged place, or -1): mode "window" reads byte by byte around it.
func genScript(r *rand.Rand, src []byte, focus int) ([]rstep, scriptPlan) {
	pl := scriptPlan{Mode: scriptModes[r.Intn(len(scriptModes))], ErrAt: -1, ErrKind: "none"}
	if pl.Mode == "one" && len(src) > 3000 {
		pl.Mode = "mixed"
	}
	if len(src) > 6000 && pl.Mode == "tiny" && r.Intn(3) != 0 {
		pl.Mode = "small" // keep most long inputs to a few hundred reads
	}
	pl.Zero = []int{0, 0, 20, 3}[r.Intn(4)]
	pl.Yield = []int{0, 0, 10, 2}[r.Intn(4)]
	pl.Sleep = []int{0, 0, 0, 50, 8}[r.Intn(5)]
	pl.EOFWith = r.Intn(3) == 0
	if r.Intn(4) == 0 {
		pl.CloseDly = time.Duration(50+r.Intn(400)) * time.Microsecond
	}

	size := func(off int) int {
		switch pl.Mode {
		case "page":
			return 4096
		case "big":
			return 1 + r.Intn(4096)
		case "small":
			return 1 + r.Intn(64)
		case "tiny":
			return 1 + r.Intn(4)
		case "one":
			return 1
		case "window":
			if focus >= 0 && off >= focus-40 && off <= focus+40 {
				return 1
			}
			if focus > off+40 && focus-40-off < 4096 {
				return focus - 40 - off
			}
			return 4096
		default: // mixed
			switch r.Intn(6) {
			case 0:
				return 1
			case 1:
				return 2 + r.Intn(15)
			case 2:
				return 17 + r.Intn(496)
			case 3:
				return 513 + r.Intn(3584)
			case 4:
				return 4096
			default:
				return 4095 + r.Intn(2) // one byte short of a page, or a page
			}
		}
	}

	var steps []rstep
	sleepBudget := 20 * time.Millisecond
	deco := func(s rstep) rstep {
		if pl.Yield > 0 && r.Intn(pl.Yield) == 0 {
			s.yield = 1 + r.Intn(3)
		}
		if pl.Sleep > 0 && sleepBudget > 0 && r.Intn(pl.Sleep) == 0 {
			s.sleep = time.Duration(20+r.Intn(400)) * time.Microsecond
			sleepBudget -= s.sleep
		}
		return s
	}
	zeros := 0
	for off := 0; off < len(src); {
		if pl.Zero > 0 && zeros < 64 && r.Intn(pl.Zero) == 0 {
			steps = append(steps, deco(rstep{n: 0}))
			zeros++
			continue
		}
		n := size(off)
		if n > len(src)-off {
			n = len(src) - off
		}
		steps = append(steps, deco(rstep{n: n}))
		off += n
	}
	if pl.EOFWith && len(steps) > 0 && steps[len(steps)-1].n > 0 {
		steps[len(steps)-1].eof = true
	} else {
		pl.EOFWith = false
		for pl.Zero > 0 && r.Intn(2) == 0 && zeros < 70 {
			steps = append(steps, deco(rstep{n: 0}))
			zeros++
		}
	}

	// a read error at any step: instead of the step's data, with it, or in place of the final EOF
	if r.Intn(5) < 2 {
		at := r.Intn(len(steps) + 1)
		if r.Intn(4) == 0 {
			at = len(steps) // after all the data, where EOF would have come
		}
		pl.ErrAt = at
		pl.ErrData = r.Intn(2) == 0
		switch {
		case at == len(steps):
			pl.ErrKind = "instead-of-eof"
		case at == 0:
			pl.ErrKind = "first-read"
		case at == len(steps)-1:
			pl.ErrKind = "last-data-read"
		default:
			pl.ErrKind = "middle"
		}
		if at == len(steps) {
			if at > 0 {
				steps[at-1].eof = false
			}
			steps = append(steps, deco(rstep{n: 0, fail: true}))
			pl.ErrData = false
		} else {
			if !pl.ErrData {
				steps[at].n = 0
			}
			pl.ErrData = steps[at].n > 0
			steps[at].fail, steps[at].eof = true, false
			steps = steps[:at+1]
		}
	}
	return steps, pl
}

// ---------- goroutines of one call ----------

const callLabel = "bclh-call"

var callSeq int64

// libGoroutines returns the stacks of the live goroutines carrying the label id
// that have a frame inside package bcl.
func libGoroutines(id string) []string {
	var buf bytes.Buffer
	pprof.Lookup("goroutine").WriteTo(&buf, 1)
	want := fmt.Sprintf("%q:%q", callLabel, id)
	var out []string
	for _, blk := range strings.Split(buf.String(), "\n\n") {
		if !strings.Contains(blk, want) {
			continue
		}
		lib := false
		for _, ln := range strings.Split(blk, "\n") {
			if strings.HasPrefix(ln, "#\t") && strings.Contains(ln, "github.com/wkhere/bcl.") {
				lib = true
			}
		}
		if lib {
			out = append(out, blk)
		}
	}
	return out
}

// protoWaitUntil polls cond with growing pauses until it holds or the time is up.
func protoWaitUntil(limit time.Duration, cond func() bool) bool {
	deadline := time.Now().Add(limit)
	pause := 20 * time.Microsecond
	for i := 0; ; i++ {
		if cond() {
			return true
		}
		if time.Now().After(deadline) {
			return false
		}
		if i < 4 {
			runtime.Gosched()
			continue
		}
		time.Sleep(pause)
		if pause < 20*time.Millisecond {
			pause *= 2
		}
	}
}

// protoWatchdogRun runs f on a fresh labelled goroutine; ok is false if f did not
// return in time, pan is non-empty if it panicked.
func protoWatchdogRun(timeout time.Duration, f func()) (id string, ok bool, pan string) {
	done := make(chan string, 1)
	idc := make(chan string, 1)
	go func() {
		myid := fmt.Sprintf("c%d", atomic.AddInt64(&callSeq, 1))
		idc <- myid
		pprof.Do(context.Background(), pprof.Labels(callLabel, myid), func(context.Context) {
			defer func() {
				if r := recover(); r != nil {
					buf := make([]byte, 4096)
					buf = buf[:runtime.Stack(buf, false)]
					done <- fmt.Sprintf("panic: %v\n%s", r, buf)
				}
			}()
			f()
			done <- ""
		})
	}()
	id = <-idc
	t := time.NewTimer(timeout)
	defer t.Stop()
	select {
	case p := <-done:
		return id, true, p
	case <-t.C:
		return id, false, ""
	}
}

// labelledStacks dumps all goroutines of a call (for hang reports).
func labelledStacks(id string) string {
	var buf bytes.Buffer
	pprof.Lookup("goroutine").WriteTo(&buf, 1)
	want := fmt.Sprintf("%q:%q", callLabel, id)
	var out []string
	for _, blk := range strings.Split(buf.String(), "\n\n") {
		if strings.Contains(blk, want) {
			out = append(out, blk)
		}
	}
	return strings.Join(out, "\n\n")
}
