package main

import (
	"errors"
	"fmt"
	"io"
	"math/rand"
	"time"

	"github.com/wkhere/bcl"
)

func init() {
	streams["detfile"] = streamDetFile
}

// slowFile hands over fixed chunks; the read number failAt (0-based) returns an error;
// reads after the first take a moment, like a slow device.
type slowFile struct {
	chunks [][]byte
	i      int
	failAt int
	delay  time.Duration
	err    error
}

func (f *slowFile) Read(p []byte) (int, error) {
	if f.i > 0 && f.delay > 0 {
		time.Sleep(f.delay)
	}
	k := f.i
	f.i++
	if k == f.failAt {
		return 0, f.err
	}
	if k >= len(f.chunks) {
		return 0, io.EOF
	}
	return copy(p, f.chunks[k]), nil
}
func (f *slowFile) Close() error { return nil }
func (f *slowFile) Name() string { return "slow" }

// streamDetFile: the outcome of the file variants is a function of the reader's
// behaviour: repeating a call on an identically behaving file gives the same error
// and the same diagnostics, whatever the scheduling.
func streamDetFile(ctx *Ctx) *Result {
	res := NewResult("detfile", "ParseFile/InterpretFile repeated 25 times on identically scripted files (a lexical or syntax failure in an early chunk, a read error one to four reads later, delays on later reads, GOMAXPROCS varied): returned error and diagnostics must be identical in every repetition; non-trivial = a script whose read error comes after the failing chunk; distinct by script")
	injected := errors.New("scripted device error")
	parallelCPUish(ctx, ctx.N(40), func(i int, r *rand.Rand) {
		bad := []string{"print @\n", "print 12ab\n", "print )\n", "var = 1\n", "print \"abc\n"}[r.Intn(5)]
		nchunks := 4 + r.Intn(4)
		var chunks [][]byte
		failChunk := r.Intn(2)
		for k := 0; k < nchunks; k++ {
			s := fmt.Sprintf("print %d\nvar v%d = %d\n", k, k, k)
			if k == failChunk {
				s = "print 0\n" + bad + "print 1\nprint 2\n"
			}
			chunks = append(chunks, []byte(s))
		}
		failAt := failChunk + 1 + r.Intn(4)
		delay := time.Duration(r.Intn(3)) * time.Millisecond
		desc := fmt.Sprintf("chunks=%q read #%d returns %v, delay %v on later reads", chunks, failAt, injected, delay)
		var first string
		for rep := 0; rep < 25; rep++ {
			f := &slowFile{chunks: chunks, failAt: failAt, delay: delay, err: injected}
			var log capBuf
			v := guarded(opTimeout, func() string {
				_, err := bcl.ParseFile(f, bcl.OptOutput(io.Discard), bcl.OptLogger(&log))
				return fmt.Sprintf("err=%v", err)
			})
			// the diagnostics the caller's log holds when the call returns are part of the outcome:
			// everything delivered before the failing read has been parsed by then
			got := v + " log=" + fmt.Sprintf("%q", log.String())
			res.Eval(1)
			if rep == 0 {
				first = got
				continue
			}
			if got != first {
				res.Fail(Failure{Kind: "oracle", Input: "ParseFile on a scripted file, repeated: " + desc, Impl: fmt.Sprintf("repetition %d: %s", rep+1, got),
					Expected: "the same outcome as the first repetition: " + first})
				return
			}
		}
		res.Nontrivial(desc)
		res.Count("script", 1)
		res.Count("outcome."+first, 1)
		if i < 2 {
			res.Sample(desc + " → " + first)
		}
	})
	return res
}

// parallelCPUish runs n cases on a few goroutines with their own PRNGs.
func parallelCPUish(ctx *Ctx, n int, f func(i int, r *rand.Rand)) {
	ch := make(chan int, n)
	for i := 0; i < n; i++ {
		ch <- i
	}
	close(ch)
	done := make(chan bool)
	workers := 8
	for w := 0; w < workers; w++ {
		go func() {
			for i := range ch {
				f(i, rand.New(rand.NewSource(ctx.Seed*104729+int64(i))))
			}
			done <- true
		}()
	}
	for w := 0; w < workers; w++ {
		<-done
	}
}
