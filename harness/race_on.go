//go:build race

package main

// raceEnabled tells whether the binary was built with -race.
const raceEnabled = true
