module bclh

go 1.21

require github.com/wkhere/bcl v0.0.0

require github.com/mohae/uvarint v0.0.0-20160208145430-c3f9e62bf2b0 // indirect

replace github.com/wkhere/bcl => /repo
