package main

// Stream "proto" — property C11: the file-based entry points (ParseFile,
// InterpretFile, UnmarshalFile) against every behaviour of the input.
//
// Each case builds an input (one byte to about five pages; valid, with syntax
// errors early/late/many, with a lexical failure early/late, cut off, or tiny)
// and, for each of the three entry points, a fresh reader script: a list of
// Reads of any size from 0 to a page, io.EOF alone or together with the last
// bytes, a read error at any step (alone or together with bytes), and
// Gosched/sleep delays inside Read and Close.  Batches of cases run one after
// another with GOMAXPROCS set to 1, 2, 16 in turn (and 1, 4 or 8 cases at a
// time inside the batch), so the reader, lexer and parser goroutines meet under
// different schedules.
//
// What is asserted is what api.go guarantees and C11 demands:
//   - the call returns before the watchdog (30 s) and does not panic;
//   - shortly after the return (≤ 5 s) Close has been called, and no goroutine
//     started by the call still has a frame in package bcl.  (Close runs in the
//     reader goroutine's defer, after it has handed its verdict to the caller,
//     so it may come a moment after the return: the stream waits for it.)
//     The goroutines of a call are found by a pprof label that they inherit;
//   - Close was called exactly once, and no Read was issued after Close;
//   - if any Read returned the scripted error, that very error is returned;
//   - after a lexical failure whose detection needs only bytes [0,need) of the
//     input, need = error position + 4 (the lexer looks at most one rune past
//     it), at most protoReadSlack Reads are issued after the Read that delivered
//     byte need-1, however much input remains.  From api.go the exact number is
//     ≤ 1: the lexer takes no chunk after the one it failed in, so the reader
//     completes one more Read and its hand-over is abandoned when the parser
//     closes `done`.  The observed numbers are in the distribution
//     (lexfail.reads-after.N);
//   - when no Read returned an error, ParseFile succeeds exactly when Parse of
//     the whole input succeeds, with the same diagnostics text and, on success,
//     the same dump bytes.

import (
	"bytes"
	"crypto/sha1"
	"errors"
	"fmt"
	"math/rand"
	"runtime"
	"strings"
	"sync"
	"sync/atomic"
	"time"

	"github.com/wkhere/bcl"
)

const (
	protoWatchdog  = 30 * time.Second
	protoSettle    = 5 * time.Second
	protoReadSlack = 3
	protoMaxHangs  = 3 // after this many calls that did not return or did not settle, the rest of the stream is skipped
)

var protoHangs atomic.Int32

func init() {
	streams["proto"] = streamProto
}

type protoFields = struct {
	Name                                     string
	F, G, H, Port, Host, X, A, MaxConn, Flag any
}

func streamProto(ctx *Ctx) *Result {
	protoHangs.Store(0)
	res := NewResult("proto", "reader scripts (reads of 0..4096 bytes, EOF alone or with data, a read error at any step alone or with data, yields and sleeps in Read, delayed Close) × inputs of 0 bytes..5 pages (valid, syntax errors early/late/many, lexical failure early/late/at a raw byte, cut off, tiny) × ParseFile/InterpretFile/UnmarshalFile × GOMAXPROCS 1/2/16; non-trivial = the call issued ≥ 3 Reads or met a read error, on an input of ≥ 2 bytes; distinct by (entry point, script, input)")
	if raceEnabled {
		res.Count("race-detector-enabled", 1)
	}
	total := ctx.N(480)
	const batch = 30
	old := runtime.GOMAXPROCS(0)
	defer runtime.GOMAXPROCS(old)
	for b := 0; b*batch < total; b++ {
		procs := []int{1, 2, 16}[b%3]
		workers := []int{1, 4, 8}[(b/3)%3]
		runtime.GOMAXPROCS(procs)
		lo, hi := b*batch, min((b+1)*batch, total)
		ch := make(chan int)
		var wg sync.WaitGroup
		for w := 0; w < workers; w++ {
			wg.Add(1)
			go func() {
				defer wg.Done()
				for i := range ch {
					protoCase(res, ctx.Seed, i, procs, workers)
				}
			}()
		}
		for i := lo; i < hi; i++ {
			ch <- i
		}
		close(ch)
		wg.Wait()
	}
	runtime.GOMAXPROCS(old)
	protoModelCheck(ctx, res)
	return res
}

func protoSizeBucket(n int) string {
	switch {
	case n == 0:
		return "0"
	case n < 16:
		return "1-15"
	case n < 512:
		return "16-511"
	case n < 4096:
		return "512-4095"
	case n == 4096:
		return "4096"
	case n <= 8192:
		return "4097-8192"
	case n <= 12288:
		return "8193-12288"
	default:
		return ">12288"
	}
}

func protoCase(res *Result, seed int64, i int, procs, workers int) {
	if protoHangs.Load() >= protoMaxHangs {
		res.Count("skipped-after-hangs", 1)
		return
	}
	r := rand.New(rand.NewSource(seed*1000003 + int64(i)))
	want := protoClasses[r.Intn(len(protoClasses))]
	gstats := map[string]int{}
	ps := protoBuildSource(r, want, gstats)
	res.Count("input.class."+ps.Class+"."+ps.Where, 1)
	res.Count("input.asked."+want, 1)
	res.Count("input.bytes."+protoSizeBucket(len(ps.Src)), 1)

	// which kind of target UnmarshalFile needs
	sliceTarget := false
	if ps.RefOK {
		var sink bytes.Buffer
		_, binding, _ := bcl.Interpret(ps.Src, bcl.OptOutput(&sink), bcl.OptLogger(&sink))
		_, sliceTarget = binding.(bcl.SliceBinding)
	}

	for _, api := range []string{"ParseFile", "InterpretFile", "UnmarshalFile"} {
		steps, pl := genScript(r, ps.Src, ps.Focus)
		protoCall(res, ps, api, steps, pl, sliceTarget,
			fmt.Sprintf("seed=%d case=%d GOMAXPROCS=%d concurrent-cases=%d", seed, i, procs, workers))
		res.Count(fmt.Sprintf("gomaxprocs.%d", procs), 1)
		res.Count(fmt.Sprintf("concurrent-cases.%d", workers), 1)
	}
}

func protoCountScript(res *Result, steps []rstep, pl scriptPlan) {
	d := map[string]int{}
	for _, s := range steps {
		switch {
		case s.fail && s.n > 0:
			d["step.data+err"]++
		case s.fail:
			d["step.err"]++
		case s.eof:
			d["step.data+eof"]++
		case s.n == 0:
			d["step.zero"]++
		case s.n == 4096:
			d["step.data.page"]++
		case s.n == 1:
			d["step.data.1"]++
		case s.n <= 64:
			d["step.data.2-64"]++
		default:
			d["step.data.65-4095"]++
		}
		if s.yield > 0 {
			d["step.with-yield"]++
		}
		if s.sleep > 0 {
			d["step.with-sleep"]++
		}
	}
	d["script.mode."+pl.Mode]++
	d["script.err."+pl.ErrKind]++
	if pl.ErrData {
		d["script.err.with-data"]++
	}
	if pl.CloseDly > 0 {
		d["script.close-delayed"]++
	}
	if pl.EOFWith {
		d["script.eof-with-data"]++
	}
	res.Merge(d)
}

func protoCall(res *Result, ps *protoSrc, api string, steps []rstep, pl scriptPlan, sliceTarget bool, where string) {
	script := scriptString(steps)
	if api == "ParseFile" && len(script) < 200 && len(ps.Src) < 200 {
		res.Sample(fmt.Sprintf("input %s/%s %q; reader script: %s", ps.Class, ps.Where, ps.Src, script))
	}
	f := newScriptFile(ps.Src, append([]rstep(nil), steps...))
	f.closeDelay = pl.CloseDly
	protoCountScript(res, steps, pl)

	input := func() string {
		return fmt.Sprintf("%s on a scripted file; %s\nreader script (bytes per Read; +EOF/+ERR returned with them; +gN yields, +sN sleeps before returning; then (0,EOF) for ever): %s\nClose delay: %v\ninput class %s/%s, damage %q at byte %d, lexer error position %d\nsource (%d bytes): %q",
			api, where, script, pl.CloseDly, ps.Class, ps.Where, ps.Inject, ps.Focus, ps.ErrPos, len(ps.Src), ps.Src)
	}
	fail := func(impl, expected string) {
		res.Fail(Failure{Kind: "oracle", Op: api, Input: input(), Impl: impl, Expected: expected})
	}

	var (
		prog *bcl.Prog
		err  error
	)
	// writers that notice a write arriving after the call has returned
	out := &lateBuf{returned: &f.returned}
	log := &lateBuf{returned: &f.returned}
	opts := []bcl.Option{bcl.OptOutput(out), bcl.OptLogger(log)}
	id, ok, pan := protoWatchdogRun(protoWatchdog, func() {
		switch api {
		case "ParseFile":
			prog, err = bcl.ParseFile(f, opts...)
		case "InterpretFile":
			_, _, err = bcl.InterpretFile(f, opts...)
		case "UnmarshalFile":
			if sliceTarget {
				var t []protoFields
				err = bcl.UnmarshalFile(f, &t, opts...)
			} else {
				var t protoFields
				err = bcl.UnmarshalFile(f, &t, opts...)
			}
		}
		f.returned.Store(true)
	})
	res.Eval(1)
	if !ok {
		u := f.use()
		fail(fmt.Sprintf("no return within %v; reads=%d delivered=%d closes=%d; goroutines of the call:\n%s",
			protoWatchdog, u.reads, u.delivered, u.closes, labelledStacks(id)),
			"the call returns in bounded time")
		res.Count("outcome."+api+".HANG", 1)
		protoHangs.Add(1)
		return
	}
	if pan != "" {
		fail(pan, "no panic")
		res.Count("outcome."+api+".PANIC", 1)
		return
	}

	// settle: Close arrives from the reader goroutine, which then ends
	var left []string
	settled := protoWaitUntil(protoSettle, func() bool {
		if f.numCloses() < 1 {
			return false
		}
		left = libGoroutines(id)
		return len(left) == 0
	})
	u := f.use()
	if !settled {
		protoHangs.Add(1)
		if u.closes < 1 {
			fail(fmt.Sprintf("Close not called within %v after the return (reads=%d)", protoSettle, u.reads),
				"Close is called on the input exactly once")
		}
		if len(left) > 0 {
			fail(fmt.Sprintf("%v after the return the call's goroutines are still inside the library:\n%s", protoSettle, strings.Join(left, "\n\n")),
				"no goroutine started by the call survives it for long")
		}
	}
	if u.closes > 1 {
		fail(fmt.Sprintf("Close called %d times", u.closes), "Close is called on the input exactly once")
	}
	if n := out.late.Load() + log.late.Load(); n > 0 {
		fail(fmt.Sprintf("%d write(s) to the caller's output/log writers arrived after the call had returned", n),
			"the goroutines of a call do not go on using the caller's writers after it returned (the caller may be reading them)")
	}
	if u.readsAfterClose > 0 {
		fail(fmt.Sprintf("%d Read(s) issued after Close", u.readsAfterClose), "no Read after Close")
	}

	// a read error wins
	if u.errSeen && !errors.Is(err, f.injected) {
		fail(fmt.Sprintf("a Read returned %q but the call returned error %v", f.injected, err),
			"a read error is returned in preference to anything else")
	}

	// after a lexical failure the reader stops
	if ps.ErrPos >= 0 && ps.ErrPos+4 <= len(ps.Src) {
		need := int32(ps.ErrPos + 4)
		R := -1
		for k, c := range u.cum {
			if c >= need {
				R = k
				break
			}
		}
		if R >= 0 {
			after := u.reads - (R + 1)
			res.Count(fmt.Sprintf("lexfail.reads-after.%d", after), 1)
			res.Count("lexfail.unread-bytes."+protoSizeBucket(len(ps.Src)-u.delivered), 1)
			if after > protoReadSlack {
				fail(fmt.Sprintf("the lexer fails at position %d and needs no byte from %d on; Read #%d delivered byte %d, yet %d more Reads followed (%d in all, %d of %d bytes delivered)",
					ps.ErrPos, need, R+1, need-1, after, u.reads, u.delivered, len(ps.Src)),
					fmt.Sprintf("at most %d Reads after the one that delivers the failing place (api.go allows 1)", protoReadSlack))
			}
		} else {
			res.Count("lexfail.not-reached(read error first)", 1)
		}
	}

	// agreement with Parse of the whole input
	outcome := ""
	switch {
	case u.errSeen:
		outcome = "read-error"
	case err == nil:
		outcome = "ok"
	case err.Error() == "combined errors from parse":
		if ps.ErrPos >= 0 {
			outcome = "lexical-failure"
		} else {
			outcome = "syntax-errors"
		}
	case strings.HasPrefix(err.Error(), "runtime error"):
		outcome = "exec-error"
	default:
		outcome = "bind-error"
	}
	res.Count("outcome."+api+"."+outcome, 1)
	if api == "ParseFile" && !u.errSeen {
		switch {
		case (err == nil) != ps.RefOK:
			fail(fmt.Sprintf("ParseFile error: %v; diagnostics %q", err, log.Bytes()),
				fmt.Sprintf("as Parse of the whole input: success=%v; diagnostics %q", ps.RefOK, ps.RefLog))
		case !bytes.Equal(log.Bytes(), ps.RefLog):
			fail(fmt.Sprintf("diagnostics %q", log.Bytes()), fmt.Sprintf("as Parse of the whole input: %q", ps.RefLog))
		case err == nil:
			d, derr := dumpOf(prog)
			if derr != nil || !bytes.Equal(d, ps.RefDump) {
				fail(fmt.Sprintf("dump %x (error %v)", d, derr), fmt.Sprintf("as Parse of the whole input: %x", ps.RefDump))
			}
		}
	}

	if settled {
		items, n := protoItems(ps.Src, steps)
		cls := "ok"
		switch outcome {
		case "read-error":
			cls = "readerr"
		case "lexical-failure", "syntax-errors":
			cls = "parseerr"
		case "exec-error", "bind-error":
			cls = "other"
		}
		protoRecord(protoObs{api: api, items: items, nReads: n, ret: cls, reads: u.reads, closes: u.closes, input: input})
	}

	res.Count("reader.reads-after-eof", u.readsAfterEOF)
	res.Count("reader.reads-after-error", u.readsAfterErr)
	res.Count("reader.reads-after-return", u.readsAfterReturn)
	if u.delivered < len(ps.Src) && !u.errSeen {
		res.Count("reader.stopped-before-end-of-input", 1)
	}
	if (u.reads >= 3 || u.errSeen) && len(ps.Src) >= 2 {
		h := sha1.Sum(ps.Src)
		res.Nontrivial(api + "|" + script + "|" + string(h[:]))
	}
}

// lateBuf is a writer that counts writes arriving after the call returned.
type lateBuf struct {
	mu       sync.Mutex
	buf      bytes.Buffer
	returned *atomic.Bool
	late     atomic.Int32
}

func (b *lateBuf) Write(p []byte) (int, error) {
	if b.returned.Load() {
		b.late.Add(1)
	}
	b.mu.Lock()
	defer b.mu.Unlock()
	return b.buf.Write(p)
}

func (b *lateBuf) String() string {
	b.mu.Lock()
	defer b.mu.Unlock()
	return b.buf.String()
}

func (b *lateBuf) Bytes() []byte {
	b.mu.Lock()
	defer b.mu.Unlock()
	return append([]byte(nil), b.buf.Bytes()...)
}
