package main

import (
	"bytes"
	"fmt"
	"io"
	"math/rand"
	"regexp"
	"strconv"
	"strings"

	"github.com/wkhere/bcl"
)

func init() {
	streams["positions"] = streamPositions
	streams["limits"] = streamLimits
	streams["wf"] = streamWF
	streams["mutants"] = streamMutants
	streams["options"] = streamOptions
}

// ---------- C08: diagnostics point at the true source location ----------

var reDiag = regexp.MustCompile(`(?m)^line (\d+):(\d+): error(?: at '((?s:.*?))'| at end)?: [^\n]*$`)
var reDiagHead = regexp.MustCompile(`line (\d+):(\d+): `)

// offsetOf converts line:col to a byte offset using the definition in the property:
// line = 1 + number of newlines before the offset, col = distance from the preceding newline.
func offsetOf(src []byte, line, col int) int {
	off := 0
	for l := 1; l < line; l++ {
		i := bytes.IndexByte(src[off:], '\n')
		if i < 0 {
			return -1
		}
		off += i + 1
	}
	return off + col - 1
}

func checkPositions(res *Result, src []byte) {
	v := guarded(opTimeout, func() string {
		var out, log capBuf
		prog, perr := bcl.Parse(src, "input", bcl.OptOutput(&out), bcl.OptLogger(&log))
		texts := []string{log.String()}
		if perr == nil {
			// the stored line table is the set of newline offsets of the source
			_, _, _, positions, lfs := bcl.VerifProgParts(prog)
			var want []int
			for i, c := range src {
				if c == '\n' {
					want = append(want, i)
				}
			}
			if fmt.Sprint(lfs) != fmt.Sprint(want) {
				return fmt.Sprintf("FAIL line table %v, newline offsets %v", lfs, want)
			}
			for _, p := range positions {
				if p < 0 || p > len(src) {
					return fmt.Sprintf("FAIL position %d outside the source (%d bytes)", p, len(src))
				}
			}
			// positions and line table survive dump and load, and the loaded program reports the same locations
			dump, derr := dumpOf(prog)
			if derr != nil {
				return "FAIL Dump: " + derr.Error()
			}
			var out2, log2 capBuf
			prog2, lerr := bcl.LoadProg(bytes.NewReader(dump), "input", bcl.OptOutput(&out2), bcl.OptLogger(&log2))
			if lerr != nil {
				return "FAIL the dump of the accepted program cannot be loaded back: " + lerr.Error()
			}
			_, _, _, positions2, lfs2 := bcl.VerifProgParts(prog2)
			if fmt.Sprint(positions2) != fmt.Sprint(positions) || fmt.Sprint(lfs2) != fmt.Sprint(lfs) {
				return fmt.Sprintf("FAIL positions / line table after dump and load: %v / %v, before: %v / %v", positions2, lfs2, positions, lfs)
			}
			// (a damaged program that may repeat a string beyond 2^20 bytes is not executed)
			if !domainExcluded(src) {
				log.Reset()
				_, _, err := bcl.Execute(prog)
				if err != nil {
					texts = append(texts, err.Error())
				}
				texts = append(texts, log.String())
				_, _, errL := bcl.Execute(prog2)
				if fmt.Sprint(errL) != fmt.Sprint(err) || log2.String() != log.String() {
					return fmt.Sprintf("FAIL the loaded program reports %q / %v, the parsed one %q / %v", log2.String(), errL, log.String(), err)
				}
				// the same program executed again reports the same locations
				first := log.String()
				log.Reset()
				_, _, err2 := bcl.Execute(prog)
				if log.String() != first || fmt.Sprint(err2) != fmt.Sprint(err) {
					return fmt.Sprintf("FAIL second execution reports %q / %v, the first %q / %v", log.String(), err2, first, err)
				}
			}
		}
		n := 0
		for _, t := range texts {
			// every line:col mentioned must be a position inside the source …
			for _, m := range reDiagHead.FindAllStringSubmatch(t, -1) {
				l, _ := strconv.Atoi(m[1])
				c, _ := strconv.Atoi(m[2])
				off := offsetOf(src, l, c)
				if off < 0 || off > len(src) || c < 1 {
					return fmt.Sprintf("FAIL %q designates no offset of the source", m[0])
				}
				// … whose line and column are the ones the definition gives
				nl := bytes.Count(src[:off], []byte("\n"))
				if nl+1 != l {
					return fmt.Sprintf("FAIL %q: offset %d has %d newlines before it", m[0], off, nl)
				}
				n++
			}
			// the quoted token is the source text ending exactly at that offset
			for _, m := range reDiag.FindAllStringSubmatchIndex(t, -1) {
				l, _ := strconv.Atoi(t[m[2]:m[3]])
				c, _ := strconv.Atoi(t[m[4]:m[5]])
				off := offsetOf(src, l, c)
				line := t[m[0]:m[1]]
				if strings.Contains(line, ": error at end: ") && m[6] < 0 {
					if off != len(src) {
						return fmt.Sprintf("FAIL %q: 'at end' but offset %d of %d", line, off, len(src))
					}
				} else if m[6] >= 0 {
					tok := t[m[6]:m[7]]
					if off-len(tok) < 0 || string(src[off-len(tok):off]) != tok {
						return fmt.Sprintf("FAIL %q: the source text ending at offset %d is not %q", line, off, tok)
					}
				}
			}
		}
		return fmt.Sprintf("ok %d", n)
	})
	res.Eval(1)
	if strings.HasPrefix(v, "ok ") {
		if v != "ok 0" {
			res.Nontrivial(string(src))
			res.Count("with-positions", 1)
		}
		return
	}
	res.Fail(Failure{Kind: "oracle", Input: trunc(string(src), 3000), Impl: v,
		Expected: "every 'line L:C' is a source offset with L = 1 + newlines before it and C = distance from the preceding newline; the quoted token is the source text ending there; 'at end' is the end of input; the stored line table is the set of newline offsets"})
}

func streamPositions(ctx *Ctx) *Result {
	res := NewResult("positions", "programs with compile diagnostics, runtime errors and warnings under arbitrary layout (blank lines, comments, CR LF, multi-byte characters, padding beyond 4096 and 67824 bytes); every printed line:col is checked against the definition by counting newlines in the source; non-trivial = at least one position printed; distinct by source")
	parallel(ctx.Pool, ctx.Seed, ctx.N(1500), func(i int, r *rand.Rand, d *Driver) {
		g := NewGen(r)
		g.MaxDepth = 1 + r.Intn(4)
		g.ErrRate = 5
		ss := g.Program(1 + r.Intn(7))
		toks := progToks(ss, func() bool { return r.Intn(4) == 0 })
		// damage some token so that compile diagnostics occur often
		if r.Intn(3) == 0 && len(toks) > 2 {
			k := r.Intn(len(toks))
			switch r.Intn(3) {
			case 0:
				toks = append(toks[:k:k], toks[k+1:]...)
			case 1:
				toks[k] = []string{")", "}", "=", "and", "var", "@", "12ab", "\"abc", g.lit("str").Text, g.lit("float").Text}[r.Intn(10)]
			default:
				// an extra token, also a literal of any spelling: it is then the offending token quoted in the diagnostic
				toks = append(toks[:k:k], append([]string{[]string{"(", "{", "+", "print", "def", g.lit("str").Text, g.lit("str").Text, g.lit("int").Text}[r.Intn(8)]}, toks[k:]...)...)
			}
		}
		src := (&Layout{r: r, Fancy: r.Intn(2) == 0}).Join(toks)
		switch r.Intn(12) {
		case 0:
			src = "#" + strings.Repeat("é", 2100) + "\n" + src
		case 1:
			src = strings.Repeat("# pad\n", 12000) + src
		case 2:
			src = strings.Repeat("\r\n", 300) + src
		}
		checkPositions(res, []byte(src))
		diffParseRunTok(res, d, []byte(src), false)
		if i < 2 {
			res.Sample(trunc(src, 300))
		}
	})
	// the last newline, the number of newlines and the failing instruction exactly at, just below
	// and just above every varint size boundary (these are the last bytes of a dump)
	parallel(ctx.Pool, ctx.Seed+5, ctx.N(36), func(i int, r *rand.Rand, d *Driver) {
		b := []int{239, 240, 241, 2286, 2287, 2288, 67822, 67823, 67824}[i%9]
		var src string
		switch (i / 9) % 4 {
		case 0:
			src = "print 1 #" + strings.Repeat("p", b-9) + "\n"
		case 1:
			src = "print 1 #" + strings.Repeat("p", b-9) + "\nprint nosuch"
		case 2:
			src = strings.Repeat("\n", b) + "print 1 / 0"
		default:
			src = strings.Repeat(" ", b-8) + "print 1 / 0"
		}
		res.Count(fmt.Sprintf("boundary.%d", b), 1)
		checkPositions(res, []byte(src))
		diffParseRun(res, d, []byte(src), false)
	})
	// runtime errors at a known token, after a varying number of constants (so that the
	// operands of the failing instruction take one, two or three bytes): the reported
	// location must be the end of that token
	parallel(ctx.Pool, ctx.Seed+7, ctx.N(60), func(i int, r *rand.Rand, d *Driver) {
		k := []int{0, 5, 100, 118, 119, 120, 121, 122, 150, 300}[r.Intn(10)]
		if r.Intn(25) == 0 {
			k = 1200 // three-byte operands; the model takes seconds on these
		}
		var b strings.Builder
		b.WriteString("def blk {\n")
		for j := 0; j < k; j++ {
			fmt.Fprintf(&b, " f%d = \"s%d\"\n", j, j)
		}
		pre := b.String()
		type tmpl struct{ line, tok, msg string }
		t := []tmpl{
			{" q = nope + 1", "nope", "not resolved"},
			{" q = 1 + nope", "nope", "not resolved"},
			{" q = nope", "nope", "not resolved"},
			{" q = 17 / 0 + 2", "0", "division by"},
			{" print nope == 1", "nope", "not resolved"},
			{" q = not nope", "nope", "not resolved"},
		}[r.Intn(6)]
		src := pre + t.line + "\n w = 2\n}\n"
		want := len(pre) + strings.Index(t.line, t.tok) + len(t.tok)
		var out, log capBuf
		_, _, err := bcl.Interpret([]byte(src), bcl.OptOutput(&out), bcl.OptLogger(&log))
		res.Eval(1)
		res.Count(fmt.Sprintf("rt-position.consts~%d", 2*k), 1)
		res.Nontrivial(src)
		if err == nil || !strings.Contains(err.Error(), t.msg) {
			res.Fail(Failure{Kind: "oracle", Op: "runtime error position", Input: trunc(src, 400) + "…" + t.line, Impl: fmt.Sprint(err),
				Expected: "a runtime error containing " + t.msg})
			return
		}
		m := reDiagHead.FindStringSubmatch(err.Error())
		if m == nil {
			res.Fail(Failure{Kind: "oracle", Op: "runtime error position", Input: t.line, Impl: err.Error(), Expected: "line L:C: …"})
			return
		}
		l, _ := strconv.Atoi(m[1])
		c, _ := strconv.Atoi(m[2])
		if got := offsetOf([]byte(src), l, c); got != want {
			res.Fail(Failure{Kind: "oracle", Op: "runtime error position", Input: src,
				Impl: fmt.Sprintf("%s (offset %d)", err.Error(), got),
				Expected: fmt.Sprintf("the location just after %q in %q (offset %d), whatever the number of constants before it (%d)", t.tok, t.line, want, 2*k)})
			return
		}
		diffParseRun(res, d, []byte(src), false)
	})
	// the line calculator itself, against the model, on arbitrary sorted tables
	parallel(ctx.Pool, ctx.Seed+5, ctx.N(400), func(i int, r *rand.Rand, d *Driver) {
		n := r.Intn(8)
		var lfs []int
		x := 0
		for j := 0; j < n; j++ {
			x += r.Intn(5) + boolInt(r.Intn(3) == 0)*r.Intn(70000)
			lfs = append(lfs, x)
			x++
		}
		// several lookups in random order on one calculator (any state it keeps between
		// lookups is exercised), each compared with the model
		np := 1 + r.Intn(5)
		var poss []int
		for k := 0; k < np; k++ {
			q := r.Intn(x + 3)
			if len(lfs) > 0 && r.Intn(2) == 0 {
				q = lfs[r.Intn(len(lfs))] + r.Intn(3) - 1 // at and around a newline offset
				if q < 0 {
					q = 0
				}
			}
			poss = append(poss, q)
		}
		got := bcl.VerifLineCols(lfs, poss)
		arg := "-"
		if len(lfs) > 0 {
			arg = intsCSV(lfs)
		}
		// direct oracle: the definition, on a source whose newlines are at these offsets
		for k, pos := range poss {
			nb, last := 0, -1
			for _, o := range lfs {
				if o < pos {
					nb++
					last = o
				}
			}
			wl, wc := 1+nb, pos-last
			if got[k][0] != wl || got[k][1] != wc {
				res.Fail(Failure{Kind: "oracle", Input: fmt.Sprintf("a source with newlines exactly at offsets %v; positions looked up in this order on one program: %v", lfs, poss),
					Impl:     fmt.Sprintf("lookup %d (offset %d) gives %d:%d", k+1, pos, got[k][0], got[k][1]),
					Expected: fmt.Sprintf("%d:%d (line = 1 + newlines before the offset, column = distance from the preceding newline)", wl, wc)})
				return
			}
		}
		for k, pos := range poss {
			m := ask(d, fmt.Sprintf("LINECOL %s %d", arg, pos))
			res.Eval(1)
			if m != fmt.Sprintf("%d:%d", got[k][0], got[k][1]) {
				res.Fail(Failure{Kind: "model-diff", Op: fmt.Sprintf("LINECOL %s %d (lookup %d of %v on one calculator)", arg, pos, k+1, poss),
					Impl: fmt.Sprintf("%d:%d", got[k][0], got[k][1]), Model: m, Note: "lineColAt"})
				break
			}
		}
	})
	return res
}

func boolInt(b bool) int {
	if b {
		return 1
	}
	return 0
}

// ---------- C06: every input ends in a result or an error ----------

func limitLadder() []string {
	var out []string
	for _, n := range []int{1000, 1020, 1021, 1022, 1023, 1024, 1025, 1030, 3000} {
		out = append(out, "print "+strings.Repeat("(1+", n)+"1"+strings.Repeat(")", n))
		out = append(out, "print "+strings.Repeat("-", n)+"1")
		out = append(out, "print "+strings.Repeat("not ", n)+"1")
		out = append(out, "print "+strings.Repeat("1 and ", n)+"2")
	}
	for _, n := range []int{1021, 1022, 1023, 1024, 1025, 1026} {
		var b strings.Builder
		for i := 0; i < n; i++ {
			fmt.Fprintf(&b, "var v%d = %d\n", i, i)
		}
		out = append(out, b.String()+"print 1")
		out = append(out, b.String()+"print 1+(2+3)")
		out = append(out, b.String()+"print v0 + v"+strconv.Itoa(n-1))
		out = append(out, "def t {"+b.String()+"x = v0 }")
	}
	for _, n := range []int{14, 15, 16, 17, 18, 40} {
		out = append(out, strings.Repeat("def a { ", n)+"x = 1 "+strings.Repeat("} ", n))
		out = append(out, strings.Repeat("def a { ", n)+"print TYPE "+strings.Repeat("}", n-1)) // unclosed
	}
	// jump distance around 65535: `false and (long operand)`
	for _, k := range []int{21843, 21844, 21845, 21846, 21850} {
		out = append(out, "print false and (0"+strings.Repeat("+2", k)+")")
		out = append(out, "print true or (0"+strings.Repeat("+2", k)+")")
	}
	out = append(out, `print "ab" * -1`, `print "ab" * 0`, `print "" * 1000000`, `print "x" * 1048576 == ""`,
		"print 1/0", "print 1.0/0", "print 0/0.0", "print -9223372036854775807 - 1 / -1", "print (-9223372036854775807 - 1) / -1",
		"print 9223372036854775807 + 1", "print 08", "print 0x", "print 1e999", `print "\q"`, `def a "\q" {}`,
		"def a { def b {}; print b == b }", "def a { def b { y = 2 }; b = 1 }", "def a { b = 1; def b {} }",
		"def s {x = nil}\nbind s -> struct", "bind x -> struct", "print", "var", "def", "bind", "eval", "=", "(", "{", "}", ")")
	return out
}

func streamLimits(ctx *Ctx) *Result {
	res := NewResult("limits", "arbitrary bytes, arbitrary sequences of valid tokens, valid programs with single-byte or single-token damage, and programs scaled just below/at/above each limit (operand depth 1024, block nesting 16, 1024 variables, 65535-byte jumps, negative repeat); each through Parse, Interpret, ParseFile (random reads) and Unmarshal under recover and a watchdog; non-trivial = input not rejected by the lexer's first token; distinct by input")
	type target struct {
		Name string
		F    int
		G    string
	}
	run := func(d *Driver, src []byte, model bool) {
		v := guarded(opTimeout, func() string {
			var out, log capBuf
			o := []bcl.Option{bcl.OptOutput(&out), bcl.OptLogger(&log)}
			p, err := bcl.Parse(src, "x", o...)
			if err == nil && p == nil {
				return "FAIL Parse returned nil, nil"
			}
			if err == nil && domainExcluded(src) {
				// may repeat a string beyond 2^20 bytes: outside the property, parsed only
				return "result"
			}
			res1, b1, err1 := bcl.Interpret(src, o...)
			// (every other input hands its last bytes over together with io.EOF, as io.Reader allows)
			cf := &chunkFile{chunks: randomPartition(rand.New(rand.NewSource(int64(len(src)))), append([]byte(nil), src...), 5, true), eofWithLast: len(src)%2 == 0}
			res2, b2, err2 := bcl.InterpretFile(cf, o...)
			if (err1 == nil) != (err2 == nil) || fmtBlocks(res1) != fmtBlocks(res2) || fmtBinding(b1) != fmtBinding(b2) {
				return fmt.Sprintf("FAIL Interpret and InterpretFile disagree: %v / %v", err1, err2)
			}
			if n := cf.Closed(); n != 1 {
				return fmt.Sprintf("FAIL InterpretFile closed its input %d times", n)
			}
			var t target
			var ts []target
			e3 := bcl.Unmarshal(src, &t, o...)
			e4 := bcl.Unmarshal(src, &ts, o...)
			_ = e3
			_ = e4
			if err1 != nil {
				return "error"
			}
			return "result"
		})
		res.Eval(1)
		if v != "error" && v != "result" {
			res.Fail(Failure{Kind: "oracle", Input: trunc(fmt.Sprintf("%q", src), 3000), Impl: trunc(v, 1500),
				Expected: "every call returns a result or a non-nil error in bounded time and never panics"})
			return
		}
		res.Count("outcome."+v, 1)
		if model && len(src) < 40000 {
			diffParseRunTok(res, d, src, false)
		}
	}
	ladder := limitLadder()
	parallel(ctx.Pool, ctx.Seed, len(ladder), func(i int, r *rand.Rand, d *Driver) {
		run(d, []byte(ladder[i]), len(ladder[i]) < 30000 || strings.HasPrefix(ladder[i], "print false and") || strings.HasPrefix(ladder[i], "print true or"))
		res.Count("ladder", 1)
		res.Nontrivial(ladder[i])
	})
	vocab := []string{"var", "def", "eval", "print", "bind", "true", "false", "nil", "not", "and", "or", "=", "{", "}", "(", ")", "==", "!=", "<", "<=", ">", ">=", "+", "-", "*", "/", ":", "->", ";", "x", "y", "t", "1", "0", "2.5", `"s"`, "struct", "slice", "all", "first", "TYPE", "NAME"}
	parallel(ctx.Pool, ctx.Seed+1, ctx.N(4000), func(i int, r *rand.Rand, d *Driver) {
		var src []byte
		switch i % 4 {
		case 0: // arbitrary bytes
			n := r.Intn(40)
			src = make([]byte, n)
			for j := range src {
				if r.Intn(3) == 0 {
					src[j] = byte(r.Intn(256))
				} else {
					alpha := " \n\t\"#;(){}=+-*/<>!:.,_09azAZ\\\x85\xa0\xc2\xe4"
					src[j] = alpha[r.Intn(len(alpha))]
				}
			}
			res.Count("class.bytes", 1)
		case 1: // token soup
			n := 1 + r.Intn(14)
			var ts []string
			for j := 0; j < n; j++ {
				ts = append(ts, vocab[r.Intn(len(vocab))])
			}
			src = []byte(strings.Join(ts, " "))
			res.Count("class.tokens", 1)
		default: // damaged valid program
			g := NewGen(r)
			g.MaxDepth = 1 + r.Intn(4)
			s := Render(g.Program(1+r.Intn(5)), r, r.Intn(4) == 0)
			src = []byte(s)
			if len(src) > 0 {
				k := r.Intn(len(src))
				switch r.Intn(4) {
				case 0:
					src[k] = byte(r.Intn(256))
				case 1:
					src = append(src[:k:k], src[k+1:]...)
				case 2:
					src = src[:k]
				default:
					src = append(src[:k:k], append([]byte{"(){}=\"#;\\@"[r.Intn(10)]}, src[k:]...)...)
				}
			}
			res.Count("class.damaged", 1)
		}
		run(d, src, true)
		res.Nontrivial(string(src))
		if i < 4 {
			res.Sample(fmt.Sprintf("%q", src))
		}
	})
	return res
}

// ---------- C10: compiled bytecode is well-formed along every path ----------

func streamWF(ctx *Ctx) *Result {
	res := NewResult("wf", "the verified bytecode verifier (Lean, Bclv/Verifier.lean) run on the real dump of every accepted program: exact tiling, final RET, operands in range and of the right kind, jump targets on boundaries, one depth per boundary along all paths, zero at RET; its maximal depths bound the executed path's statistics; non-trivial = accepted program with at least one jump or block; distinct by dump")
	check := func(d *Driver, src []byte) {
		line := implParse("input", src, false)
		if !strings.HasPrefix(line, "ok=1") {
			res.Count("rejected", 1)
			return
		}
		dump := field(line, "dump")
		if len(dump) > 3000000 {
			res.Count("skipped-large", 1)
			return
		}
		v := ask(d, "WF "+dump)
		res.Eval(1)
		res.Count("accepted", 1)
		f := strings.Fields(v)
		if len(f) != 4 || f[0] != "ok" {
			res.Fail(Failure{Kind: "oracle", Op: "WF " + dump, Input: trunc(string(src), 2000), Impl: "compiled program rejected by the verifier: " + v,
				Expected: "every program the compiler emits is well-formed (instructions tile the code and end in RET, operands valid, jumps land on boundaries, one stack depth per instruction along all paths, zero at RET)"})
			return
		}
		maxd, _ := strconv.Atoi(f[1])
		maxb, _ := strconv.Atoi(f[2])
		ri := implRun(unhx(dump), false)
		xs := strings.Split(field(ri, "xstats"), ",")
		if len(xs) == 4 {
			tos, _ := strconv.Atoi(xs[0])
			btos, _ := strconv.Atoi(xs[1])
			if tos > maxd || btos > maxb {
				res.Fail(Failure{Kind: "oracle", Op: "WF " + dump, Input: trunc(string(src), 2000),
					Impl:     fmt.Sprintf("executed path reached operand depth %d / block depth %d", tos, btos),
					Expected: fmt.Sprintf("within the verifier's maxima %d / %d", maxd, maxb)})
			}
		}
		if strings.Contains(ri, "6e6f6e2d656d70747920737461636b") { // "non-empty stack"
			res.Fail(Failure{Kind: "oracle", Input: trunc(string(src), 2000), Impl: ri, Expected: "a compiled program never ends in the 'non-empty stack' internal error"})
		}
		code := string(unhx(dump))
		if strings.ContainsAny(code, "\x19\x1b\x05") {
			res.Nontrivial(dump)
		}
	}
	ladder := limitLadder()
	parallel(ctx.Pool, ctx.Seed, len(ladder), func(i int, r *rand.Rand, d *Driver) {
		// the long-jump cases are rejected by the compiler ("jump too long"); should one be
		// accepted, its jumps are verified like any other
		if len(ladder[i]) < 20000 || strings.HasPrefix(ladder[i], "print false and") || strings.HasPrefix(ladder[i], "print true or") {
			check(d, []byte(ladder[i]))
		}
	})
	parallel(ctx.Pool, ctx.Seed+13, ctx.N(80), func(i int, r *rand.Rand, d *Driver) {
		check(d, []byte(WideProgram(r)))
		res.Count("wide", 1)
	})
	// operands in every varint size class: programs with more constants, fields and variables than the
	// one- and two-byte classes hold (each operand value up to the count occurs once), and the
	// operands exactly at the class boundaries used again at the end
	classes := []int{2300, 2400}
	if ctx.Tier == "thorough" {
		classes = append(classes, 68000)
	}
	parallel(ctx.Pool, ctx.Seed+14, len(classes), func(i int, r *rand.Rand, d *Driver) {
		n := classes[i]
		var b strings.Builder
		switch i % 2 {
		case 0: // constants
			for k := 0; k < n; k++ {
				fmt.Fprintf(&b, "print %d\n", 100000+k)
			}
		default: // fields of one block (identifier constants), read back
			b.WriteString("def t {\n")
			for k := 0; k < n; k++ {
				fmt.Fprintf(&b, "f%d = %d\n", k, k%7+2)
			}
			for _, k := range []int{239, 240, 241, 2286, 2287, 2288, 2289} {
				if k < n {
					fmt.Fprintf(&b, "g%d = f%d\n", k, k)
				}
			}
			b.WriteString("}\n")
		}
		check(d, []byte(b.String()))
		res.Count("size-classes", 1)
	})
	parallel(ctx.Pool, ctx.Seed+2, ctx.N(2500), func(i int, r *rand.Rand, d *Driver) {
		g := NewGen(r)
		g.MaxDepth = 1 + r.Intn(7)
		g.ErrRate = 25
		src := Render(g.Program(1+r.Intn(9)), r, false)
		check(d, []byte(src))
		if i < 2 {
			res.Sample(trunc(src, 300))
		}
	})
	return res
}

// ---------- C17: accepts exactly the grammar, reports what it rejects ----------

var reDiagLine = regexp.MustCompile(`^line \d+:\d+: error`)

func streamMutants(ctx *Ctx) *Result {
	res := NewResult("mutants", "grammar sentences from the generator and each of them with one token deleted, inserted, replaced or transposed at every position, under random layout; implementation and model (whose parser is the one the C17 theorems are about) must agree on verdict and full diagnostics; rejection ⇒ non-nil error, no results and ≥1 'line L:C: error' line, acceptance ⇒ no diagnostic; recovery: a later broken toplevel statement still gets a diagnostic located in it; non-trivial = a mutant whose verdict differs from its sentence, or a recovery case; distinct by source")
	vocab := []string{"var", "def", "eval", "print", "bind", "true", "nil", "not", "and", "or", "=", "{", "}", "(", ")", "==", "<", "+", "-", "*", ":", "->", ";", "x", "1", `"s"`, "2.5", "@"}
	oracle := func(src []byte) (accepted bool, ok bool) {
		v := guarded(opTimeout, func() string {
			var out, log capBuf
			var res1 []bcl.Block
			var b1 bcl.Binding
			var err error
			if _, perr := bcl.Parse(src, "input", bcl.OptOutput(io.Discard), bcl.OptLogger(io.Discard)); perr == nil && domainExcluded(src) {
				// accepted, but may repeat a string beyond 2^20 bytes (outside the properties'
				// domain): parsed for its diagnostics, not executed
				_, err = bcl.Parse(src, "input", bcl.OptOutput(&out), bcl.OptLogger(&log))
			} else {
				res1, b1, err = bcl.Interpret(src, bcl.OptOutput(&out), bcl.OptLogger(&log))
			}
			rejected := err != nil && err.Error() == "combined errors from parse"
			lines := strings.Split(strings.TrimSuffix(log.String(), "\n"), "\n")
			ndiag := 0
			for _, l := range lines {
				if reDiagLine.MatchString(l) {
					ndiag++
				}
			}
			if rejected {
				if res1 != nil || b1 != nil {
					return "FAIL rejection returned results"
				}
				if ndiag == 0 {
					return "FAIL rejection without a 'line L:C: error' diagnostic; log=" + log.String()
				}
				return "rejected"
			}
			// accepted: parsing wrote no diagnostic (warnings come from execution)
			if ndiag != 0 {
				return "FAIL acceptance with a diagnostic: " + log.String()
			}
			return "accepted"
		})
		res.Eval(1)
		if strings.HasPrefix(v, "FAIL") || v == "HANG" || strings.HasPrefix(v, "PANIC") {
			res.Fail(Failure{Kind: "oracle", Input: trunc(string(src), 2000), Impl: v,
				Expected: "every rejection returns a non-nil error, no results and at least one 'line L:C: error…' diagnostic; every acceptance writes no diagnostic"})
			return false, false
		}
		return v == "accepted", true
	}
	parallel(ctx.Pool, ctx.Seed, ctx.N(60), func(i int, r *rand.Rand, d *Driver) {
		g := NewGen(r)
		g.MaxDepth = 1 + r.Intn(3)
		g.ErrRate = 0
		ss := g.Program(1 + r.Intn(4))
		toks := progToks(ss, func() bool { return r.Intn(5) == 0 })
		if len(toks) > 60 {
			toks = toks[:60]
		}
		// half of the sentences under exotic layout: comments ended by CR or LF, U+0085, U+00A0 …
		lay := &Layout{r: r, Fancy: i%2 == 0}
		base := []byte(lay.Join(toks))
		baseAcc, ok := oracle(base)
		if !ok {
			return
		}
		diffParseRunTok(res, d, base, false)
		res.Count("sentence", 1)
		try := func(kind string, mt []string) {
			src := []byte(lay.Join(mt))
			acc, ok := oracle(src)
			if !ok {
				return
			}
			diffParseRunTok(res, d, src, false)
			res.Count("mutant."+kind, 1)
			if acc {
				res.Count("mutant.accepted", 1)
			} else {
				res.Count("mutant.rejected", 1)
			}
			if acc != baseAcc {
				res.Nontrivial(string(src))
			}
		}
		for k := 0; k < len(toks); k++ {
			del := append(append([]string{}, toks[:k]...), toks[k+1:]...)
			try("delete", del)
			ins := append(append(append([]string{}, toks[:k]...), vocab[r.Intn(len(vocab))]), toks[k:]...)
			try("insert", ins)
			rep := append([]string{}, toks...)
			rep[k] = vocab[r.Intn(len(vocab))]
			try("replace", rep)
			if k+1 < len(toks) {
				tr := append([]string{}, toks...)
				tr[k], tr[k+1] = tr[k+1], tr[k]
				try("transpose", tr)
			}
		}
		if i < 2 {
			res.Sample(string(base))
		}
	})
	// recovery: a syntax error in a toplevel var/eval/print statement does not hide an
	// error in a later toplevel statement starting with var, def, eval or print
	good := []string{"var a = 1", "print 1 + 2", "eval 3 * 4", "def t { f = 1 }", `def u "n" { }`, "var b", "print (1)"}
	badFirst := []string{"var = 1", "var 1", "print )", "print 1 +", "eval * 2", "print (1", "var x = = 2", "eval", "print 1 2"}
	badLater := []string{"var = 1", "print )", "eval * 2", "def { }", "def t { f = }", "print (", "var 7", "def 1 { }"}
	parallel(ctx.Pool, ctx.Seed+4, ctx.N(600), func(i int, r *rand.Rand, d *Driver) {
		var parts []string
		var kinds []int // 0 good, 1 bad
		n := 2 + r.Intn(4)
		firstBad := r.Intn(n - 1)
		for j := 0; j < n; j++ {
			switch {
			case j == firstBad:
				parts = append(parts, badFirst[r.Intn(len(badFirst))])
				kinds = append(kinds, 1)
			case j > firstBad && r.Intn(2) == 0:
				parts = append(parts, badLater[r.Intn(len(badLater))])
				kinds = append(kinds, 1)
			default:
				parts = append(parts, good[r.Intn(len(good))])
				kinds = append(kinds, 0)
			}
		}
		sep := []string{"\n", " ", "\n\n", " ; ", "\n# c\n"}[r.Intn(5)]
		src := strings.Join(parts, sep)
		// byte ranges of the statements
		var ranges [][2]int
		off := 0
		for j, p := range parts {
			ranges = append(ranges, [2]int{off, off + len(p)})
			off += len(p)
			if j < len(parts)-1 {
				off += len(sep)
			}
		}
		var log capBuf
		_, _, err := bcl.Interpret([]byte(src), bcl.OptOutput(io.Discard), bcl.OptLogger(&log))
		res.Eval(1)
		res.Count("recovery", 1)
		if err == nil {
			res.Fail(Failure{Kind: "oracle", Input: src, Impl: "accepted", Expected: "rejected (contains a broken statement)"})
			return
		}
		var offs []int
		for _, m := range reDiagHead.FindAllStringSubmatch(log.String(), -1) {
			l, _ := strconv.Atoi(m[1])
			c, _ := strconv.Atoi(m[2])
			offs = append(offs, offsetOf([]byte(src), l, c))
		}
		// only var/eval/print statements are broken before a later one is examined
		for j := firstBad + 1; j < n; j++ {
			if kinds[j] != 1 {
				continue
			}
			prevDefBroken := false
			for q := firstBad; q < j; q++ {
				if kinds[q] == 1 && strings.HasPrefix(parts[q], "def") {
					prevDefBroken = true
				}
			}
			if prevDefBroken {
				break
			}
			// The statement's segment runs up to the keyword of the next statement.  A
			// diagnostic points just after the offending token, and an error such as a
			// missing operand is detected at the lookahead token, which may be that next
			// keyword: the segment is therefore taken to include it.
			segEnd := len(src)
			if j+1 < n {
				kw := parts[j+1]
				if sp := strings.IndexByte(kw, ' '); sp > 0 {
					kw = kw[:sp]
				}
				segEnd = ranges[j+1][0] + len(kw)
			}
			located := false
			for _, o := range offs {
				if o > ranges[j][0] && o <= segEnd {
					located = true
				}
			}
			res.Nontrivial(src)
			if !located {
				res.Fail(Failure{Kind: "oracle", Input: src, Impl: "diagnostics:\n" + log.String(),
					Expected: fmt.Sprintf("a diagnostic located in the later broken statement %q (bytes %d..%d, up to and including the next statement keyword)", parts[j], ranges[j][0], segEnd)})
				return
			}
		}
		diffParseRun(res, d, []byte(src), false)
		if i < 2 {
			res.Sample(src)
		}
	})
	// where an assignment may stand: only at the start of an expression, of a
	// parenthesis or of another assignment's right side - after any operator, prefix
	// or infix, `name = …` is an invalid assignment target
	binops := []string{"or", "and", "==", "!=", "<", "<=", ">", ">=", "+", "-", "*", "/"}
	preops := []string{"not", "-", "+"}
	parallel(ctx.Pool, ctx.Seed+5, ctx.N(400), func(i int, r *rand.Rand, d *Driver) {
		names := []string{"a", "b", "c"}
		pickN := func() string { return names[r.Intn(3)] }
		rhs := []string{"1", "b", `"s"`, "(c = 2)", "not a"}[r.Intn(5)]
		lhs := []string{"a", "1", "(a)", "a + 1", `"s"`, "not b"}[r.Intn(6)]
		op := binops[r.Intn(len(binops))]
		var e string
		var want bool
		switch r.Intn(8) {
		case 0: // operand of an infix operator
			e, want = fmt.Sprintf("%s %s %s = %s", lhs, op, pickN(), rhs), false
		case 1: // the same, parenthesised
			e, want = fmt.Sprintf("%s %s (%s = %s)", lhs, op, pickN(), rhs), true
		case 2: // operand of a prefix operator
			e, want = fmt.Sprintf("%s %s = %s", preops[r.Intn(3)], pickN(), rhs), false
		case 3:
			e, want = fmt.Sprintf("%s (%s = %s)", preops[r.Intn(3)], pickN(), rhs), true
		case 4: // chains
			e, want = fmt.Sprintf("%s = %s = %s", pickN(), pickN(), rhs), true
		case 5: // assignment to something that is not a bare name
			e, want = fmt.Sprintf("%s = %s", []string{"(a)", "1", "a + b", `"s"`, "not a", "a or b"}[r.Intn(6)], rhs), false
		case 6: // after a complete operand chain
			e, want = fmt.Sprintf("%s = %s %s %s = %s", pickN(), lhs, op, pickN(), rhs), false
		default:
			e, want = fmt.Sprintf("%s = %s %s %s", pickN(), lhs, op, rhs), true
		}
		var src string
		switch r.Intn(4) {
		case 0:
			src = "var a = 1\nvar b = 2\nvar c\neval " + e + "\n"
		case 1:
			src = "var a = 1; var b = 2; var c = 3; print " + e
		case 2:
			src = "var a; var b; var c\nvar z = " + e + "\n"
		default:
			src = "def t {\n a = 1\n b = 2\n c = 3\n " + e + "\n}\n"
		}
		acc, ok := oracle([]byte(src))
		if !ok {
			return
		}
		res.Count(fmt.Sprintf("assign-position.want=%v", want), 1)
		res.Nontrivial(src)
		if acc != want {
			res.Fail(Failure{Kind: "oracle", Op: "assignment position", Input: src, Impl: fmt.Sprintf("accepted=%v", acc),
				Expected: fmt.Sprintf("accepted=%v: an assignment may stand only at the start of an expression, of a parenthesis or of another assignment's right side, and only to a bare name", want)})
			return
		}
		diffParseRun(res, d, []byte(src), false)
	})
	// what is layout and what is not: between two tokens of an accepted sentence exactly the eight
	// documented characters (space, tab, VT, FF, CR, LF, U+0085, U+00A0) may stand; every other
	// character that starts no token (control characters, everything beyond ASCII: the other Unicode
	// spaces, separators, format characters, letters) makes the source a rejected one.  Inside a
	// comment any of them is harmless.
	layoutRunes := []rune{' ', '\t', '\v', '\f', '\r', '\n', 0x85, 0xA0}
	notLayout := []rune{0x00, 0x01, 0x08, 0x0e, 0x1b, 0x1c, 0x1d, 0x1e, 0x1f, 0x7f, 0x80, 0x84, 0x86, 0x9f, 0xa1, 0xad, 0x1680, 0x180e,
		0x2000, 0x2001, 0x2002, 0x2003, 0x2004, 0x2005, 0x2006, 0x2007, 0x2008, 0x2009, 0x200a, 0x200b, 0x200c, 0x200d, 0x2028, 0x2029,
		0x202f, 0x205f, 0x2060, 0x3000, 0xfeff, 0xe9, 0x3b1, 0x4e16, 0x1f600, 0xfffd}
	parallel(ctx.Pool, ctx.Seed+6, ctx.N(500), func(i int, r *rand.Rand, d *Driver) {
		g := NewGen(r)
		g.MaxDepth = 1 + r.Intn(2)
		g.ErrRate = 0
		g.OneLineStrings = true
		toks := progToks(g.Program(1+r.Intn(3)), func() bool { return r.Intn(5) == 0 })
		if len(toks) < 2 {
			return
		}
		base := strings.Join(toks, " ")
		baseAcc, ok := oracle([]byte(base))
		if !ok || !baseAcc {
			return
		}
		k := 1 + r.Intn(len(toks)-1) // the boundary before token k
		var c rune
		want := false
		switch r.Intn(5) {
		case 0:
			c, want = layoutRunes[r.Intn(len(layoutRunes))], true
		case 1:
			c = rune(0x80 + r.Intn(0x2fff)) // anything beyond ASCII …
			if c == 0x85 || c == 0xa0 {
				want = true
			}
		default:
			c = notLayout[r.Intn(len(notLayout))]
		}
		how := r.Intn(3)
		var src string
		switch how {
		case 0: // in place of the separator
			src = strings.Join(toks[:k], " ") + string(c) + strings.Join(toks[k:], " ")
		case 1: // next to a separator
			src = strings.Join(toks[:k], " ") + " " + string(c) + " " + strings.Join(toks[k:], " ")
		default: // inside a comment: harmless whatever it is (a line break ends the comment, which is harmless too)
			src = strings.Join(toks[:k], " ") + " # c" + string(c) + "c\n" + strings.Join(toks[k:], " ")
			if c != '\n' && c != '\r' {
				want = true
			} else {
				return // the rest of the comment would become program text
			}
		}
		acc, ok := oracle([]byte(src))
		if !ok {
			return
		}
		res.Count(fmt.Sprintf("layout-char.want=%v", want), 1)
		res.Nontrivial(src)
		if acc != want {
			res.Fail(Failure{Kind: "oracle", Op: "layout character", Input: src, Impl: fmt.Sprintf("accepted=%v", acc),
				Expected: fmt.Sprintf("accepted=%v: U+%04X %s; layout between tokens is space, tab, VT, FF, CR, LF, U+0085 and U+00A0 and nothing else, and anything may stand in a comment", want, c, map[bool]string{true: "is harmless here", false: "between two tokens is no layout and starts no token"}[want])})
			return
		}
		diffParseRunTok(res, d, []byte(src), false)
	})
	return res
}

// ---------- C19: introspection options only observe ----------

var reOptLine = regexp.MustCompile(`^(\d{4} |             \d+: |== .* ==\n?$|pstats\.|xstats\.)`)

func streamOptions(ctx *Ctx) *Result {
	res := NewResult("options", "programs (accepted, rejected, failing at run time) run under all eight combinations of disasm, trace and stats: blocks, binding, error, diagnostics and printed lines must equal those of the plain run, nothing extra on the log writer, trace records = opsRead, disassembly offsets strictly increasing from 0; non-trivial = accepted program; distinct by source")
	type outcome struct {
		out, log, rest string
	}
	runOpts := func(src []byte, dis, tr, st bool) outcome {
		var out, log capBuf
		o := []bcl.Option{bcl.OptOutput(&out), bcl.OptLogger(&log), bcl.OptDisasm(dis), bcl.OptTrace(tr), bcl.OptStats(st)}
		res1, b1, err := bcl.Interpret(src, o...)
		e := "-"
		if err != nil {
			e = err.Error()
		}
		return outcome{out.String(), log.String(), fmt.Sprintf("err=%q blocks=%s binding=%s", e, fmtBlocks(res1), fmtBinding(b1))}
	}
	// Parse and Execute called separately, each with its own writers: what the program prints and
	// what the options add must stay with the writer it belongs to, whatever the options
	type split struct{ pa, pl, xa, xl, rest string }
	stripOpt := func(s string) string {
		var b strings.Builder
		for _, l := range strings.SplitAfter(s, "\n") {
			if l != "" && !reOptLine.MatchString(l) {
				b.WriteString(l)
			}
		}
		return b.String()
	}
	runSplit := func(src []byte, dis, tr, st bool) split {
		var pa, pl, xa, xl capBuf
		prog, err := bcl.Parse(src, "input", bcl.OptOutput(&pa), bcl.OptLogger(&pl), bcl.OptDisasm(dis), bcl.OptStats(st))
		if err != nil {
			return split{stripOpt(pa.String()), pl.String(), "", "", "parse error"}
		}
		res1, b1, err := bcl.Execute(prog, bcl.OptOutput(&xa), bcl.OptLogger(&xl), bcl.OptTrace(tr), bcl.OptStats(st))
		e := "-"
		if err != nil {
			e = err.Error()
		}
		return split{stripOpt(pa.String()), pl.String(), stripOpt(xa.String()), xl.String(),
			fmt.Sprintf("err=%q blocks=%s binding=%s", e, fmtBlocks(res1), fmtBinding(b1))}
	}
	// the instruction boundaries of compiled code, decoded independently of the library's disassembler
	boundaries := func(code []byte) []int {
		var offs []int
		uvLen := func(b byte) int {
			switch {
			case b <= 240:
				return 1
			case b <= 248:
				return 2
			}
			return int(b) - 246
		}
		for pc := 0; pc < len(code); {
			offs = append(offs, pc)
			name := bcl.VerifOpcodeName(code[pc])
			pc++
			switch name {
			case "CONST", "GETLOCAL", "SETLOCAL", "GETFIELD", "SETFIELD", "POPN":
				if pc < len(code) {
					pc += uvLen(code[pc])
				}
			case "DEFBLOCK":
				for k := 0; k < 2 && pc < len(code); k++ {
					pc += uvLen(code[pc])
				}
			case "JUMP", "JFALSE", "LOOP":
				pc += 2
			case "BIND":
				if pc < len(code) {
					pc += uvLen(code[pc])
				}
				pc++
			}
		}
		return offs
	}
	checkOne := func(i int, d *Driver, src []byte, withModel bool) {
		v := guarded(opTimeout, func() string {
			// (a) separate calls, separate writers
			sp := runSplit(src, false, false, false)
			for m := 1; m < 8; m++ {
				o := runSplit(src, m&1 != 0, m&2 != 0, m&4 != 0)
				if o != sp {
					return fmt.Sprintf("FAIL options %03b with Parse and Execute given separate writers: program text per writer and results changed:\n with: %+v\n plain: %+v", m, o, sp)
				}
			}
			// (b) the disassembly lists each instruction exactly once at its offset
			{
				var out, log capBuf
				if prog, err := bcl.Parse(src, "input", bcl.OptOutput(&out), bcl.OptLogger(&log), bcl.OptDisasm(true)); err == nil {
					_, code, _, _, _ := bcl.VerifProgParts(prog)
					want := boundaries(code)
					var got []int
					for _, l := range strings.Split(out.String(), "\n") {
						k := 0
						for k < len(l) && l[k] >= '0' && l[k] <= '9' {
							k++
						}
						if k >= 4 && k < len(l) && l[k] == ' ' {
							off, _ := strconv.Atoi(l[:k])
							got = append(got, off)
						}
					}
					if fmt.Sprint(got) != fmt.Sprint(want) {
						return fmt.Sprintf("FAIL disassembly lists offsets %v; the instructions of the compiled program start at %v", got, want)
					}
				}
			}
			plain := runOpts(src, false, false, false)
			plainLines := strings.SplitAfter(plain.out, "\n")
			for m := 1; m < 8; m++ {
				dis, tr, st := m&1 != 0, m&2 != 0, m&4 != 0
				o := runOpts(src, dis, tr, st)
				if o.rest != plain.rest {
					return fmt.Sprintf("FAIL options %03b changed the result: %s vs %s", m, o.rest, plain.rest)
				}
				if o.log != plain.log {
					return fmt.Sprintf("FAIL options %03b changed the log writer content: %q vs %q", m, o.log, plain.log)
				}
				// program lines are a subsequence; everything else is option output
				lines := strings.SplitAfter(o.out, "\n")
				pi := 0
				ntrace := 0
				lastOff := -1
				inDisasm := true
				for _, l := range lines {
					if l == "" {
						continue
					}
					if pi < len(plainLines) && l == plainLines[pi] && !reOptLine.MatchString(l) {
						pi++
						continue
					}
					if !reOptLine.MatchString(l) {
						// multi-line prints: a printed string containing a newline is split; accept the exact continuation
						if pi < len(plainLines) && l == plainLines[pi] {
							pi++
							continue
						}
						return fmt.Sprintf("FAIL options %03b: unexpected output line %q", m, l)
					}
					if strings.HasPrefix(l, "             ") {
						ntrace++
						inDisasm = false
					}
					if dis && inDisasm && len(l) > 5 && l[4] == ' ' && l[0] >= '0' && l[0] <= '9' {
						off, _ := strconv.Atoi(l[:4])
						if off <= lastOff {
							return fmt.Sprintf("FAIL disassembly offsets not increasing at %q", l)
						}
						if lastOff == -1 && off != 0 {
							return "FAIL disassembly does not start at offset 0"
						}
						lastOff = off
					}
					if strings.HasPrefix(l, "xstats.opsRead:") && tr {
						n, _ := strconv.Atoi(strings.TrimSpace(strings.TrimPrefix(l, "xstats.opsRead:")))
						if n != ntrace {
							return fmt.Sprintf("FAIL %d trace records, statistics report %d instructions", ntrace, n)
						}
					}
				}
				for pi < len(plainLines) && plainLines[pi] == "" {
					pi++
				}
				if pi != len(plainLines) {
					return fmt.Sprintf("FAIL options %03b: program output lines missing (%d of %d found)", m, pi, len(plainLines))
				}
			}
			if strings.HasPrefix(plain.rest, `err="combined`) {
				return "rejected"
			}
			if strings.HasPrefix(plain.rest, `err="-"`) {
				return "ok"
			}
			return "runtime-error"
		})
		res.Eval(8)
		if strings.HasPrefix(v, "FAIL") || v == "HANG" || strings.HasPrefix(v, "PANIC") {
			res.Fail(Failure{Kind: "oracle", Input: trunc(string(src), 2000), Impl: trunc(v, 1500),
				Expected: "blocks, binding, error, diagnostics and printed lines identical with and without disasm/trace/stats; extra text only on the output writer"})
			return
		}
		res.Count("program."+v, 1)
		if v != "rejected" {
			res.Nontrivial(string(src))
		}
		// the whole text of disassembly, trace and statistics against the model
		if withModel {
			diffParseRun(res, d, src, true)
		}
		if i < 2 {
			res.Sample(trunc(string(src), 300))
		}
	}
	parallel(ctx.Pool, ctx.Seed, ctx.N(800), func(i int, r *rand.Rand, d *Driver) {
		g := NewGen(r)
		g.MaxDepth = 1 + r.Intn(4)
		// strings that look like option output would make the subsequence test ambiguous: none of the
		// generator's literals starts with four digits, thirteen spaces, "==", "pstats." or "xstats.",
		// and here none contains a line break (the disassembly prints constants raw)
		g.OneLineStrings = true
		checkOne(i, d, []byte(Render(g.Program(1+r.Intn(6)), r, false)), true)
	})
	// operands beyond one byte (disassembly and trace must stay in step with the code) …
	parallel(ctx.Pool, ctx.Seed+17, ctx.N(40), func(i int, r *rand.Rand, d *Driver) {
		checkOne(100+i, d, []byte(WideProgram(r)), true)
		res.Count("wide", 1)
	})
	// … and programs that fail at the limits while being traced
	var lim []string
	for _, s := range limitLadder() {
		if len(s) < 16000 {
			lim = append(lim, s)
		}
	}
	parallel(ctx.Pool, ctx.Seed+19, len(lim), func(i int, r *rand.Rand, d *Driver) {
		checkOne(100+i, d, []byte(lim[i]), true)
		res.Count("limit-ladder", 1)
	})
	// … and a runtime error or a warning at every distance from the end of the text: the disassembly
	// has looked up every position up to the last line before the failing instruction's position is
	// asked for (the order of look-ups is what the options change)
	type dist struct{ before, after int }
	var ds []dist
	for before := 0; before <= 2; before++ {
		for after := 0; after <= 24; after++ {
			ds = append(ds, dist{before, after})
		}
	}
	for _, after := range []int{31, 32, 33, 63, 64, 65, 127, 128, 129, 255, 256, 257} {
		ds = append(ds, dist{1, after})
	}
	parallel(ctx.Pool, ctx.Seed+23, len(ds), func(i int, r *rand.Rand, d *Driver) {
		filler := []string{"print 1\n", "\n", "# c\n", "var v%d = %d\n", "def t \"n%d\" { f = %d }\n"}
		var b strings.Builder
		n := 0
		line := func() {
			f := filler[r.Intn(len(filler))]
			if strings.Contains(f, "%d") {
				f = fmt.Sprintf(f, n, n)
			}
			n++
			b.WriteString(f)
		}
		for k := 0; k < ds[i].before; k++ {
			line()
		}
		switch i % 3 {
		case 0:
			b.WriteString("print 17 / 0\n")
		case 1:
			b.WriteString("def q { z = nope + 1 }\n")
		default: // a warning: the second bind
			b.WriteString("def w {}\nbind w -> struct\nbind w -> struct\n")
		}
		for k := 0; k < ds[i].after; k++ {
			line()
		}
		checkOne(200+i, d, []byte(b.String()), true)
		res.Count("distance-from-end", 1)
	})
	return res
}
