package main

// Stream "bindmodel" — properties C05, C15, C16: bcl.Bind against the Lean model of
// the reflection binder (lean/Bclv/Model/Bind.lean, driver op BIND).
//
// A case is a target (nil, a non-pointer, a typed nil pointer, or a pointer to a
// value of a generated type) and a binding (none, struct, slice).  Types come from
// reflect.StructOf over field pools chosen to collide under the matching rule
// (case, underscores, tags, embedded structs and pointers, unexported fields,
// the Name field in all spellings) and from a catalogue of declared types (named
// struct types, a type-name mismatch needs a name).  The type and the value are
// described generically from reflect.Type / reflect.Value, so whatever Go builds
// is what the model is told.
//
// Compared: the outcome class (nil, or which error), and the whole target after
// the call (on success, and on failure too: a slice target must be untouched, a
// struct target is compared with the model's partly written value).
// Direct oracles (the failing-input search): no panic; a slice target keeps its
// previous contents on error; a nil result means every field of every bound block
// is found, unchanged, in the target (checked by walking the target with the
// matching rule stated independently in streams_bind.go).

import (
	"fmt"
	"math"
	"math/rand"
	"reflect"
	"sort"
	"strings"

	"github.com/wkhere/bcl"
)

func init() {
	streams["bindmodel"] = streamBindModel
}

// ---------- describing Go types and values for the model ----------

type bmDesc struct {
	ids   map[reflect.Type]int
	stack map[reflect.Type]bool
}

var (
	tInt    = reflect.TypeOf(int(0))
	tFloat  = reflect.TypeOf(float64(0))
	tString = reflect.TypeOf("")
	tBool   = reflect.TypeOf(false)
)

func (d *bmDesc) ty(t reflect.Type, out *[]string) {
	switch {
	case t == tInt:
		*out = append(*out, "i")
	case t == tFloat:
		*out = append(*out, "f")
	case t == tString:
		*out = append(*out, "s")
	case t == tBool:
		*out = append(*out, "b")
	case t.Kind() == reflect.Interface && t.NumMethod() == 0:
		*out = append(*out, "a")
	case t.Kind() == reflect.Struct && !d.stack[t]:
		id, ok := d.ids[t]
		if !ok {
			id = len(d.ids) + 1
			d.ids[t] = id
		}
		d.stack[t] = true
		*out = append(*out, "S", fmt.Sprint(id), hxs(t.Name()), fmt.Sprint(t.NumField()))
		for i := 0; i < t.NumField(); i++ {
			f := t.Field(i)
			ex, em := "0", "0"
			if f.IsExported() {
				ex = "1"
			}
			if f.Anonymous {
				em = "1"
			}
			*out = append(*out, hxs(f.Name), hxs(f.Tag.Get("bcl")), ex, em)
			d.ty(f.Type, out)
		}
		delete(d.stack, t)
	case t.Kind() == reflect.Pointer && !d.stack[t.Elem()]:
		*out = append(*out, "p")
		d.ty(t.Elem(), out)
	case t.Kind() == reflect.Slice && !d.stack[t.Elem()]:
		*out = append(*out, "l")
		d.ty(t.Elem(), out)
	default:
		*out = append(*out, "o", hxs(t.Kind().String()))
	}
}

func bmValueToks(x any, out *[]string) bool {
	switch v := x.(type) {
	case nil:
		*out = append(*out, "n")
	case int:
		*out = append(*out, "i", fmt.Sprint(v))
	case float64:
		*out = append(*out, "f", fmt.Sprint(math.Float64bits(v)))
	case string:
		*out = append(*out, "s", hxs(v))
	case bool:
		if v {
			*out = append(*out, "b", "1")
		} else {
			*out = append(*out, "b", "0")
		}
	default:
		return false
	}
	return true
}

// gv renders a value along its type exactly as ty() described the type.
func (d *bmDesc) gv(v reflect.Value, out *[]string) {
	t := v.Type()
	switch {
	case t == tInt:
		*out = append(*out, "I", fmt.Sprint(v.Int()))
	case t == tFloat:
		*out = append(*out, "F", fmt.Sprint(math.Float64bits(v.Float())))
	case t == tString:
		*out = append(*out, "T", hxs(v.String()))
	case t == tBool:
		if v.Bool() {
			*out = append(*out, "B", "1")
		} else {
			*out = append(*out, "B", "0")
		}
	case t.Kind() == reflect.Interface && t.NumMethod() == 0:
		var x any
		if !v.IsNil() {
			x = v.Elem().Interface()
		}
		var toks []string
		if bmValueToks(x, &toks) {
			*out = append(*out, "X")
			*out = append(*out, toks...)
		} else {
			*out = append(*out, "O")
		}
	case t.Kind() == reflect.Struct && !d.stack[t]:
		d.stack[t] = true
		*out = append(*out, "R", fmt.Sprint(t.NumField()))
		for i := 0; i < t.NumField(); i++ {
			d.gv(v.Field(i), out)
		}
		delete(d.stack, t)
	case t.Kind() == reflect.Pointer && !d.stack[t.Elem()]:
		if v.IsNil() {
			*out = append(*out, "N")
		} else {
			*out = append(*out, "P")
			d.gv(v.Elem(), out)
		}
	case t.Kind() == reflect.Slice && !d.stack[t.Elem()]:
		*out = append(*out, "L", fmt.Sprint(v.Len()))
		for i := 0; i < v.Len(); i++ {
			d.gv(v.Index(i), out)
		}
	default:
		*out = append(*out, "O")
	}
}

func bmBlockToks(b bcl.Block, out *[]string) bool {
	*out = append(*out, "K", hxs(b.Type), hxs(b.Name), fmt.Sprint(len(b.Fields)))
	keys := make([]string, 0, len(b.Fields))
	for k := range b.Fields {
		keys = append(keys, k)
	}
	sort.Sort(sort.Reverse(sort.StringSlice(keys))) // any order: the model sorts
	for _, k := range keys {
		if cb, ok := b.Fields[k].(bcl.Block); ok {
			*out = append(*out, "c", hxs(k))
			if !bmBlockToks(cb, out) {
				return false
			}
			continue
		}
		*out = append(*out, "v", hxs(k))
		if !bmValueToks(b.Fields[k], out) {
			return false
		}
	}
	return true
}

// ---------- generators ----------

type BmInner struct {
	N int
	S string
}
type bmLower struct {
	X int
	Y string
}
type BmNamed struct {
	Name string
	Port int
	Host string
}
type Bm_Snake_Named struct {
	Max_Conn int
	LogLevel string `bcl:"lvl"`
}
type BmWithInner struct {
	Name  string
	Inner BmInner
	Other BmInner `bcl:"second"`
}
type BmEmbeds struct {
	BmInner
	Top int
}
type BmEmbedsPtr struct {
	*BmInner
	Top int
}
type BmEmbedsLower struct {
	bmLower
	Z bool
}
type BmShadow struct {
	BmInner
	N string // shadows the promoted N
}
type BmTwoEmbeds struct {
	BmInner
	BmNamed
	S2 string
}
type BmAmbiguous struct { // N is promoted twice at the same depth
	BmInner
	BmInnerB
}
type BmInnerB struct {
	N int
	Q bool
}
type BmKinds struct {
	A   int64
	B   float32
	C   []int
	D   map[string]int
	E   *int
	F   any
	G   fmt.Stringer
	H   [2]int
	I   MyInt
	J   uint
	Str MyStr
}
type MyInt int
type MyStr string
type BmRec struct {
	Name string
	Next *BmRec
	Kid  *BmInner
}
type BmNameVariants struct {
	NAME string
	X    int
}
type BmNameTagged struct {
	Title string `bcl:"Name"`
	X     int
}
type BmNameInt struct {
	Name int
	X    int
}
type bmUnexportedName struct {
	name string
	X    int
}

var bmCatalogue = []reflect.Type{
	reflect.TypeOf(BmInner{}), reflect.TypeOf(BmNamed{}), reflect.TypeOf(Bm_Snake_Named{}), reflect.TypeOf(BmWithInner{}),
	reflect.TypeOf(BmEmbeds{}), reflect.TypeOf(BmEmbedsPtr{}), reflect.TypeOf(BmEmbedsLower{}), reflect.TypeOf(BmShadow{}),
	reflect.TypeOf(BmTwoEmbeds{}), reflect.TypeOf(BmAmbiguous{}), reflect.TypeOf(BmKinds{}), reflect.TypeOf(BmRec{}),
	reflect.TypeOf(BmNameVariants{}), reflect.TypeOf(BmNameTagged{}), reflect.TypeOf(BmNameInt{}), reflect.TypeOf(bmUnexportedName{}),
	reflect.TypeOf(bmLower{}),
}

var bmFieldNames = []string{"Foo", "FOO", "Foo_", "F_oo", "Bar", "BAR", "Ba_r", "Name", "NAME", "Na_me", "X", "Y", "Port", "Max_Conn", "MaxConn",
	"Inner", "INNER", "Kid", "Top", "N", "S", "Lvl", "Key", "Key", "ſet", "Set"}
var bmUnexported = []string{"foo", "bar", "name", "x", "inner", "n"}
var bmTags = []string{"", "", "", "", "foo", "bar", "name", "Name", "x", "lvl", "inner", "inner.a", "key", "n"}
var bmLeafTypes = []reflect.Type{tInt, tInt, tFloat, tString, tString, tBool, reflect.TypeOf((*any)(nil)).Elem(),
	reflect.TypeOf(int64(0)), reflect.TypeOf(float32(0)), reflect.TypeOf([]int(nil)), reflect.TypeOf(map[string]int(nil)),
	reflect.TypeOf((*int)(nil)), reflect.TypeOf(MyInt(0)), reflect.TypeOf(MyStr("")), reflect.TypeOf(uint(0)),
	reflect.TypeOf((*fmt.Stringer)(nil)).Elem(), reflect.TypeOf([2]int{})}

// bmStructOf builds a struct type; nil when reflect.StructOf refuses the shape.
func bmStructOf(r *rand.Rand, depth int, stats map[string]int) (t reflect.Type) {
	defer func() {
		if recover() != nil {
			stats["structof-refused"]++
			t = nil
		}
	}()
	n := 1 + r.Intn(5)
	if r.Intn(8) == 0 {
		n = r.Intn(2)
	}
	used := map[string]bool{}
	var fs []reflect.StructField
	for i := 0; i < n; i++ {
		var f reflect.StructField
		kind := r.Intn(12)
		switch {
		case kind == 0 && depth > 0: // embedded struct or pointer to one
			var et reflect.Type
			if r.Intn(2) == 0 {
				et = bmCatalogue[r.Intn(len(bmCatalogue))]
			} else {
				et = bmStructOf(r, depth-1, stats)
			}
			if et == nil {
				continue
			}
			name := et.Name()
			if name == "" {
				name = bmFieldNames[r.Intn(len(bmFieldNames))]
			}
			if r.Intn(3) == 0 {
				et = reflect.PointerTo(et)
			}
			f = reflect.StructField{Name: name, Type: et, Anonymous: true}
			if !('A' <= name[0] && name[0] <= 'Z') {
				f.PkgPath = "main"
			}
			stats["field.embedded"]++
		case kind == 1: // unexported
			f = reflect.StructField{Name: bmUnexported[r.Intn(len(bmUnexported))], PkgPath: "main", Type: bmLeafTypes[r.Intn(6)]}
			stats["field.unexported"]++
		case kind <= 3 && depth > 0: // nested struct field
			var et reflect.Type
			if r.Intn(2) == 0 {
				et = bmCatalogue[r.Intn(len(bmCatalogue))]
			} else {
				et = bmStructOf(r, depth-1, stats)
			}
			if et == nil {
				continue
			}
			if r.Intn(6) == 0 {
				et = reflect.PointerTo(et)
			}
			f = reflect.StructField{Name: bmFieldNames[r.Intn(len(bmFieldNames))], Type: et}
			stats["field.struct"]++
		default:
			lt := bmLeafTypes[r.Intn(len(bmLeafTypes))]
			if r.Intn(3) > 0 {
				lt = bmLeafTypes[r.Intn(7)]
			}
			f = reflect.StructField{Name: bmFieldNames[r.Intn(len(bmFieldNames))], Type: lt}
		}
		if used[f.Name] {
			continue
		}
		used[f.Name] = true
		if tag := bmTags[r.Intn(len(bmTags))]; tag != "" && r.Intn(3) == 0 {
			f.Tag = reflect.StructTag(fmt.Sprintf(`bcl:%q`, tag))
			stats["field.tagged"]++
		}
		fs = append(fs, f)
	}
	return reflect.StructOf(fs)
}

var bmKeys = []string{"foo", "FOO", "f_oo", "foo_", "bar", "ba_r", "name", "NAME", "x", "y", "port", "max_conn", "maxconn", "inner", "kid",
	"top", "n", "s", "lvl", "key", "set", "second", "host", "q", "z", "other", "next", "a", "f", "str", "i", "nosuch"}

func bmValue(r *rand.Rand) any {
	switch r.Intn(9) {
	case 0:
		return nil
	case 1, 2:
		return []int{0, 1, -1, 42, math.MaxInt64, math.MinInt64}[r.Intn(6)]
	case 3:
		return []float64{0, 1.5, -2.25, math.Inf(1), math.MaxFloat64}[r.Intn(5)]
	case 4, 5:
		return []string{"", "a", "héllo", "with \"quotes\"\n", "x.y"}[r.Intn(5)]
	case 6:
		return r.Intn(2) == 0
	default:
		return r.Intn(100)
	}
}

// keysFor returns keys that have a chance to match the fields of t (plus noise).
func bmKeysFor(r *rand.Rand, t reflect.Type) []string {
	var ks []string
	if t != nil && t.Kind() == reflect.Struct {
		for i := 0; i < t.NumField(); i++ {
			f := t.Field(i)
			ks = append(ks, strings.ToLower(f.Name), snakeOf(f.Name), f.Name)
			if tag := f.Tag.Get("bcl"); tag != "" {
				ks = append(ks, tag)
			}
			ft := f.Type
			if ft.Kind() == reflect.Pointer {
				ft = ft.Elem()
			}
			if f.Anonymous && ft.Kind() == reflect.Struct {
				for j := 0; j < ft.NumField(); j++ {
					ks = append(ks, strings.ToLower(ft.Field(j).Name))
				}
			}
		}
	}
	for i := 0; i < 3; i++ {
		ks = append(ks, bmKeys[r.Intn(len(bmKeys))])
	}
	return ks
}

func snakeOf(s string) string {
	var b strings.Builder
	for i, c := range s {
		if 'A' <= c && c <= 'Z' {
			if i > 0 {
				b.WriteByte('_')
			}
			b.WriteRune(c + 32)
		} else {
			b.WriteRune(c)
		}
	}
	return b.String()
}

func bmFieldType(t reflect.Type, key string) reflect.Type {
	if t == nil || t.Kind() != reflect.Struct {
		return nil
	}
	base, _, _ := strings.Cut(key, ".")
	f, ok := t.FieldByNameFunc(func(s string) bool { return foldEq(s, base) })
	if !ok {
		return nil
	}
	return f.Type
}

// bmSpell gives one of the spellings the matching rule admits for a field name.
func bmSpell(r *rand.Rand, name string) string {
	switch r.Intn(5) {
	case 0:
		return strings.ToLower(name)
	case 1:
		return snakeOf(name)
	case 2:
		return strings.ToUpper(name)
	case 3:
		return strings.ToLower(strings.ReplaceAll(name, "_", ""))
	}
	return name
}

// bmGoodBlock writes a block aimed at t field by field: every entry has a key that
// spells an exported field (or is its tag) and a value of the field's type.
func bmGoodBlock(r *rand.Rand, t reflect.Type, depth int, stats map[string]int) bcl.Block {
	b := bcl.Block{Type: "t", Fields: map[string]any{}}
	if t.Name() != "" {
		b.Type = bmSpell(r, t.Name())
	}
	if r.Intn(2) == 0 {
		b.Name = []string{"n1", "a b", "x"}[r.Intn(3)]
	}
	for i := 0; i < t.NumField(); i++ {
		f := t.Field(i)
		if !f.IsExported() || f.Anonymous || r.Intn(4) == 0 || foldEq(f.Name, "name") {
			continue
		}
		key := bmSpell(r, f.Name)
		if tag := f.Tag.Get("bcl"); tag != "" && r.Intn(2) == 0 {
			key = tag
		}
		switch {
		case f.Type == tInt:
			b.Fields[key] = r.Intn(1000) - 500
		case f.Type == tFloat:
			b.Fields[key] = float64(r.Intn(1000)) / 8
		case f.Type == tString:
			b.Fields[key] = []string{"", "v", "héllo"}[r.Intn(3)]
		case f.Type == tBool:
			b.Fields[key] = r.Intn(2) == 0
		case f.Type.Kind() == reflect.Interface && f.Type.NumMethod() == 0:
			b.Fields[key] = bmValue(r)
		case f.Type.Kind() == reflect.Struct && depth > 0:
			if r.Intn(3) == 0 && !strings.Contains(key, ".") {
				key += ".kid"
			}
			b.Fields[key] = bmGoodBlock(r, f.Type, depth-1, stats)
		}
	}
	stats["block.aimed"]++
	return b
}

// bmWholeAndParts: a block that writes an embedded struct as a whole (a nested block under its
// name) and through several of its promoted fields as well, every key in a random spelling, so
// that the key of the whole sorts before, between or after the keys of the parts: one key in
// conflict with several others.
func bmWholeAndParts(r *rand.Rand, t reflect.Type, depth int, stats map[string]int) (bcl.Block, bool) {
	for i := 0; i < t.NumField(); i++ {
		f := t.Field(i)
		ft := f.Type
		if ft.Kind() == reflect.Pointer {
			ft = ft.Elem()
		}
		if !f.Anonymous || !f.IsExported() || ft.Kind() != reflect.Struct || ft.NumField() < 2 {
			continue
		}
		b := bmGoodBlock(r, t, depth, stats)
		n := 0
		for j := 0; j < ft.NumField(); j++ {
			g := ft.Field(j)
			if !g.IsExported() || r.Intn(5) == 0 {
				continue
			}
			key := bmSpell(r, g.Name)
			switch g.Type {
			case tInt:
				b.Fields[key] = r.Intn(100)
			case tFloat:
				b.Fields[key] = 1.5
			case tString:
				b.Fields[key] = "v"
			case tBool:
				b.Fields[key] = true
			default:
				continue
			}
			n++
		}
		if n < 2 {
			continue
		}
		whole := bcl.Block{Type: "t", Fields: map[string]any{}}
		if r.Intn(2) == 0 && depth > 0 {
			whole = bmGoodBlock(r, ft, depth-1, stats)
		}
		b.Fields[bmSpell(r, f.Name)] = whole
		stats["block.whole-and-parts"]++
		return b, true
	}
	return bcl.Block{}, false
}

func bmBlock(r *rand.Rand, t reflect.Type, depth int, stats map[string]int) bcl.Block {
	if t != nil && t.Kind() == reflect.Struct && r.Intn(5) < 2 {
		if r.Intn(2) == 0 {
			if b, ok := bmWholeAndParts(r, t, depth, stats); ok {
				return b
			}
		}
		return bmGoodBlock(r, t, depth, stats)
	}
	b := bcl.Block{Type: "t", Fields: map[string]any{}}
	if t != nil && t.Name() != "" && r.Intn(4) > 0 {
		b.Type = snakeOf(t.Name())
		if r.Intn(3) == 0 {
			b.Type = strings.ToLower(t.Name())
		}
	} else if r.Intn(3) == 0 {
		b.Type = bmKeys[r.Intn(len(bmKeys))]
	}
	if r.Intn(2) == 0 {
		b.Name = []string{"n1", "a b", "", "x"}[r.Intn(4)]
	}
	keys := bmKeysFor(r, t)
	n := r.Intn(5)
	if r.Intn(6) == 0 {
		n = r.Intn(9)
	}
	for i := 0; i < n; i++ {
		k := keys[r.Intn(len(keys))]
		if k == "" {
			continue
		}
		ft := bmFieldType(t, k)
		if ft != nil && ft.Kind() == reflect.Pointer {
			ft = ft.Elem()
		}
		wantBlock := ft != nil && ft.Kind() == reflect.Struct
		switch {
		case depth > 0 && (wantBlock && r.Intn(5) > 0 || !wantBlock && r.Intn(12) == 0):
			cb := bmBlock(r, ft, depth-1, stats)
			key := k
			if r.Intn(3) == 0 {
				key = k + "." + []string{"n1", "x", "a.b"}[r.Intn(3)]
			}
			b.Fields[key] = cb
			stats["entry.block"]++
		case ft != nil && r.Intn(4) > 0:
			// a value of the field's own type, mostly
			switch ft {
			case tInt:
				b.Fields[k] = r.Intn(1000) - 500
			case tFloat:
				b.Fields[k] = float64(r.Intn(1000)) / 8
			case tString:
				b.Fields[k] = []string{"", "v", "héllo"}[r.Intn(3)]
			case tBool:
				b.Fields[k] = r.Intn(2) == 0
			default:
				b.Fields[k] = bmValue(r)
			}
			stats["entry.typed"]++
		default:
			b.Fields[k] = bmValue(r)
			stats["entry.random"]++
		}
	}
	return b
}

// bmPopulate fills a fresh value with non-zero previous contents, and sometimes
// allocates embedded pointers.
func bmPopulate(r *rand.Rand, v reflect.Value, depth int) {
	t := v.Type()
	switch {
	case t == tInt:
		v.SetInt(int64(7 + r.Intn(3)))
	case t == tString:
		v.SetString("old")
	case t == tBool:
		v.SetBool(true)
	case t == tFloat:
		v.SetFloat(9.5)
	case t.Kind() == reflect.Struct && depth > 0:
		for i := 0; i < t.NumField(); i++ {
			if v.Field(i).CanSet() {
				bmPopulate(r, v.Field(i), depth-1)
			}
		}
	case t.Kind() == reflect.Pointer && t.Elem().Kind() == reflect.Struct && depth > 0 && r.Intn(2) == 0:
		v.Set(reflect.New(t.Elem()))
		bmPopulate(r, v.Elem(), depth-1)
	}
}

func bmErrClass(err error) string {
	if err == nil {
		return "ok"
	}
	m := err.Error()
	kindAfter := func(prefix string) string { return strings.TrimPrefix(m, prefix) }
	switch {
	case m == "no binding":
		return "noBinding"
	case strings.HasPrefix(m, "bind target: expected pointer, have: "):
		return "notPointer:" + kindAfter("bind target: expected pointer, have: ")
	case strings.HasPrefix(m, "bind target: pointer deref: expected struct, have: "):
		return "notStruct:" + kindAfter("bind target: pointer deref: expected struct, have: ")
	case strings.HasPrefix(m, "bind target: pointer deref: expected slice, have: "):
		return "notSlice:" + kindAfter("bind target: pointer deref: expected slice, have: ")
	case strings.HasPrefix(m, "bind target: slice element deref: expected struct, have: "):
		return "elemNotStruct:" + kindAfter("bind target: slice element deref: expected struct, have: ")
	case strings.HasPrefix(m, "block ") && strings.Contains(m, ": expected struct, have: "):
		return "blockNotStruct"
	case strings.HasPrefix(m, "mismatch: struct type"):
		return "typeName"
	case strings.HasPrefix(m, "field mapping for"):
		return "notFound"
	case strings.HasPrefix(m, "found field") && strings.HasSuffix(m, "unexported"):
		return "unexported"
	case strings.HasSuffix(m, "has nil value"):
		return "nilValue"
	case strings.Contains(m, "is mapped from both"):
		return "collision"
	case strings.HasPrefix(m, "reflect: indirection through nil pointer to embedded struct"):
		return "nilEmbedded"
	case strings.HasPrefix(m, "type mismatch for the mapped field"):
		return "mismatch"
	}
	return "other:" + m
}

func streamBindModel(ctx *Ctx) *Result {
	res := NewResult("bindmodel", "targets (nil, non-pointers, typed nil pointers, pointers to values of reflect.StructOf types and of 17 declared types; fields colliding under case/underscore/tag matching, embedded structs and pointers, unexported fields, Name in all spellings, every non-assignable kind; fresh or pre-populated) × bindings (none, struct, slice of 0..4 blocks; keys aimed at the fields in all spellings, nil values, nested blocks with dotted keys); non-trivial = a block with ≥ 2 entries on a struct or slice target")
	parallel(ctx.Pool, ctx.Seed, ctx.N(6000), func(i int, r *rand.Rand, d *Driver) {
		stats := map[string]int{}
		defer func() {
			for k, v := range stats {
				res.Count(k, v)
			}
		}()
		// the type
		var t reflect.Type
		if r.Intn(3) == 0 {
			t = bmCatalogue[r.Intn(len(bmCatalogue))]
			stats["type.catalogue"]++
		} else {
			t = bmStructOf(r, 2, stats)
			stats["type.structof"]++
		}
		if t == nil {
			return
		}
		// the binding
		var binding bcl.Binding
		nblocks := 0
		switch k := r.Intn(10); {
		case k == 0:
			binding = nil
			stats["binding.none"]++
		case k <= 6:
			binding = bcl.StructBinding{Value: bmBlock(r, t, 2, stats)}
			nblocks = 1
			stats["binding.struct"]++
		default:
			n := r.Intn(5)
			bs := make([]bcl.Block, n)
			for j := range bs {
				bs[j] = bmBlock(r, t, 2, stats)
			}
			binding = bcl.SliceBinding{Value: bs}
			nblocks = n
			stats["binding.slice"]++
		}
		// the target
		desc := &bmDesc{ids: map[reflect.Type]int{}, stack: map[reflect.Type]bool{}}
		var target any
		var toks []string
		var ptr reflect.Value // valid when the target is a non-nil pointer
		_, isSlice := binding.(bcl.SliceBinding)
		switch k := r.Intn(20); {
		case k == 0:
			target = nil
			toks = append(toks, "np", hxs("invalid"))
			stats["target.nil"]++
		case k == 1:
			v := reflect.New(t).Elem()
			target = v.Interface()
			toks = append(toks, "np", hxs(t.Kind().String()))
			stats["target.non-pointer"]++
		case k == 2:
			target = reflect.Zero(reflect.PointerTo(t)).Interface()
			toks = append(toks, "nilp")
			desc.ty(t, &toks)
			stats["target.nil-pointer"]++
		case k == 3:
			// pointer to something that is neither a struct nor a slice of structs
			alt := []reflect.Type{tInt, tString, reflect.TypeOf([]int(nil)), reflect.TypeOf(map[string]int(nil)), reflect.PointerTo(t), reflect.TypeOf([]*BmInner(nil))}[r.Intn(6)]
			ptr = reflect.New(alt)
			target = ptr.Interface()
			toks = append(toks, "ptr")
			desc.ty(alt, &toks)
			desc.gv(ptr.Elem(), &toks)
			stats["target.pointer-to-other"]++
		default:
			tt := t
			if isSlice && r.Intn(6) > 0 || !isSlice && r.Intn(12) == 0 {
				tt = reflect.SliceOf(t)
			}
			ptr = reflect.New(tt)
			if r.Intn(3) == 0 {
				if tt.Kind() == reflect.Slice {
					old := reflect.MakeSlice(tt, 2, 2)
					bmPopulate(r, old.Index(0), 2)
					ptr.Elem().Set(old)
				} else {
					bmPopulate(r, ptr.Elem(), 2)
				}
				stats["target.pre-populated"]++
			}
			target = ptr.Interface()
			toks = append(toks, "ptr")
			desc.ty(tt, &toks)
			desc.gv(ptr.Elem(), &toks)
			stats["target." + tt.Kind().String()]++
		}
		var before []string
		if ptr.IsValid() {
			desc.gv(ptr.Elem(), &before)
		}
		switch b := binding.(type) {
		case nil:
			toks = append(toks, "none")
		case bcl.StructBinding:
			toks = append(toks, "struct")
			if !bmBlockToks(b.Value, &toks) {
				return
			}
		case bcl.SliceBinding:
			toks = append(toks, "slice", fmt.Sprint(len(b.Value)))
			for _, blk := range b.Value {
				if !bmBlockToks(blk, &toks) {
					return
				}
			}
		}
		input := func() string {
			return fmt.Sprintf("bcl.Bind(target, binding)\ntarget type: %v\ntarget before: %s\nbinding: %#v\nwire: %s", reflect.TypeOf(target), strings.Join(before, ","), binding, strings.Join(toks, ","))
		}

		var err error
		verdict := guarded(opTimeout, func() string {
			err = bcl.Bind(target, binding)
			return ""
		})
		res.Eval(1)
		if verdict != "" {
			if verdict == "SKIPPED-AFTER-HANGS" {
				return
			}
			res.Fail(Failure{Kind: "oracle", Op: "Bind", Input: input(), Impl: verdict, Expected: "Bind returns nil or an error; it never panics"})
			return
		}
		cls := bmErrClass(err)
		res.Count("outcome."+strings.SplitN(cls, ":", 2)[0], 1)
		var after []string
		if ptr.IsValid() {
			desc.gv(ptr.Elem(), &after)
		}
		// direct oracle: a slice target keeps its previous contents on error
		if err != nil && ptr.IsValid() && ptr.Elem().Kind() == reflect.Slice && strings.Join(before, ",") != strings.Join(after, ",") {
			res.Fail(Failure{Kind: "oracle", Op: "Bind", Input: input(), Impl: "error " + err.Error() + "; slice target after: " + strings.Join(after, ","),
				Expected: "on error a slice target keeps its previous contents"})
		}
		impl := cls
		if ptr.IsValid() {
			impl += " " + strings.Join(after, ",")
		} else if cls != "ok" {
			impl += " O"
		}
		model := ask(d, "BIND "+strings.Join(toks, ","))
		if strings.HasPrefix(model, "err ") {
			model = model[4:]
		}
		if !ptr.IsValid() && strings.HasSuffix(model, " O") == false && strings.Count(model, " ") == 0 {
			model += " O"
		}
		if model != impl {
			res.Fail(Failure{Kind: "model-diff", Op: "BIND", Input: input(), Impl: impl, Model: model,
				Expected: "the binder model and bcl.Bind agree on the outcome and on the target after the call"})
		}
		// direct oracle (C16): the same call on an equal target returns the same error, word for word
		if err != nil && ptr.IsValid() && nblocks > 0 {
			texts := map[string]int{}
			for k := 0; k < 48; k++ {
				fresh := reflect.New(ptr.Elem().Type())
				var e2 error
				v := guarded(opTimeout, func() string { e2 = bcl.Bind(fresh.Interface(), binding); return "" })
				if v != "" {
					break
				}
				if e2 == nil {
					texts["<nil>"]++
				} else {
					texts[e2.Error()]++
				}
			}
			res.Count("repeat.on-error", 1)
			if len(texts) > 1 {
				res.Fail(Failure{Kind: "oracle", Op: "Bind repeated", Input: input(), Impl: fmt.Sprintf("%d different results of 48 identical calls on fresh targets: %v", len(texts), texts),
					Expected: "the same binding on an equal target gives the same error every time"})
			}
		}
		if nblocks > 0 && ptr.IsValid() {
			n := 0
			switch b := binding.(type) {
			case bcl.StructBinding:
				n = len(b.Value.Fields)
			case bcl.SliceBinding:
				for _, blk := range b.Value {
					n += len(blk.Fields)
				}
			}
			if n >= 2 {
				res.Nontrivial(strings.Join(toks, ","))
			}
		}
	})
	return res
}
