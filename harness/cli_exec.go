package main

// Helpers of the "cli" stream: building and running the command-line tool,
// the argument-vector specification, and the in-process reference outcome.

import (
	"bytes"
	"context"
	"encoding/hex"
	"errors"
	"fmt"
	"io"
	"math/rand"
	"os"
	"os/exec"
	"path/filepath"
	"sort"
	"strings"
	"time"

	"github.com/wkhere/bcl"
)

// ---------- environment: work directory and freshly built binary ----------

type cliEnv struct {
	work string // fresh temporary directory, removed at the end
	bin  string // the tool built from the current tree
}

func cliHarnessSrc() string {
	if p := os.Getenv("BCLH_SRC"); p != "" {
		return p
	}
	return "/verif/harness"
}

func cliGoTool() string {
	if p, err := exec.LookPath("go"); err == nil {
		return p
	}
	for _, p := range []string{"/usr/local/go/bin/go", "/usr/bin/go", "/usr/lib/go/bin/go"} {
		if _, err := os.Stat(p); err == nil {
			return p
		}
	}
	return "go"
}

// cliSetup creates the work directory and builds the tool; buildLog is the
// compiler's output when the build fails.
func cliSetup() (env *cliEnv, buildLog string, err error) {
	base := os.Getenv("BCLH_WORK")
	if base == "" {
		base = os.TempDir()
	}
	if err := os.MkdirAll(base, 0o755); err != nil {
		return nil, "", err
	}
	work, err := os.MkdirTemp(base, "bclh-cli-")
	if err != nil {
		return nil, "", err
	}
	if work, err = filepath.Abs(work); err != nil {
		return nil, "", err
	}
	env = &cliEnv{work: work, bin: filepath.Join(work, "bcl")}
	cmd := exec.Command(cliGoTool(), "build", "-tags", "verif", "-o", env.bin, "github.com/wkhere/bcl/cmd/bcl")
	cmd.Dir = cliHarnessSrc()
	cmd.Env = append(cliFilterEnv(os.Environ(), "GOFLAGS", "GOPROXY", "GOSUMDB", "GOTOOLCHAIN", "BCL_VERIF_ARGS"),
		"GOFLAGS=-mod=mod", "GOPROXY=off", "GOSUMDB=off", "GOTOOLCHAIN=local")
	out, err := cmd.CombinedOutput()
	if err != nil {
		return env, string(out), err
	}
	return env, "", nil
}

func (e *cliEnv) Close() {
	if e != nil && e.work != "" {
		os.RemoveAll(e.work)
	}
}

func cliFilterEnv(env []string, drop ...string) []string {
	var out []string
next:
	for _, kv := range env {
		for _, d := range drop {
			if strings.HasPrefix(kv, d+"=") {
				continue next
			}
		}
		out = append(out, kv)
	}
	return out
}

// ---------- one run of the tool ----------

type cliRun struct {
	Argv     []string
	Stdin    []byte
	HasStdin bool // false: standard input is /dev/null
	ArgsHook bool // BCL_VERIF_ARGS=1

	Exit    int
	Stdout  string
	Stderr  string
	Timeout bool
	WaitErr string // anything but a plain exit status
}

const cliRunTimeout = 60 * time.Second

func (e *cliEnv) run(dir string, argv []string, stdin []byte, hasStdin, argsHook bool) *cliRun {
	r := &cliRun{Argv: argv, Stdin: stdin, HasStdin: hasStdin, ArgsHook: argsHook}
	ctx, cancel := context.WithTimeout(context.Background(), cliRunTimeout)
	defer cancel()
	cmd := exec.CommandContext(ctx, e.bin, argv...)
	cmd.Dir = dir
	cmd.Env = []string{"LANG=C"}
	if argsHook {
		cmd.Env = append(cmd.Env, "BCL_VERIF_ARGS=1")
	}
	if hasStdin {
		cmd.Stdin = bytes.NewReader(stdin)
		if len(stdin) > 10 && len(stdin)%5 == 0 {
			// the program arrives over the pipe in several writes with pauses between them
			cmd.Stdin = &pausedReader{b: stdin, step: len(stdin)/3 + 1}
		}
	}
	var so, se bytes.Buffer
	cmd.Stdout, cmd.Stderr = &so, &se
	err := cmd.Run()
	r.Stdout, r.Stderr = so.String(), se.String()
	if ctx.Err() != nil {
		r.Timeout = true
		r.Exit = -1
		return r
	}
	var ee *exec.ExitError
	switch {
	case err == nil:
	case errors.As(err, &ee):
		r.Exit = ee.ExitCode()
	default:
		r.WaitErr = err.Error()
	}
	return r
}

func (r *cliRun) observed() string {
	if r.Timeout {
		return fmt.Sprintf("no exit within %v; stdout=%q stderr=%q", cliRunTimeout, cliClip(r.Stdout), cliClip(r.Stderr))
	}
	return fmt.Sprintf("exit=%d\nstdout=%q\nstderr=%q", r.Exit, cliClip(r.Stdout), cliClip(r.Stderr))
}

func cliClip(s string) string {
	if len(s) > 3000 {
		return s[:3000] + fmt.Sprintf("…(%d bytes in all)", len(s))
	}
	return s
}

// ---------- argument vectors ----------

// cliVec is an argument vector up to order, spelling and clustering.
type cliVec struct {
	flags     string // subset of "dtrs", in that order
	bdump     int    // 0 absent, 1 "--bdump" (BFILE derived from FILE), 2 "--bdump=BFILE"
	bdumpFile string
	bload     int // 0 absent, 1 "--bload", 2 "--bload=BFILE"
	bloadFile string
	file      string // "" omitted, "-", or a file name
}

var cliLong = map[byte]string{'d': "--disasm", 't': "--trace", 'r': "--result", 's': "--stats"}

func (v cliVec) has(c byte) bool { return strings.IndexByte(v.flags, c) >= 0 }

func (v cliVec) mode() string {
	switch v.file {
	case "":
		return "omitted"
	case "-":
		return "dash"
	}
	return "file"
}

func (v cliVec) flagKey() string {
	k := v.flags
	if k == "" {
		k = "none"
	}
	return k
}

// effective input file and BFILE, by the documented rules.
func (v cliVec) inputFile() string {
	f := v.file
	if v.bload != 0 && v.bloadFile != "" && f == "" {
		f = v.bloadFile
	}
	if f == "" {
		f = "-"
	}
	return f
}

func (v cliVec) dumpFile() string {
	switch v.bdump {
	case 2:
		return v.bdumpFile
	case 1:
		return strings.TrimSuffix(v.file, ".bcl") + ".bcb"
	}
	return ""
}

// record is the line the ARGS hook prints for this vector.
func (v cliVec) record() string {
	blf := ""
	if v.bload == 2 {
		blf = v.bloadFile
	}
	return fmt.Sprintf("file=%q disasm=%v trace=%v result=%v stats=%v bdump=%v bload=%v bdumpFile=%q bloadFile=%q help=%v\n",
		v.inputFile(), v.has('d'), v.has('t'), v.has('r'), v.has('s'), v.bdump != 0, v.bload != 0, v.dumpFile(), blf, false)
}

// otherTokens are the tokens besides the four switches, file last.
func (v cliVec) otherTokens() (toks []string, file string) {
	switch v.bdump {
	case 1:
		toks = append(toks, "--bdump")
	case 2:
		toks = append(toks, "--bdump="+v.bdumpFile)
	}
	switch v.bload {
	case 1:
		toks = append(toks, "--bload")
	case 2:
		toks = append(toks, "--bload="+v.bloadFile)
	}
	return toks, v.file
}

// plain is the canonical spelling: separate short switches in the order dtrs, file last.
func (v cliVec) plain() []string {
	var a []string
	for i := 0; i < len(v.flags); i++ {
		a = append(a, "-"+v.flags[i:i+1])
	}
	o, f := v.otherTokens()
	a = append(a, o...)
	if f != "" {
		a = append(a, f)
	}
	return a
}

// variant draws one spelling of the vector: each switch short, long or in a
// cluster, now and then repeated; all tokens in random order; sometimes the
// file after "--".
func (v cliVec) variant(r *rand.Rand) (argv []string, shape string) {
	letters := []byte(v.flags)
	r.Shuffle(len(letters), func(i, j int) { letters[i], letters[j] = letters[j], letters[i] })
	var toks []string
	nclu, nlong, nshort := 0, 0, 0
	for len(letters) > 0 {
		switch k := r.Intn(4); {
		case k == 0:
			toks = append(toks, cliLong[letters[0]])
			letters = letters[1:]
			nlong++
		case k == 1 || len(letters) == 1:
			toks = append(toks, "-"+string(letters[:1]))
			letters = letters[1:]
			nshort++
		default:
			n := 2 + r.Intn(len(letters)-1)
			toks = append(toks, "-"+string(letters[:n]))
			letters = letters[n:]
			nclu++
		}
	}
	dup := false
	if len(v.flags) > 0 && r.Intn(8) == 0 {
		c := v.flags[r.Intn(len(v.flags))]
		switch r.Intn(3) {
		case 0:
			toks = append(toks, "-"+string(c))
		case 1:
			toks = append(toks, cliLong[c])
		default:
			toks = append(toks, "-"+string(c)+string(c))
		}
		dup = true
	}
	o, f := v.otherTokens()
	toks = append(toks, o...)
	ddash := r.Intn(8) == 0
	if f != "" && !ddash {
		toks = append(toks, f)
	}
	r.Shuffle(len(toks), func(i, j int) { toks[i], toks[j] = toks[j], toks[i] })
	if ddash {
		toks = append(toks, "--")
		if f != "" {
			toks = append(toks, f)
		}
	}
	shape = fmt.Sprintf("clusters=%d long=%d short=%d", nclu, nlong, nshort)
	if dup {
		shape += " repeat"
	}
	if ddash {
		shape += " ddash"
	}
	return toks, shape
}

func cliPermutations(toks []string) [][]string {
	var out [][]string
	a := append([]string(nil), toks...)
	var rec func(k int)
	rec = func(k int) {
		if k == len(a) {
			out = append(out, append([]string(nil), a...))
			return
		}
		for i := k; i < len(a); i++ {
			a[k], a[i] = a[i], a[k]
			rec(k + 1)
			a[k], a[i] = a[i], a[k]
		}
	}
	rec(0)
	return out
}

// allVariants enumerates every order of the separate tokens and every
// clustering (every order of the letters, every way to cut it into clusters);
// in the clustered forms the remaining tokens go to random places.
func (v cliVec) allVariants(r *rand.Rand) [][]string {
	o, f := v.otherTokens()
	rest := o
	if f != "" {
		rest = append(rest, f)
	}
	var out [][]string
	var shorts []string
	for i := 0; i < len(v.flags); i++ {
		shorts = append(shorts, "-"+v.flags[i:i+1])
	}
	if len(shorts)+len(rest) <= 5 {
		out = append(out, cliPermutations(append(append([]string(nil), shorts...), rest...))...)
	}
	letters := make([]string, len(v.flags))
	for i := range letters {
		letters[i] = v.flags[i : i+1]
	}
	if len(letters) >= 2 {
		for _, p := range cliPermutations(letters) {
			for mask := 0; mask < 1<<(len(p)-1); mask++ {
				var toks []string
				cur := "-" + p[0]
				for i := 1; i < len(p); i++ {
					if mask&(1<<(i-1)) != 0 {
						toks = append(toks, cur)
						cur = "-"
					}
					cur += p[i]
				}
				toks = append(toks, cur)
				for _, x := range rest {
					k := r.Intn(len(toks) + 1)
					toks = append(toks[:k], append([]string{x}, toks[k:]...)...)
				}
				out = append(out, toks)
			}
		}
	}
	return out
}

// ---------- reference outcome, computed in-process with the library ----------

type cliExpect struct {
	Exit   int
	Stdout string
	Stderr string
	Files  map[string][]byte // files the run must leave behind, with content
	Parsed bool              // the program was obtained (parsed or loaded)
	Bad    string            // the library panicked or hung: no reference
}

type cliNamed struct {
	*bytes.Reader
	name string
}

func (cliNamed) Close() error   { return nil }
func (f cliNamed) Name() string { return f.name }

type cliOSFile struct {
	*os.File
	name string
}

func (f cliOSFile) Name() string { return f.name }

// cliExpectRun mirrors cmd/bcl/main.go run() for a well-formed vector:
// the same library calls with the same options, output and log captured.
func cliExpectRun(v cliVec, dir string, stdin []byte) cliExpect {
	var exp cliExpect
	s := guarded(2*opTimeout, func() string {
		exp = cliExpectRun1(v, dir, stdin)
		return ""
	})
	if s != "" {
		return cliExpect{Bad: s}
	}
	return exp
}

func cliExpectRun1(v cliVec, dir string, stdin []byte) (exp cliExpect) {
	var out, log bytes.Buffer
	file := v.inputFile()
	fail := func(err error) cliExpect {
		exp.Exit = 1
		exp.Stdout = out.String()
		exp.Stderr = log.String() + err.Error() + "\n"
		// the tool runs inside dir and sees relative names
		exp.Stderr = strings.ReplaceAll(exp.Stderr, dir+string(os.PathSeparator), "")
		return exp
	}
	var in bcl.FileInput
	if file == "-" {
		in = cliNamed{bytes.NewReader(stdin), "/dev/stdin"}
	} else {
		f, err := os.Open(filepath.Join(dir, file))
		if err != nil {
			return fail(err)
		}
		in = cliOSFile{f, file}
	}
	oo := []bcl.Option{bcl.OptOutput(&out), bcl.OptLogger(&log)}
	with := func(o ...bcl.Option) []bcl.Option { return append(append([]bcl.Option(nil), oo...), o...) }

	if v.flags == "" && v.bdump == 0 && v.bload == 0 {
		// the property as stated: what the library prints for that input
		_, _, err := bcl.InterpretFile(in, oo...)
		if err != nil {
			return fail(err)
		}
		exp.Parsed = true
		exp.Stdout, exp.Stderr = out.String(), log.String()
		return exp
	}

	var prog *bcl.Prog
	var err error
	if v.bload != 0 {
		prog, err = bcl.LoadProg(in, file, with(bcl.OptDisasm(v.has('d')))...)
		in.Close()
	} else {
		prog, err = bcl.ParseFile(in, with(bcl.OptDisasm(v.has('d')), bcl.OptStats(v.has('s')))...)
	}
	if err != nil {
		return fail(err)
	}
	exp.Parsed = true
	if v.bdump != 0 {
		bf, err := os.Create(filepath.Join(dir, v.dumpFile()))
		if err != nil {
			return fail(fmt.Errorf("dump: %w", err))
		}
		bf.Close()
		os.Remove(bf.Name())
		d, err := dumpOf(prog)
		if err != nil {
			return fail(fmt.Errorf("dump: %w", err))
		}
		exp.Files = map[string][]byte{v.dumpFile(): d}
	}
	res, binding, err := bcl.Execute(prog, with(bcl.OptTrace(v.has('t')), bcl.OptStats(v.has('s')))...)
	if err != nil {
		return fail(err)
	}
	if v.has('r') {
		fmt.Fprintf(&out, "result:  %+v\n", res)
		fmt.Fprintf(&out, "binding: %+v\n", binding)
	}
	exp.Stdout, exp.Stderr = out.String(), log.String()
	return exp
}

func (e cliExpect) String() string {
	s := fmt.Sprintf("exit=%d\nstdout=%q\nstderr=%q", e.Exit, cliClip(e.Stdout), cliClip(e.Stderr))
	var names []string
	for n := range e.Files {
		names = append(names, n)
	}
	sort.Strings(names)
	for _, n := range names {
		s += fmt.Sprintf("\nfile %s=hex:%s", n, hex.EncodeToString(e.Files[n]))
	}
	return s
}

// ---------- replayable description of a run ----------

// cliDescribe lists the argument vector, standard input and every regular
// file of the run's directory (as they are now).
func cliDescribe(dir string, run *cliRun, note string) string {
	var b strings.Builder
	fmt.Fprintf(&b, "argv: bcl")
	for _, a := range run.Argv {
		fmt.Fprintf(&b, " %q", a)
	}
	b.WriteString("\n")
	if run.ArgsHook {
		b.WriteString("env: BCL_VERIF_ARGS=1 (tool built with -tags verif)\n")
	}
	if run.HasStdin {
		fmt.Fprintf(&b, "stdin: %q\n", run.Stdin)
	} else {
		b.WriteString("stdin: /dev/null\n")
	}
	b.WriteString("cwd files before the run:")
	ents, _ := os.ReadDir(dir)
	n := 0
	for _, e := range ents {
		if !e.Type().IsRegular() {
			if e.IsDir() {
				fmt.Fprintf(&b, "\n  %s/ (empty directory)", e.Name())
			}
			continue
		}
		data, err := os.ReadFile(filepath.Join(dir, e.Name()))
		if err != nil {
			continue
		}
		if cliWrittenBy(run, e.Name()) {
			continue
		}
		n++
		if strings.HasSuffix(e.Name(), ".bcl") || strings.HasSuffix(e.Name(), ".txt") {
			fmt.Fprintf(&b, "\n  %s = %q", e.Name(), data)
		} else {
			fmt.Fprintf(&b, "\n  %s = hex:%s", e.Name(), hex.EncodeToString(data))
		}
	}
	if n == 0 {
		b.WriteString(" none")
	}
	if note != "" {
		b.WriteString("\n" + note)
	}
	return b.String()
}

// cliWrittenBy tells whether the run itself writes the file (a --bdump target).
func cliWrittenBy(run *cliRun, name string) bool {
	derived := false
	for _, a := range run.Argv {
		if a == "--bdump="+name {
			return true
		}
		if a == "--bdump" {
			derived = true
		}
	}
	if derived {
		for _, a := range run.Argv {
			if strings.HasSuffix(a, ".bcl") && name == strings.TrimSuffix(a, ".bcl")+".bcb" {
				return true
			}
		}
	}
	return false
}

// pausedReader hands its bytes over in pieces with a pause before each later piece.
type pausedReader struct {
	b    []byte
	step int
	n    int
}

func (p *pausedReader) Read(q []byte) (int, error) {
	if len(p.b) == 0 {
		return 0, io.EOF
	}
	if p.n > 0 {
		time.Sleep(25 * time.Millisecond)
	}
	p.n++
	k := p.step
	if k > len(p.b) {
		k = len(p.b)
	}
	if k > len(q) {
		k = len(q)
	}
	copy(q, p.b[:k])
	p.b = p.b[k:]
	return k, nil
}
