package main

import (
	"bytes"
	"fmt"
	"io"
	"math/rand"
	"strings"
	"testing/iotest"

	"github.com/wkhere/bcl"
)

func init() {
	streams["dumpload"] = streamDumpLoad
	streams["truncate"] = streamTruncate
}

// sizeLadderSources: programs whose constants, identifiers and offsets cross the
// varint size classes and the 4096-byte buffers.
func sizeLadderSources(r *rand.Rand, thorough bool) []struct{ name, src string } {
	var out []struct{ name, src string }
	lens := []int{0, 1, 239, 240, 241, 242, 2287, 2288, 2289, 4094, 4095, 4096, 4097, 8192, 67823, 67824, 67825}
	for _, n := range lens {
		out = append(out, struct{ name, src string }{"input", `print "` + strings.Repeat("a", n) + `"`})
	}
	for _, n := range []int{240, 241, 2288, 4097} {
		id := strings.Repeat("x", n)
		out = append(out, struct{ name, src string }{"input", "def " + id + " { " + id + " = 1 }\n"})
		out = append(out, struct{ name, src string }{"input", "def t \"" + strings.Repeat("n", n) + "\" { f = NAME }\n"})
	}
	for _, n := range []int{0, 1, 240, 241, 2288, 4095, 4096, 4097, 5000, 70000} {
		out = append(out, struct{ name, src string }{strings.Repeat("N", n), "print 1"})
	}
	// offsets beyond the 1-, 2- and 3-byte varint ranges, many line-table entries
	pads := []int{300, 2300, 68000}
	if thorough {
		pads = append(pads, 1<<24+10)
	}
	for _, n := range pads {
		out = append(out, struct{ name, src string }{"input", "#" + strings.Repeat("c", n) + "\nprint 1 + 2\nprint nosuch\n"})
		out = append(out, struct{ name, src string }{"input", strings.Repeat("\n", n) + "print 1 / 0\n"})
	}
	// every string length up to 400 (scratch-buffer growth in Dump), and pairs of strings
	// where a second, slightly longer one follows a first that already grew the buffer
	for n := 0; n <= 400; n++ {
		out = append(out, struct{ name, src string }{"", `print "` + strings.Repeat("b", n) + `"`})
	}
	for i := 0; i < 60; i++ {
		l1 := 90 + r.Intn(400)
		l2 := l1 + r.Intn(14)
		out = append(out, struct{ name, src string }{"input", `print "` + strings.Repeat("c", l1) + `"` + "\n" + `print "` + strings.Repeat("d", l2) + `"`})
	}
	// many constants (indices ≥ 241 need two bytes)
	var b strings.Builder
	for i := 0; i < 300; i++ {
		fmt.Fprintf(&b, "print %d\n", 1000+i)
	}
	out = append(out, struct{ name, src string }{"input", b.String()})
	// many statements: code, constants and positions sections beyond the 4096-byte write and read
	// buffers, constant indices in the three-byte varint class (and the four-byte one when thorough)
	for _, n := range func() []int {
		if thorough {
			return []int{1400, 2400, 5000, 68000}
		}
		return []int{1400, 2400, 5000}
	}() {
		var b strings.Builder
		for i := 0; i < n; i++ {
			fmt.Fprintf(&b, "print %d\n", 100000+i)
		}
		// the last constants are used again at the end: operands in the highest class reached
		fmt.Fprintf(&b, "print %d + %d\n", 100000+n-1, 100000+n-2)
		out = append(out, struct{ name, src string }{"input", b.String()})
	}
	// every varint size boundary in every place of the two tables at the end of a dump: the last
	// newline (last entry of the line table, the very last bytes of the file), the number of
	// newlines, the offset of the last instruction
	for _, b := range []int{239, 240, 241, 2286, 2287, 2288, 67822, 67823, 67824} {
		out = append(out, struct{ name, src string }{"input", "print 1 #" + strings.Repeat("p", b-9) + "\n"})
		out = append(out, struct{ name, src string }{"input", "print 1 #" + strings.Repeat("p", b-9) + "\nprint 2"})
		out = append(out, struct{ name, src string }{"input", strings.Repeat("\n", b) + "print 1 / 0"})
		out = append(out, struct{ name, src string }{"input", strings.Repeat(" ", b-8) + "print 1 / 0"})
	}
	// every float class
	out = append(out, struct{ name, src string }{"input", "print 0.0 print 5e-324 print 1.7976931348623157e308 print 2.2250738585072014e-308 print 0.1 print 1e22 print -0.0\n"})
	out = append(out, struct{ name, src string }{"input", "print 9223372036854775807 print -9223372036854775807 - 1 print 0x7fffffffffffffff print -1 print 240 print 241 print 2288 print 67824\n"})
	return out
}

func runAll(prog *bcl.Prog, out, log *capBuf) string {
	res, binding, err := bcl.Execute(prog)
	e := "-"
	if err != nil {
		e = err.Error()
	}
	s := fmt.Sprintf("err=%q out=%q log=%q blocks=%s binding=%s", e, out.String(), log.String(), fmtBlocks(res), fmtBinding(binding))
	out.Reset()
	log.Reset()
	return s
}

// checkDumpLoad is the direct oracle of C09 on one accepted program.
func checkDumpLoad(res *Result, d *Driver, r *rand.Rand, name string, src []byte) {
	var writeSizes string
	verdict := guarded(opTimeout, func() string {
		var out, log capBuf
		prog, err := bcl.Parse(src, name, bcl.OptOutput(&out), bcl.OptLogger(&log), bcl.OptDisasm(true))
		if err != nil {
			return "rejected"
		}
		disasm0 := out.String()
		out.Reset()
		dump, err := dumpOf(prog)
		if err != nil {
			return "FAIL Dump returned an error: " + err.Error()
		}
		readers := []struct {
			kind string
			mk   func() io.Reader
		}{
			{"whole", func() io.Reader { return bytes.NewReader(dump) }},
			{"onebyte", func() io.Reader { return iotest.OneByteReader(bytes.NewReader(dump)) }},
			{"half", func() io.Reader { return iotest.HalfReader(bytes.NewReader(dump)) }},
			{"dataerr", func() io.Reader { return iotest.DataErrReader(bytes.NewReader(dump)) }},
			{"random", func() io.Reader { return &randReader{r: rand.New(rand.NewSource(r.Int63())), b: dump} }},
		}
		sizes := dumpWriteSizes(prog, dump)
		if sizes == "" {
			return "FAIL a second Dump of the same program fails or writes other bytes"
		}
		writeSizes = sizes
		exec0 := runAll(prog, &out, &log)
		for _, rd := range readers {
			var out2, log2 capBuf
			// the name given to LoadProg is only a default: the dump's own name (also an empty one) wins
			p2, err := bcl.LoadProg(rd.mk(), "name-given-at-load-time", bcl.OptOutput(&out2), bcl.OptLogger(&log2), bcl.OptDisasm(true))
			if err != nil {
				return fmt.Sprintf("FAIL LoadProg(%s reader) of a fresh dump: %v", rd.kind, err)
			}
			if out2.String() != disasm0 {
				return fmt.Sprintf("FAIL disassembly of the loaded program differs (%s reader)", rd.kind)
			}
			out2.Reset()
			d2, err := dumpOf(p2)
			if err != nil || !bytes.Equal(d2, dump) {
				return fmt.Sprintf("FAIL dump of the loaded program differs (%s reader) err=%v", rd.kind, err)
			}
			if e := runAll(p2, &out2, &log2); e != exec0 {
				return fmt.Sprintf("FAIL execution of the loaded program differs (%s reader): %.300s vs %.300s", rd.kind, e, exec0)
			}
			res.Count("reader."+rd.kind, 1)
		}
		return "ok " + hxe(dump)
	})
	res.Eval(1)
	switch {
	case verdict == "rejected":
		res.Count("rejected", 1)
		return
	case strings.HasPrefix(verdict, "ok "):
		dump := verdict[3:]
		res.Count("accepted", 1)
		res.Count(fmt.Sprintf("dumpsize.2^%d", bitlen(len(dump)/2)), 1)
		res.Nontrivial(dump)
		// model: the Lean decoder of the documented format must recover the same parts
		if len(dump) < 400000 {
			op := "LOAD " + dump
			impl := implLoad(unhx(dump))
			model := ask(d, op)
			res.Eval(1)
			if impl != model {
				res.Fail(Failure{Kind: "model-diff", Op: trunc(op, 2000), Input: trunc(string(src), 2000), Impl: trunc(impl, 2000), Model: trunc(model, 2000),
					Note: "LOAD: the parts recovered from a real dump differ between implementation and model"})
			} else {
				checkLoadPieces(res, d, r, unhx(dump), impl, "dump of "+trunc(string(src), 300))
				if len(dump) < 120000 {
					checkDumpWrites(res, d, writeSizes, dump, "dump of "+trunc(string(src), 300))
				}
			}
		}
	default:
		res.Fail(Failure{Kind: "oracle", Input: fmt.Sprintf("name=%q source=%s", trunc(name, 100), trunc(string(src), 2000)), Impl: verdict,
			Expected: "Dump succeeds; LoadProg of the dump (however it is read) gives the same disassembly, dump bytes and execution"})
	}
}

func trunc(s string, n int) string {
	if len(s) > n {
		return s[:n] + fmt.Sprintf("…(%d bytes)", len(s))
	}
	return s
}

func bitlen(n int) int {
	k := 0
	for n > 0 {
		k++
		n >>= 1
	}
	return k
}

// writeRecorder records the size of every Write it receives.
type writeRecorder struct {
	sizes []int
	buf   bytes.Buffer
}

func (w *writeRecorder) Write(p []byte) (int, error) {
	w.sizes = append(w.sizes, len(p))
	return w.buf.Write(p)
}

// dumpWriteSizes: the sizes of the writes Dump hands to its destination, "" if Dump fails or
// writes other bytes than dump.
func dumpWriteSizes(prog *bcl.Prog, dump []byte) string {
	var rec writeRecorder
	if err := prog.Dump(&rec); err != nil || !bytes.Equal(rec.buf.Bytes(), dump) {
		return ""
	}
	return intsCSV(rec.sizes)
}

// checkDumpWrites compares the sequence of writes Dump hands to its destination with the model
// of Dump over bufio.Writer (op DUMPW): same sizes in the same order, same bytes.
func checkDumpWrites(res *Result, d *Driver, sizes string, dumpHex string, what string) {
	impl := "ok " + sizes + " same"
	model := ask(d, "DUMPW "+dumpHex)
	res.Eval(1)
	res.Count("dumpwrites.model-vs-impl", 1)
	if impl != model {
		res.Fail(Failure{Kind: "model-diff", Op: trunc("DUMPW "+dumpHex, 2000), Input: what, Impl: trunc(impl, 1000), Model: trunc(model, 1000),
			Note: "DUMPW: the writes Dump hands to its destination differ between implementation and model of bufio.Writer"})
	}
}

// pieceReader hands over a fixed list of pieces, one per Read (or the first len(p) bytes of the
// piece in front, the remainder staying in front); an empty piece is a read of zero bytes with
// a nil error; after the last piece every Read is (0, io.EOF).  This is the underlying reader
// of the Lean model of Load over bufio.Reader (Model/Bufio.lean, op LOADC).
type pieceReader struct{ pieces [][]byte }

func (pr *pieceReader) Read(p []byte) (int, error) {
	if len(pr.pieces) == 0 {
		return 0, io.EOF
	}
	c := pr.pieces[0]
	n := copy(p, c)
	if n < len(c) {
		pr.pieces[0] = c[n:]
	} else {
		pr.pieces = pr.pieces[1:]
	}
	return n, nil
}

// cutPieces cuts bs into pieces: sizes drawn from a mix (single bytes, a few bytes, around the
// 4096-byte buffer, large), optionally with empty pieces in between (never 100 in a row).
func cutPieces(r *rand.Rand, bs []byte, empties bool) [][]byte {
	var out [][]byte
	mode := r.Intn(5)
	for len(bs) > 0 {
		var n int
		switch mode {
		case 0:
			n = 1
		case 1:
			n = 1 + r.Intn(9)
		case 2:
			n = []int{4095, 4096, 4097, 8192, 1, 2, 9, 4087, 4088}[r.Intn(9)]
		case 3:
			n = 1 + r.Intn(len(bs))
		default:
			n = []int{1, 2, 3, 8, 9, 10, 100, 4096, 5000}[r.Intn(9)]
		}
		if n > len(bs) {
			n = len(bs)
		}
		if empties && r.Intn(4) == 0 {
			for k := r.Intn(3); k >= 0; k-- {
				out = append(out, []byte{})
			}
		}
		out = append(out, append([]byte(nil), bs[:n]...))
		bs = bs[n:]
	}
	if empties && r.Intn(2) == 0 {
		out = append(out, []byte{})
	}
	return out
}

func copyPieces(ps [][]byte) [][]byte {
	out := make([][]byte, len(ps))
	copy(out, ps)
	return out
}

// implLoadPieces: LoadProg from a pieceReader.
func implLoadPieces(ps [][]byte) string {
	return guarded(opTimeout, func() string {
		prog, err := bcl.LoadProg(&pieceReader{copyPieces(ps)}, "x", bcl.OptOutput(io.Discard), bcl.OptLogger(io.Discard))
		if err != nil {
			return "err " + loadErrClass(err)
		}
		return "ok " + fmtParts(prog)
	})
}

func piecesArg(ps [][]byte) string {
	if len(ps) == 0 {
		return "."
	}
	parts := make([]string, len(ps))
	for i, c := range ps {
		if len(c) == 0 {
			parts[i] = "-"
		} else {
			parts[i] = hx(c)
		}
	}
	return strings.Join(parts, ",")
}

// checkLoadPieces compares Load over the buffered reader, model against implementation, on the
// same list of pieces (op LOADC), and both against the whole-input answer.
func checkLoadPieces(res *Result, d *Driver, r *rand.Rand, bs []byte, whole string, what string) {
	for k := 0; k < 2; k++ {
		ps := cutPieces(r, bs, k == 1)
		impl := implLoadPieces(ps)
		model := ask(d, "LOADC "+piecesArg(ps))
		res.Eval(1)
		res.Count("pieces.model-vs-impl", 1)
		if impl != model {
			res.Fail(Failure{Kind: "model-diff", Op: trunc("LOADC "+piecesArg(ps), 2000), Input: what, Impl: trunc(impl, 1000), Model: trunc(model, 1000),
				Note: "LOADC: Load through the buffered reader, piece by piece, differs between implementation and model"})
			return
		}
		if impl != whole {
			res.Fail(Failure{Kind: "oracle", Input: what + " pieces=" + trunc(piecesArg(ps), 2000), Impl: trunc(impl, 1000), Expected: trunc(whole, 1000),
				Note: "Load depends on how the reader hands the bytes over"})
			return
		}
	}
}

type randReader struct {
	r *rand.Rand
	b []byte
}

func (rr *randReader) Read(p []byte) (int, error) {
	if len(rr.b) == 0 {
		return 0, io.EOF
	}
	n := 1 + rr.r.Intn(37)
	if rr.r.Intn(8) == 0 {
		n = 4096
	}
	if n > len(rr.b) {
		n = len(rr.b)
	}
	if n > len(p) {
		n = len(p)
	}
	copy(p, rr.b[:n])
	rr.b = rr.b[n:]
	return n, nil
}

func streamDumpLoad(ctx *Ctx) *Result {
	res := NewResult("dumpload", "accepted programs (random typed programs + size-class ladder: strings/identifiers/names at 240/241, 2287/2288, 4095-4097, 67823/67824, offsets in every varint class) dumped, loaded through 5 kinds of reader, re-dumped, disassembled and executed; non-trivial = accepted; distinct by dump bytes")
	ladder := sizeLadderSources(rand.New(rand.NewSource(ctx.Seed)), ctx.Tier == "thorough")
	parallel(ctx.Pool, ctx.Seed, len(ladder), func(i int, r *rand.Rand, d *Driver) {
		checkDumpLoad(res, d, r, ladder[i].name, []byte(ladder[i].src))
		res.Count("ladder", 1)
	})
	// a Prog value that already holds a program receives another file through Load: afterwards it is
	// that file's program, whatever it held before (families: the same code with other constants, the
	// same text under another layout, the same program again, an unrelated program)
	parallel(ctx.Pool, ctx.Seed+9, ctx.N(120), func(i int, r *rand.Rand, d *Driver) {
		k := 2 + r.Intn(7000)
		mk := func(v int, lay string) string {
			return fmt.Sprintf("def t {%sport = %d%shost = \"h%d\"%s}%sprint %d + 2", lay, v, lay, v, lay, lay, v)
		}
		var seq []string
		switch i % 4 {
		case 0:
			seq = []string{mk(k, " "), mk(k+100, " ")}
		case 1:
			seq = []string{mk(k, " "), mk(k, "\n\n ")}
		case 2:
			seq = []string{mk(k, " "), mk(k, " "), mk(k+1, "\n")}
		default:
			g := NewGen(r)
			g.ErrRate = 0
			seq = []string{mk(k, " "), Render(g.Program(1+r.Intn(4)), r, false), mk(k+5, " ")}
		}
		v := guarded(opTimeout, func() string {
			var prog *bcl.Prog
			var out, log capBuf
			for j, src := range seq {
				p0, err := bcl.Parse([]byte(src), "input", bcl.OptOutput(io.Discard), bcl.OptLogger(io.Discard))
				if err != nil {
					return "skip"
				}
				dump, err := dumpOf(p0)
				if err != nil {
					return "FAIL Dump: " + err.Error()
				}
				if prog == nil {
					prog, err = bcl.LoadProg(bytes.NewReader(dump), "input", bcl.OptOutput(&out), bcl.OptLogger(&log))
				} else {
					err = prog.Load(bytes.NewReader(dump))
				}
				if err != nil {
					return fmt.Sprintf("FAIL load %d of the sequence: %v", j, err)
				}
				d2, err := dumpOf(prog)
				if err != nil || !bytes.Equal(d2, dump) {
					return fmt.Sprintf("FAIL after load %d of the sequence the Prog dumps other bytes than the file it was given (err=%v)", j, err)
				}
				var o2, l2 capBuf
				fresh, err := bcl.LoadProg(bytes.NewReader(dump), "input", bcl.OptOutput(&o2), bcl.OptLogger(&l2))
				if err != nil {
					return "FAIL fresh load: " + err.Error()
				}
				if a, b := runAll(prog, &out, &log), runAll(fresh, &o2, &l2); a != b {
					return fmt.Sprintf("FAIL after load %d of the sequence the Prog runs differently from a fresh load of the same file: %.300s vs %.300s", j, a, b)
				}
			}
			return "ok"
		})
		res.Eval(1)
		res.Count("reload-sequence."+strings.SplitN(v, " ", 2)[0], 1)
		if v != "ok" && v != "skip" {
			res.Fail(Failure{Kind: "oracle", Input: fmt.Sprintf("LoadProg then (*Prog).Load over the same Prog, files compiled from: %q", seq), Impl: v,
				Expected: "a bytecode file means the same whatever the receiving Prog held before: same dump bytes, same execution as a fresh load"})
		}
	})
	parallel(ctx.Pool, ctx.Seed+7, ctx.N(800), func(i int, r *rand.Rand, d *Driver) {
		g := NewGen(r)
		g.MaxDepth = 1 + r.Intn(5)
		g.ErrRate = 30
		ss := g.Program(1 + r.Intn(8))
		src := Render(ss, r, r.Intn(3) == 0)
		checkDumpLoad(res, d, r, "input", []byte(src))
		if i < 2 {
			res.Sample(src)
		}
	})
	return res
}

// streamTruncate: every proper prefix of every dump must be rejected with an error (C13).
func streamTruncate(ctx *Ctx) *Result {
	res := NewResult("truncate", "every cut point 0..len-1 of dumps of accepted programs, each read whole and one byte at a time; plus wrong magic values and version pairs; non-trivial = a (dump, cut) pair; distinct by prefix bytes")
	check := func(d *Driver, what string, bs []byte, wantErr bool, withModel bool) {
		v := guarded(opTimeout, func() string {
			_, err1 := bcl.LoadProg(bytes.NewReader(bs), "x", bcl.OptOutput(io.Discard), bcl.OptLogger(io.Discard))
			_, err2 := bcl.LoadProg(iotest.OneByteReader(bytes.NewReader(bs)), "x", bcl.OptOutput(io.Discard), bcl.OptLogger(io.Discard))
			if (err1 == nil) != (err2 == nil) {
				return fmt.Sprintf("FAIL whole-read and one-byte-read disagree: %v / %v", err1, err2)
			}
			// the same with the disassembly option: a program that failed to load is not disassembled
			var sink capBuf
			_, err3 := bcl.LoadProg(bytes.NewReader(bs), "x", bcl.OptOutput(&sink), bcl.OptLogger(io.Discard), bcl.OptDisasm(true))
			if (err1 == nil) != (err3 == nil) {
				return fmt.Sprintf("FAIL LoadProg with and without OptDisasm disagree: %v / %v", err1, err3)
			}
			if err3 != nil && sink.Len() != 0 {
				return fmt.Sprintf("FAIL a failed load wrote %d bytes of disassembly", sink.Len())
			}
			if err1 == nil {
				return "accepted"
			}
			return "error"
		})
		res.Eval(1)
		if wantErr && v != "error" {
			res.Fail(Failure{Kind: "oracle", Input: what + " bytes=" + hx(bs), Impl: v, Expected: "LoadProg returns a non-nil error (no panic, no hang, no accepted program)"})
			return
		}
		if !withModel {
			return
		}
		impl := implLoad(bs)
		model := ask(d, "LOAD "+hx(bs))
		if impl != model {
			res.Fail(Failure{Kind: "model-diff", Op: "LOAD " + hx(bs), Input: what, Impl: trunc(impl, 1000), Model: trunc(model, 1000), Note: "LOAD of a damaged dump"})
		} else if len(bs)%7 == 3 || len(bs) < 40 {
			checkLoadPieces(res, d, rand.New(rand.NewSource(int64(len(bs))*7919+int64(len(what)))), bs, impl, what)
		}
	}
	nprogs := ctx.N(120)
	parallel(ctx.Pool, ctx.Seed, nprogs, func(i int, r *rand.Rand, d *Driver) {
		g := NewGen(r)
		g.MaxDepth = 1 + r.Intn(4)
		g.ErrRate = 40
		var dump []byte
		var src string
		heavy := false
		for try := 0; try < 20 && dump == nil; try++ {
			ss := g.Program(1 + r.Intn(6))
			src = Render(ss, r, false)
			if i%10 == 0 {
				src = `print "` + strings.Repeat("s", []int{241, 2288, 300, 5000}[r.Intn(4)]) + `"` + "\n" + src
			}
			if i%10 == 1 {
				// newlines far into the source: multi-byte entries at the very end of the dump
				src = "#" + strings.Repeat("c", []int{240, 2290, 67830}[r.Intn(3)]) + "\n" + src + "\n"
			}
			if i%40 == 3 {
				// more entries in the line table and in the positions table than any fixed-size
				// preallocation holds (4 096): thousands of short lines
				n := []int{4097, 4200, 5000}[r.Intn(3)]
				heavy = true
				src = strings.Repeat("\n", n/2) + strings.Repeat("eval 1\n", n/2) + src
				res.Count("many-lines", 1)
			}
			if i%10 == 2 {
				// the last newline exactly at, just below and just above every varint size boundary:
				// its offset is the last entry of the line table, the very last bytes of the dump
				b := []int{239, 240, 241, 2286, 2287, 2288, 67822, 67823, 67824}[r.Intn(9)]
				body := strings.TrimRight(src, "\n\r ")
				if !strings.Contains(body, "\"") && len(body)+2 < b {
					src = body + " #" + strings.Repeat("p", b-len(body)-2) + "\n"
					res.Count("lastnewline.at."+fmt.Sprint(b), 1)
				}
			}
			prog, err := bcl.Parse([]byte(src), "input", bcl.OptOutput(io.Discard), bcl.OptLogger(io.Discard))
			if err == nil {
				dump, _ = dumpOf(prog)
			}
		}
		if dump == nil {
			return
		}
		res.Count("dumps", 1)
		step := 1
		if len(dump) > 1500 {
			step = 1 + len(dump)/700 // long dumps: sample the middle, keep both ends dense
		}
		for k := 0; k < len(dump); k++ {
			if step > 1 && k > 200 && k < len(dump)-200 && k%step != 0 {
				continue
			}
			check(d, fmt.Sprintf("prefix of length %d of the %d-byte dump of %q", k, len(dump), trunc(src, 300)), dump[:k], true, !heavy || k%24 == 0 || k > len(dump)-12)
			res.Nontrivial(fmt.Sprintf("%x|%d", dump, k))
			res.Count("cuts", 1)
		}
		if i < 2 {
			res.Sample(fmt.Sprintf("dump of %q: %d bytes, every cut point", trunc(src, 200), len(dump)))
		}
	})
	// header damage
	small, _ := bcl.Parse([]byte("print 1"), "x")
	sd, _ := dumpOf(small)
	nm := ctx.N(3000)
	if nm > 65536 {
		nm = 65536
	}
	parallel(ctx.Pool, ctx.Seed+1, nm, func(i int, r *rand.Rand, d *Driver) {
		v := i
		if nm < 65536 {
			v = r.Intn(65536)
		}
		b := append([]byte(nil), sd...)
		b[0], b[1] = byte(v>>8), byte(v)
		check(d, fmt.Sprintf("magic %04x", v), b, v != 0xFC6C, true)
		res.Count("magic", 1)
		b = append([]byte(nil), sd...)
		b[2], b[3] = byte(v>>8), byte(v)
		check(d, fmt.Sprintf("version %d.%d", b[2], b[3]), b, !(b[2] == 1 && b[3] <= 1), true)
		res.Count("version", 1)
	})
	return res
}
