package main

import (
	"bytes"
	"encoding/hex"
	"fmt"
	"math"
	"regexp"
	"sort"
	"strconv"
	"strings"

	"github.com/wkhere/bcl"
)

func hx(b []byte) string {
	if len(b) == 0 {
		return "-"
	}
	return hex.EncodeToString(b)
}
func hxs(s string) string { return hx([]byte(s)) }
func hxe(b []byte) string { return hex.EncodeToString(b) }

func unhx(s string) []byte {
	if s == "-" {
		return nil
	}
	b, err := hex.DecodeString(s)
	if err != nil {
		panic(err)
	}
	return b
}

func fmtVal(v any) string {
	switch x := v.(type) {
	case nil:
		return "n"
	case bool:
		if x {
			return "b1"
		}
		return "b0"
	case int:
		return "i" + strconv.Itoa(x)
	case float64:
		if math.IsNaN(x) {
			return "fNaN"
		}
		return "f" + strconv.FormatUint(math.Float64bits(x), 10)
	case string:
		return "s" + hxe([]byte(x))
	case bcl.Block:
		return fmtBlock(x)
	default:
		return fmt.Sprintf("?%T", v)
	}
}

func fmtBlock(b bcl.Block) string {
	keys := make([]string, 0, len(b.Fields))
	for k := range b.Fields {
		keys = append(keys, k)
	}
	sort.Strings(keys)
	parts := make([]string, len(keys))
	for i, k := range keys {
		parts[i] = hxs(k) + "=" + fmtVal(b.Fields[k])
	}
	return "B(" + hxs(b.Type) + "," + hxs(b.Name) + ",[" + strings.Join(parts, ";") + "])"
}

func fmtBlocks(bs []bcl.Block) string {
	parts := make([]string, len(bs))
	for i, b := range bs {
		parts[i] = fmtBlock(b)
	}
	return strings.Join(parts, "+")
}

func fmtBinding(b bcl.Binding) string {
	switch x := b.(type) {
	case nil:
		return "nil"
	case bcl.StructBinding:
		return "struct:" + fmtBlock(x.Value)
	case bcl.SliceBinding:
		return "slice:" + fmtBlocks(x.Value)
	default:
		return fmt.Sprintf("?%T", b)
	}
}

var reUnknownChar = regexp.MustCompile(`(unknown char U\+[0-9A-F]+) '[^\n]*'\n`)

// canonLog removes the quoted glyph of "unknown char" messages: it depends on
// Unicode printability tables that the model does not contain.
func canonLog(b []byte) []byte {
	return reUnknownChar.ReplaceAll(b, []byte("$1\n"))
}

var rePStats = regexp.MustCompile(`(?s)pstats\.tokens: +(\d+)\npstats\.localMax: +(\d+)\npstats\.depthMax: +(\d+)\npstats\.constants: +(\d+)\npstats\.opsCreated: +(\d+)\npstats\.codeBytes: +(\d+)\n$`)
var reXStats = regexp.MustCompile(`(?s)xstats\.tosMax: +(\d+)\nxstats\.blockTosMax: *(\d+)\nxstats\.opsRead: +(\d+)\nxstats\.pcFinal: +(\d+)\n$`)

// splitStats cuts the trailing statistics block off the output text.
func splitStats(re *regexp.Regexp, out []byte) (rest []byte, stats string, ok bool) {
	loc := re.FindSubmatchIndex(out)
	if loc == nil {
		return out, "", false
	}
	var nums []string
	for i := 2; i < len(loc); i += 2 {
		nums = append(nums, string(out[loc[i]:loc[i+1]]))
	}
	return out[:loc[0]], strings.Join(nums, ","), true
}

func intsCSV(xs []int) string {
	parts := make([]string, len(xs))
	for i, x := range xs {
		parts[i] = strconv.Itoa(x)
	}
	return strings.Join(parts, ",")
}

func fmtParts(p *bcl.Prog) string {
	name, code, consts, positions, lfs := bcl.VerifProgParts(p)
	cs := make([]string, len(consts))
	for i, c := range consts {
		cs[i] = fmtVal(c)
	}
	return fmt.Sprintf("name=%s code=%s consts=%s pos=%s lfs=%s",
		hxs(name), hx(code), strings.Join(cs, ","), intsCSV(positions), intsCSV(lfs))
}

func dumpOf(p *bcl.Prog) ([]byte, error) {
	var b bytes.Buffer
	err := p.Dump(&b)
	return b.Bytes(), err
}
