package main

// Stream "race" — property C12: no data race inside the file-based pipeline
// (reader, lexer and parser goroutines), and no interference between independent
// calls or between concurrent executions of one shared Prog.
//
// HOW TO RUN IT UNDER THE RACE DETECTOR
//
//	cd /verif/harness
//	export GOFLAGS=-mod=mod GOPROXY=off GOSUMDB=off GOTOOLCHAIN=local
//	go build -race -tags verif -o bclh-race .
//	GORACE="halt_on_error=0 exitcode=66 log_path=/tmp/bclh-race.log" \
//	    ./bclh-race run race -seed 1 -tier quick -drivers 1 -out race.json
//
// The detector appends its reports ("WARNING: DATA RACE" + both stacks) to
// <log_path>.<pid>; with halt_on_error=0 the run continues after a report.
// Exit status: 0 = clean; 1 = failures in the JSON (with log_path set, race
// reports are among them, see below); 66 = the detector reported something but
// no failure was recorded (the Go runtime applies exitcode only to an exit with
// status 0).  The verdict of a -race run is therefore: exit status 0, zero
// failures in the JSON, and no file <log_path>.* containing "WARNING: DATA RACE".
// Without log_path the reports go to stderr.
//
// The stream is usable both ways:
//   - in a normal build it checks results only: what the concurrent calls return
//     must equal what the same calls return when made one at a time;
//   - built with -race (race_on.go sets raceEnabled; the distribution then has
//     "race-detector-enabled") the detector watches the same executions.  When
//     GORACE carries a log_path the stream also looks at its own log file after
//     every scenario and turns new reports into failures that name the scenario
//     (distribution key "race-reports"); the caller should still read the log.
//
// Scenarios (all inputs and scripts derive from the seed):
//
//	(a) pipeline: ParseFile on a scripted file — inputs with thousands of
//	    syntax errors (lines like `print )`) delivered in reads of 1..64 bytes,
//	    so the parser formats positions of diagnostics while the lexer is adding
//	    later chunks to the line table; valid multi-page inputs; inputs with an
//	    early lexical failure and pages of input left.  Several such calls run at
//	    the same time.  Each result must equal Parse of the whole input.
//	(b) independent calls: N goroutines parse (Parse or ParseFile) and execute
//	    different generated programs concurrently, for several rounds; dump
//	    bytes, output, diagnostics, blocks, binding and error of every call must
//	    equal those of the same call made alone beforehand.
//	(c) shared Prog: one *Prog, whose output and log writers are safe for
//	    concurrent use, is executed by N goroutines at once (some with tracing);
//	    each call's blocks, binding and error must equal those of an execution
//	    made alone, everything written must be exactly (number of executions) ×
//	    what one execution writes (compared as multisets of Write calls), and
//	    Dump of the Prog is byte-identical before and after.

import (
	"bytes"
	"fmt"
	"math/rand"
	"os"
	"regexp"
	"sort"
	"strings"
	"sync"
	"time"

	"github.com/wkhere/bcl"
)

func init() {
	streams["race"] = streamRace
}

const raceWatchdog = 120 * time.Second

var reOpsCreated = regexp.MustCompile(`pstats\.opsCreated: +(\d+)`)

// ---------- the detector's log ----------

type raceLog struct {
	path string
	seen int
}

func newRaceLog() *raceLog {
	if !raceEnabled {
		return nil
	}
	for _, kv := range strings.Fields(os.Getenv("GORACE")) {
		if v, ok := strings.CutPrefix(kv, "log_path="); ok && v != "" && v != "stderr" && v != "stdout" {
			l := &raceLog{path: fmt.Sprintf("%s.%d", v, os.Getpid())}
			l.fresh()
			return l
		}
	}
	return nil
}

// fresh returns the reports written since the last call.
func (l *raceLog) fresh() string {
	if l == nil {
		return ""
	}
	b, err := os.ReadFile(l.path)
	if err != nil || len(b) <= l.seen {
		return ""
	}
	s := string(b[l.seen:])
	l.seen = len(b)
	return s
}

func checkRaceLog(res *Result, l *raceLog, scenario, input string) {
	s := l.fresh()
	if n := strings.Count(s, "WARNING: DATA RACE"); n > 0 {
		res.Count("race-reports", n)
		if len(s) > 6000 {
			s = s[:6000] + "…"
		}
		res.Fail(Failure{Kind: "oracle", Op: scenario, Input: input, Impl: s,
			Expected: "no data race report from the race detector", Note: "reports are attributed to the scenario during which they were written"})
	}
}

// ---------- writers ----------

// raceWrites is a writer safe for concurrent use; it keeps every Write call.
type raceWrites struct {
	mu sync.Mutex
	ws []string
}

func (w *raceWrites) Write(p []byte) (int, error) {
	w.mu.Lock()
	w.ws = append(w.ws, string(p))
	w.mu.Unlock()
	return len(p), nil
}

func (w *raceWrites) snapshot() []string {
	w.mu.Lock()
	defer w.mu.Unlock()
	return append([]string(nil), w.ws...)
}

func raceMultiset(ws []string) map[string]int {
	m := map[string]int{}
	for _, s := range ws {
		m[s]++
	}
	return m
}

// ---------- one parse+execute, as a canonical line ----------

type raceJob struct {
	src    []byte
	steps  []rstep // nil: Parse on the bytes; else ParseFile on a scripted file
	trace  bool
	disasm bool
}

func (j *raceJob) describe() string {
	how := "Parse"
	if j.steps != nil {
		how = "ParseFile, reader script: " + scriptString(j.steps)
	}
	return fmt.Sprintf("%s (disasm=%v) then Execute (trace=%v)\nsource (%d bytes): %q", how, j.disasm, j.trace, len(j.src), j.src)
}

func (j *raceJob) run() string {
	s, _ := j.runLate()
	return s
}

// runLate also returns a function that renders the returned blocks and binding again
// later: results a caller still holds must not change when other calls run.
func (j *raceJob) runLate() (string, func() string) {
	var out, log bytes.Buffer
	opts := []bcl.Option{bcl.OptOutput(&out), bcl.OptLogger(&log), bcl.OptDisasm(j.disasm), bcl.OptStats(true)}
	var prog *bcl.Prog
	var err error
	if j.steps == nil {
		prog, err = bcl.Parse(j.src, "input", opts...)
	} else {
		f := newScriptFile(j.src, append([]rstep(nil), j.steps...))
		prog, err = bcl.ParseFile(f, opts...)
	}
	if err != nil {
		return fmt.Sprintf("parse err=%q out=%q log=%q", err.Error(), out.Bytes(), log.Bytes()), nil
	}
	d, derr := dumpOf(prog)
	head := fmt.Sprintf("parse ok dump=%x dumperr=%v out=%q log=%q", d, derr, out.Bytes(), log.Bytes())
	out.Reset()
	log.Reset()
	blocks, binding, err := bcl.Execute(prog, bcl.OptOutput(&out), bcl.OptTrace(j.trace), bcl.OptStats(true))
	e := "-"
	if err != nil {
		e = err.Error()
	}
	late := func() string { return fmt.Sprintf("blocks=%s binding=%s", fmtBlocks(blocks), fmtBinding(binding)) }
	return fmt.Sprintf("%s | exec err=%q out=%q log=%q %s", head, e, out.Bytes(), log.Bytes(), late()), late
}

// raceSmallReads is a script of reads of lo..hi bytes with occasional empty reads and yields.
func raceSmallReads(r *rand.Rand, n, lo, hi int, yields bool) []rstep {
	var steps []rstep
	for off := 0; off < n; {
		if r.Intn(40) == 0 {
			steps = append(steps, rstep{n: 0})
			continue
		}
		k := lo + r.Intn(hi-lo+1)
		if k > n-off {
			k = n - off
		}
		s := rstep{n: k}
		if yields && r.Intn(8) == 0 {
			s.yield = 1
		}
		steps = append(steps, s)
		off += k
	}
	if len(steps) > 0 && r.Intn(2) == 0 {
		steps[len(steps)-1].eof = true
	}
	return steps
}

var manyErrLines = []string{"print )\n", "print )\n", "var 1\n", "eval\n", "print 1 +\n", "def {\n", "print (1\n", "= 3\n", "print nosuch\n", "var a = \"\\q\"\n", "print 08\n", "bind 1\n"}

func manyErrorsSource(r *rand.Rand, lines int) []byte {
	var b bytes.Buffer
	mixed := r.Intn(2) == 0
	for i := 0; i < lines; i++ {
		switch {
		case !mixed:
			b.WriteString("print )\n")
		case r.Intn(6) == 0:
			fmt.Fprintf(&b, "print %d # fine\n", i)
		default:
			b.WriteString(manyErrLines[r.Intn(len(manyErrLines))])
		}
	}
	return b.Bytes()
}

// ---------- the stream ----------

func streamRace(ctx *Ctx) *Result {
	res := NewResult("race", "concurrent executions of the library: (a) ParseFile pipelines on inputs with thousands of syntax errors in reads of 1..64 bytes, valid multi-page inputs, early lexical failures, four at a time; (b) N goroutines parsing and executing different programs, compared with the same calls made alone; (c) one shared Prog executed by N goroutines; non-trivial = (a) ≥ 100 reads and (many-errors) ≥ 1000 diagnostics, (b) a program that compiles to ≥ 3 opcodes, (c) a program whose execution writes something or defines a block; distinct by input")
	rl := newRaceLog()
	if raceEnabled {
		res.Count("race-detector-enabled", 1)
		if rl != nil {
			res.Count("race-log-watched", 1)
		}
	}
	id, ok, pan := protoWatchdogRun(raceWatchdog*time.Duration(ctx.Scale), func() {
		for round := 0; round < ctx.Scale; round++ {
			seed := ctx.Seed*1000003 + int64(round)*7919
			tag := fmt.Sprintf("stream race -seed %d, round %d", ctx.Seed, round)
			t0 := time.Now()
			racePipeline(res, rl, seed, tag)
			t1 := time.Now()
			raceIndependent(res, rl, seed+1, tag)
			t2 := time.Now()
			raceShared(res, rl, seed+2, tag)
			res.Count("elapsed-ms.a-pipeline", int(t1.Sub(t0).Milliseconds()))
			res.Count("elapsed-ms.b-independent", int(t2.Sub(t1).Milliseconds()))
			res.Count("elapsed-ms.c-shared", int(time.Since(t2).Milliseconds()))
		}
	})
	if !ok {
		res.Fail(Failure{Kind: "oracle", Op: "race", Input: fmt.Sprintf("seed=%d", ctx.Seed),
			Impl:     "the scenarios did not finish in time; goroutines:\n" + labelledStacks(id),
			Expected: "all calls return"})
	}
	if pan != "" {
		res.Fail(Failure{Kind: "oracle", Op: "race", Input: fmt.Sprintf("seed=%d", ctx.Seed), Impl: pan, Expected: "no panic"})
	}
	checkRaceLog(res, rl, "race (end of stream)", fmt.Sprintf("seed=%d", ctx.Seed))
	return res
}

// (a) pipelines
func racePipeline(res *Result, rl *raceLog, seed int64, tag string) {
	type pcase struct {
		kind  string
		ps    *protoSrc
		steps []rstep
	}
	r := rand.New(rand.NewSource(seed))
	var cases []pcase
	gstats := map[string]int{}
	for i := 0; i < 60; i++ {
		var c pcase
		switch i % 3 {
		case 0:
			c.kind = "many-errors"
			c.ps = &protoSrc{Src: manyErrorsSource(r, 1000+r.Intn(2500)), Focus: -1}
			c.ps.refParse()
			hi := []int{64, 64, 16, 8}[r.Intn(4)]
			c.steps = raceSmallReads(r, len(c.ps.Src), 1, hi, r.Intn(2) == 0)
		case 1:
			c.kind = "valid-multipage"
			c.ps = &protoSrc{Src: []byte(protoValidSource(r, 8200+r.Intn(12000), gstats)), Focus: -1}
			c.ps.refParse()
			if r.Intn(2) == 0 {
				c.steps = raceSmallReads(r, len(c.ps.Src), 1, 64, true)
			} else {
				c.steps, _ = genScript(r, c.ps.Src, -1)
				c.steps = raceStripErr(c.steps, len(c.ps.Src))
			}
		default:
			c.kind = "early-lexfail"
			c.ps = protoBuildSource(r, "lexfail-early", gstats)
			c.steps = raceSmallReads(r, len(c.ps.Src), 1, 64, r.Intn(2) == 0)
		}
		cases = append(cases, c)
	}
	// four at a time: the pipelines of different calls also meet each other
	var wg sync.WaitGroup
	sem := make(chan struct{}, 4)
	for i := range cases {
		c := cases[i]
		wg.Add(1)
		sem <- struct{}{}
		go func() {
			defer wg.Done()
			defer func() { <-sem }()
			var out, log bytes.Buffer
			f := newScriptFile(c.ps.Src, append([]rstep(nil), c.steps...))
			prog, err := bcl.ParseFile(f, bcl.OptOutput(&out), bcl.OptLogger(&log))
			res.Eval(1)
			res.Count("pipeline."+c.kind, 1)
			res.Count("pipeline."+c.kind+".reads", f.use().reads)
			ndiag := bytes.Count(log.Bytes(), []byte("\n"))
			res.Count("pipeline."+c.kind+".diagnostics", ndiag)
			switch {
			case err == nil:
				res.Count("pipeline.outcome.ok", 1)
			case c.ps.ErrPos >= 0:
				res.Count("pipeline.outcome.lexical-failure", 1)
			default:
				res.Count("pipeline.outcome.syntax-errors", 1)
			}
			input := fmt.Sprintf("scenario (a) %s, %s; ParseFile, reader script: %s\nsource (%d bytes): %q",
				c.kind, tag, scriptString(c.steps), len(c.ps.Src), c.ps.Src)
			bad := ""
			switch {
			case (err == nil) != c.ps.RefOK:
				bad = fmt.Sprintf("error %v, diagnostics %q", err, log.Bytes())
			case !bytes.Equal(log.Bytes(), c.ps.RefLog):
				bad = fmt.Sprintf("diagnostics %q", log.Bytes())
			case err == nil:
				if d, _ := dumpOf(prog); !bytes.Equal(d, c.ps.RefDump) {
					bad = fmt.Sprintf("dump %x", d)
				}
			}
			if bad != "" {
				res.Fail(Failure{Kind: "oracle", Op: "ParseFile", Input: input, Impl: bad,
					Expected: fmt.Sprintf("as Parse of the whole input: success=%v diagnostics %q dump %x", c.ps.RefOK, c.ps.RefLog, c.ps.RefDump)})
			}
			if f.use().reads >= 100 && (c.kind != "many-errors" || ndiag >= 1000) {
				res.Nontrivial("a|" + string(c.ps.Src))
			}
		}()
	}
	wg.Wait()
	checkRaceLog(res, rl, "race (a) pipeline", fmt.Sprintf("scenario (a), %s: %d ParseFile calls, four at a time (rerun the stream with this seed)", tag, len(cases)))
}

// raceStripErr removes a scripted read error, so that the whole input arrives.
func raceStripErr(steps []rstep, n int) []rstep {
	got := 0
	for i := range steps {
		if steps[i].fail {
			steps[i].fail = false
		}
		got += steps[i].n
	}
	for got < n {
		k := min(4096, n-got)
		steps = append(steps, rstep{n: k})
		got += k
	}
	return steps
}

// (b) independent calls
func raceIndependent(res *Result, rl *raceLog, seed int64, tag string) {
	const workers = 16
	const perWorker = 12
	const rounds = 5
	r := rand.New(rand.NewSource(seed))
	jobs := make([][]*raceJob, workers)
	want := make([][]string, workers)
	for w := range jobs {
		for k := 0; k < perWorker; k++ {
			g := NewGen(r)
			g.MaxDepth = 1 + r.Intn(5)
			src := []byte(Render(g.Program(1+r.Intn(10)), r, r.Intn(3) == 0))
			if r.Intn(5) == 0 {
				src = []byte(protoValidSource(r, 3000+r.Intn(6000), map[string]int{}))
			}
			if r.Intn(3) == 0 {
				// a slice binding of several blocks, unlikely to fail at run time
				src = []byte(fmt.Sprintf("def it \"a%d\" { n = %d }\ndef it \"b\" { n = %d }\ndef other { }\ndef it \"c\" { n = %d }\nbind it:all -> slice\n", r.Intn(100), r.Intn(1000), r.Intn(1000), r.Intn(1000)))
			}
			j := &raceJob{src: src, trace: r.Intn(4) == 0, disasm: r.Intn(3) == 0}
			if r.Intn(2) == 0 {
				j.steps = raceSmallReads(r, len(src), 1, 200, true)
			}
			jobs[w] = append(jobs[w], j)
		}
	}
	// the same calls, one at a time
	for w := range jobs {
		for _, j := range jobs[w] {
			s := j.run()
			want[w] = append(want[w], s)
			res.Eval(1)
			if strings.HasPrefix(s, "parse ok") {
				res.Count("independent.parse-ok", 1)
				if strings.Contains(s, "exec err=\"-\"") {
					res.Count("independent.exec-ok", 1)
				} else {
					res.Count("independent.exec-error", 1)
				}
				if m := reOpsCreated.FindStringSubmatch(s); m != nil && len(m[1]) > 1 || m != nil && m[1] >= "3" {
					res.Nontrivial("b|" + string(j.src))
				}
			} else {
				res.Count("independent.parse-rejected", 1)
			}
			if j.steps != nil {
				res.Count("independent.via-ParseFile", 1)
			} else {
				res.Count("independent.via-Parse", 1)
			}
		}
	}
	var wg sync.WaitGroup
	for w := range jobs {
		wg.Add(1)
		go func(w int) {
			defer wg.Done()
			var heldLate func() string
			var heldWas, heldDesc string
			for round := 0; round < rounds; round++ {
				for k, j := range jobs[w] {
					got, late := j.runLate()
					res.Eval(1)
					// the results of the previous call, still held, are unchanged by this one
					if heldLate != nil {
						if now := heldLate(); now != heldWas {
							res.Fail(Failure{Kind: "oracle", Op: "results held across a later call",
								Input: fmt.Sprintf("scenario (b), %s, goroutine %d: blocks and binding returned by %s, rendered again after the same goroutine made its next call while %d others were running", tag, w, heldDesc, workers-1),
								Impl:  now, Expected: "unchanged: " + heldWas})
						}
					}
					heldLate = late
					if late != nil {
						heldWas, heldDesc = late(), j.describe()
					}
					if got != want[w][k] {
						res.Fail(Failure{Kind: "oracle", Op: "Parse+Execute among concurrent calls",
							Input: fmt.Sprintf("scenario (b), %s, goroutine %d of %d, call %d, repetition %d: %s", tag, w, workers, k, round, j.describe()),
							Impl:  got, Expected: "as the same call made alone: " + want[w][k]})
					}
				}
			}
		}(w)
	}
	wg.Wait()
	res.Count("independent.goroutines", workers)
	checkRaceLog(res, rl, "race (b) independent calls", fmt.Sprintf("scenario (b), %s: %d goroutines × %d programs × %d repetitions (rerun the stream with this seed)", tag, workers, perWorker, rounds))
}

// (c) one shared Prog
func raceShared(res *Result, rl *raceLog, seed int64, tag string) {
	const progs = 30
	const workers = 8
	const reps = 6
	r := rand.New(rand.NewSource(seed))
	for pi := 0; pi < progs; pi++ {
		var src []byte
		var prog *bcl.Prog
		outw, logw := &raceWrites{}, &raceWrites{}
		for try := 0; try < 200; try++ {
			g := NewGen(r)
			g.MaxDepth = 1 + r.Intn(5)
			if r.Intn(2) == 0 {
				g.ErrRate = 0
			}
			src = []byte(Render(g.Program(2+r.Intn(12)), r, r.Intn(3) == 0))
			if r.Intn(4) == 0 {
				src = []byte(protoValidSource(r, 1000+r.Intn(5000), map[string]int{}))
			}
			p, err := bcl.Parse(src, "input", bcl.OptOutput(outw), bcl.OptLogger(logw))
			if err == nil {
				prog = p
				break
			}
			outw, logw = &raceWrites{}, &raceWrites{}
		}
		if prog == nil {
			continue
		}
		trace := r.Intn(3) == 0
		before, _ := dumpOf(prog)
		exec := func() string {
			blocks, binding, err := bcl.Execute(prog, bcl.OptTrace(trace))
			e := "-"
			if err != nil {
				e = err.Error()
			}
			return fmt.Sprintf("err=%q blocks=%s binding=%s", e, fmtBlocks(blocks), fmtBinding(binding))
		}
		want := exec()
		res.Eval(1)
		out1, log1 := outw.snapshot(), logw.snapshot()
		input := fmt.Sprintf("scenario (c), %s, program %d: Parse once, then %d goroutines × %d Execute (trace=%v) on the one Prog\nsource (%d bytes): %q",
			tag, pi, workers, reps, trace, len(src), src)

		var wg sync.WaitGroup
		start := make(chan struct{})
		for w := 0; w < workers; w++ {
			wg.Add(1)
			go func(w int) {
				defer wg.Done()
				<-start
				for k := 0; k < reps; k++ {
					got := exec()
					res.Eval(1)
					if got != want {
						res.Fail(Failure{Kind: "oracle", Op: "Execute on a shared Prog", Input: input,
							Impl: fmt.Sprintf("goroutine %d, execution %d: %s", w, k, got), Expected: "as an execution made alone: " + want})
					}
				}
			}(w)
		}
		close(start)
		wg.Wait()

		total := 1 + workers*reps
		for _, x := range []struct {
			name string
			one  []string
			all  []string
		}{{"output", out1, outw.snapshot()}, {"log", log1, logw.snapshot()}} {
			m1, mall := raceMultiset(x.one), raceMultiset(x.all)
			okm := len(m1) == len(mall)
			for s, n := range m1 {
				if mall[s] != n*total {
					okm = false
				}
			}
			if !okm {
				res.Fail(Failure{Kind: "oracle", Op: "Execute on a shared Prog", Input: input,
					Impl:     fmt.Sprintf("%s: %d Write calls in all: %s", x.name, len(x.all), raceSummarize(mall)),
					Expected: fmt.Sprintf("%d × the Write calls of one execution (%d): %s", total, len(x.one), raceSummarize(m1))})
			}
		}
		after, _ := dumpOf(prog)
		if !bytes.Equal(before, after) {
			res.Fail(Failure{Kind: "oracle", Op: "Dump after concurrent Execute", Input: input,
				Impl: fmt.Sprintf("%x", after), Expected: fmt.Sprintf("unchanged: %x", before)})
		}
		res.Count("shared.programs", 1)
		res.Count("shared.executions", total)
		if trace {
			res.Count("shared.traced", 1)
		}
		if strings.Contains(want, "err=\"-\"") {
			res.Count("shared.exec-ok", 1)
		} else {
			res.Count("shared.exec-error", 1)
		}
		res.Count("shared.writes-per-execution", len(out1)+len(log1))
		if len(out1)+len(log1) > 0 || strings.Contains(want, "B(") {
			res.Nontrivial("c|" + string(src))
		}
		if pi == 0 {
			res.Sample(string(src))
		}
	}
	checkRaceLog(res, rl, "race (c) shared Prog", fmt.Sprintf("scenario (c), %s (rerun the stream with this seed)", tag))
}

func raceSummarize(m map[string]int) string {
	keys := make([]string, 0, len(m))
	for k := range m {
		keys = append(keys, k)
	}
	sort.Strings(keys)
	var b strings.Builder
	for i, k := range keys {
		if i >= 40 {
			b.WriteString(" …")
			break
		}
		fmt.Fprintf(&b, " %q×%d", k, m[k])
	}
	return b.String()
}
