package main

// Source builder shared by the streams "proto" and "race": inputs from one byte
// to about five pages, valid or damaged at a chosen place.

import (
	"bytes"
	"fmt"
	"io"
	"math/rand"
	"strings"

	"github.com/wkhere/bcl"
)

type protoSrc struct {
	Src    []byte
	Class  string // valid | syntax | lexfail   (what the whole-input parser says)
	Where  string // early | late | end | -     (place of the first damage)
	Inject string // what was put in, for the record
	Focus  int    // byte offset of the damage, -1 if none

	RefOK   bool   // Parse of the whole input succeeds
	RefLog  []byte // its diagnostics
	RefDump []byte // its dump, when it succeeds
	ErrPos  int    // position of the lexer's error token, -1 if the lexer does not fail
}

// refParse fills the reference fields from Parse / the lexer on the whole input.
func (ps *protoSrc) refParse() {
	var log bytes.Buffer
	prog, err := bcl.Parse(ps.Src, "input", bcl.OptOutput(io.Discard), bcl.OptLogger(&log))
	ps.RefOK = err == nil
	ps.RefLog = log.Bytes()
	ps.RefDump = nil
	if err == nil {
		ps.RefDump, _ = dumpOf(prog)
	}
	ps.ErrPos = -1
	toks, _ := bcl.VerifLex([]string{string(ps.Src)})
	for _, t := range toks {
		if t.Type == "tERR" {
			ps.ErrPos = t.Pos
			break
		}
	}
	switch {
	case ps.ErrPos >= 0:
		ps.Class = "lexfail"
	case !ps.RefOK:
		ps.Class = "syntax"
	default:
		ps.Class = "valid"
	}
}

func protoParsesOK(src string) bool {
	_, err := bcl.Parse([]byte(src), "input", bcl.OptOutput(io.Discard), bcl.OptLogger(io.Discard))
	return err == nil
}

func protoRunsOK(src string) bool {
	_, _, err := bcl.Interpret([]byte(src), bcl.OptOutput(io.Discard), bcl.OptLogger(io.Discard))
	return err == nil
}

var protoFillerLines = []string{
	"# ------------------------------------------------------------------------\n",
	"# filler é世界 \"quoted\" var def print ) ( } {\n",
	"\n\n\n",
	"#\n",
	"    \t  \n",
}

// protoValidSource builds a program that parses, of about target bytes: a generated
// toplevel program followed by generated programs wrapped in blocks (so that
// their variables do not collide), separated by comments and blank lines.
func protoValidSource(r *rand.Rand, target int, stats map[string]int) string {
	var b strings.Builder
	fancy := r.Intn(3) == 0
	wantRuns := r.Intn(4) != 0 // most inputs also execute without a runtime error
	seg := 0
	for tries := 0; b.Len() < target && tries < 4000; tries++ {
		g := NewGen(r)
		g.MaxDepth = 1 + r.Intn(5)
		if r.Intn(3) != 0 {
			g.ErrRate = 0
		}
		ss := g.Program(1 + r.Intn(6))
		body := Render(ss, r, fancy)
		var s string
		if seg == 0 && r.Intn(2) == 0 {
			s = body
		} else {
			s = fmt.Sprintf("def %s \"s%d\" {\n%s\n}\n", typeNames[r.Intn(len(typeNames))], seg, body)
		}
		if !protoParsesOK(s) || wantRuns && !protoRunsOK(s) {
			continue
		}
		for k, v := range g.Stats {
			stats[k] += v
		}
		if b.Len() > 0 && b.Len()+len(s) > target+200 {
			break
		}
		b.WriteString(s)
		if !strings.HasSuffix(s, "\n") {
			b.WriteString("\n")
		}
		seg++
		for r.Intn(3) == 0 {
			f := protoFillerLines[r.Intn(len(protoFillerLines))]
			if r.Intn(4) == 0 {
				f = "# " + strings.Repeat("x", r.Intn(300)) + "\n"
			}
			b.WriteString(f)
		}
	}
	if r.Intn(2) == 0 {
		b.WriteString("def main_cfg \"main\" { port = 8080; host = \"h\" flag = true }\n")
		b.WriteString([]string{"bind main_cfg -> struct\n", "bind main_cfg:first -> slice\n", "bind main_cfg:all -> slice"}[r.Intn(3)])
	}
	return b.String()
}

var syntaxJunk = []string{")", "print )", "var 1", "= =", "def {", "}", "{", "eval", "-> ->", "var var", "print print", "bind 1"}
var lexJunk = []string{"@", "$", "~", "é", "\x00", "\xff", "\"abc\n", "12ab", "1. ", "1e+ ", "0x1G", "\"s\"x", "id\"s\"", "! ", "\\", "[", "1.5e", "0x.", "7\"", "\"a\\\n\""}

// protoTinySources are whole inputs of a few bytes.
var protoTinySources = []string{"", "x", "@", "1", "\"", "#", "\n", "1.", "!", "é", "\xff", "\xc3", "a=", "var a", "print 1", "print 1\n",
	"eval 1+", "def t{}", "def t {x=1}", "1e", "0x", "\"a\"", "\"a", "12ab", "-", "->", "=", "==", "!=", ";", "}", "print \"é\"", "# c", "\r\n", "var a=1 print a"}

// protoClasses are the classes protoBuildSource is asked for.
var protoClasses = []string{"valid", "valid", "valid", "valid", "syntax-early", "syntax-late", "syntax-many", "lexfail-early", "lexfail-early", "lexfail-late", "lexfail-raw", "truncated", "tiny", "limits"}

// protoBuildSource makes one input.  want is one of protoClasses; the Class/Where
// fields of the result say what the input really is, as judged by Parse.
func protoBuildSource(r *rand.Rand, want string, stats map[string]int) *protoSrc {
	ps := &protoSrc{Focus: -1, Where: "-"}
	if want == "tiny" {
		s := protoTinySources[r.Intn(len(protoTinySources))]
		ps.Src = []byte(s)
		ps.Inject = "tiny"
		ps.refParse()
		if ps.Class != "valid" {
			ps.Where = "early"
		}
		return ps
	}
	if want == "limits" {
		// a program at or beyond an implementation limit (variables, nesting, operand depth, jump
		// distance), followed by more text: the pipeline must wind down as after any other error
		lad := limitLadder()
		s := lad[r.Intn(len(lad))]
		for len(s) > 60000 {
			s = lad[r.Intn(len(lad))]
		}
		if r.Intn(3) != 0 {
			s += "\n" + protoValidSource(r, 200+r.Intn(6000), stats)
		}
		ps.Src = []byte(s)
		ps.Inject = "limits"
		ps.refParse()
		if ps.Class != "valid" {
			ps.Where = "late"
		}
		return ps
	}
	var target int
	switch r.Intn(8) {
	case 0:
		target = 20 + r.Intn(500)
	case 1:
		target = 500 + r.Intn(3500)
	case 2:
		target = 4096 - 40 + r.Intn(80) // about one page
	case 3:
		target = 8192 - 40 + r.Intn(80) // about two pages
	case 4, 5:
		target = 4097 + r.Intn(8000)
	default:
		target = 12000 + r.Intn(8500)
	}
	src := protoValidSource(r, target, stats)
	L := len(src)

	// places where something can be inserted between two tokens
	var ends []int
	if want != "valid" {
		toks, _ := bcl.VerifLex([]string{src})
		for _, t := range toks {
			if t.Type != "tEOF" && t.Pos <= L {
				ends = append(ends, t.Pos)
			}
		}
		if len(ends) == 0 {
			ends = []int{0}
		}
	}
	near := func(off int) int {
		best := ends[0]
		for _, e := range ends {
			if protoAbs(e-off) < protoAbs(best-off) {
				best = e
			}
		}
		return best
	}
	early := func() int { return r.Intn(1 + min(L/8, 600)) }
	late := func() int { return L/2 + r.Intn(1+L/2) }
	insert := func(at int, s string) {
		src = src[:at] + s + src[at:]
		L = len(src)
	}

	switch want {
	case "valid":
	case "syntax-early", "syntax-late":
		off := early()
		if want == "syntax-late" {
			off = late()
		}
		at := near(off)
		j := syntaxJunk[r.Intn(len(syntaxJunk))]
		insert(at, " "+j+" ")
		ps.Inject, ps.Focus = j, at
	case "syntax-many":
		n := 2 + r.Intn(40)
		ps.Inject = fmt.Sprintf("%d syntax errors", n)
		// keep the recorded token ends valid: insert from the back
		picks := make([]int, n)
		for i := range picks {
			picks[i] = ends[r.Intn(len(ends))]
		}
		protoSortDesc(picks)
		for _, at := range picks {
			insert(at, " "+syntaxJunk[r.Intn(len(syntaxJunk))]+" ")
		}
		ps.Focus = picks[len(picks)-1]
	case "lexfail-early", "lexfail-late":
		off := early()
		if want == "lexfail-late" {
			off = late()
		}
		at := near(off)
		j := lexJunk[r.Intn(len(lexJunk))]
		pre, post := " ", " "
		if r.Intn(4) == 0 {
			post = ""
		}
		insert(at, pre+j+post)
		ps.Inject, ps.Focus = j, at
	case "lexfail-raw":
		// an unknown character at an arbitrary byte: it may land in a string or a comment
		at := r.Intn(L + 1)
		j := []string{"@", "\"", "\x00", "é"}[r.Intn(4)]
		insert(at, j)
		ps.Inject, ps.Focus = "raw "+j, at
	case "truncated":
		at := r.Intn(L + 1)
		src = src[:at]
		L = at
		ps.Inject, ps.Focus = "cut", at
	}

	ps.Src = []byte(src)
	ps.refParse()
	pos := ps.Focus
	if ps.Class == "lexfail" {
		pos = ps.ErrPos
	}
	switch {
	case ps.Class == "valid":
		ps.Where = "-"
	case pos+8 >= L:
		ps.Where = "end"
	case pos < L/4 || pos < 700:
		ps.Where = "early"
	default:
		ps.Where = "late"
	}
	return ps
}

func protoAbs(x int) int {
	if x < 0 {
		return -x
	}
	return x
}

func protoSortDesc(xs []int) {
	for i := 1; i < len(xs); i++ {
		for j := i; j > 0 && xs[j] > xs[j-1]; j-- {
			xs[j], xs[j-1] = xs[j-1], xs[j]
		}
	}
}
