package main

import (
	"fmt"
	"math/rand"
	"reflect"
	"sort"
	"strings"

	"github.com/wkhere/bcl"
)

func init() {
	streams["bindseq"] = streamBindSeq
}

// Types for call sequences: a small universe, so that the same type meets keys that
// differ only in spelling, and distinct types share a name.  Function-local types
// with the same name and package path but different layouts:
func seqConfA() reflect.Type {
	type Conf struct {
		A int
		B string
		C float64
	}
	return reflect.TypeOf(Conf{})
}
func seqConfB() reflect.Type {
	type Conf struct {
		C float64
		A int
		B string
	}
	return reflect.TypeOf(Conf{})
}
func seqConfC() reflect.Type {
	type Conf struct {
		B string `bcl:"a"`
		A int    `bcl:"b"`
		C bool
	}
	return reflect.TypeOf(Conf{})
}

type SeqTagged struct {
	Lvl      int    `bcl:"log_level"`
	Foo_Bar  string `bcl:"foobar"`
	FooBar2  string
	MaxConn  int
	Max_Size int
	Name     string
}

type SeqPlain struct {
	LogLevel int
	Foobar   string
	MaxSize  int
	Flag     bool
}

var seqTypes = []reflect.Type{seqConfA(), seqConfB(), seqConfC(), reflect.TypeOf(SeqTagged{}), reflect.TypeOf(SeqPlain{})}

func seqFold(s string) string { return strings.ToLower(strings.ReplaceAll(s, "_", "")) }

// seqExpect is a reference binder for flat struct types, written from the rule in the
// property: a key matches the field whose tag equals it, else the field whose name
// equals it ignoring case and underscores; the type name must match the block type the
// same way; missing counterpart, type mismatch, nil value and two keys on one field
// are errors.  Returns ok and the expected field values.
func seqExpect(t reflect.Type, b bcl.Block) (bool, map[int]any) {
	if t.Name() != "" && seqFold(t.Name()) != seqFold(b.Type) {
		return false, nil
	}
	vals := map[int]any{}
	used := map[int]bool{}
	find := func(key string) int {
		for i := 0; i < t.NumField(); i++ {
			if tag := t.Field(i).Tag.Get("bcl"); tag != "" && tag == key {
				return i
			}
		}
		// reflect.FieldByNameFunc: a unique match at the shallowest depth; several matches = none
		found := -1
		for i := 0; i < t.NumField(); i++ {
			if seqFold(t.Field(i).Name) == seqFold(key) {
				if found >= 0 {
					return -1
				}
				found = i
			}
		}
		return found
	}
	// the block name goes to the Name field; an empty name is stored too but claims nothing
	if i := find("Name"); i >= 0 {
		if t.Field(i).Type.Kind() != reflect.String {
			return false, nil
		}
		vals[i] = b.Name
		if b.Name != "" {
			used[i] = true
		}
	} else if b.Name != "" {
		return false, nil
	}
	keys := make([]string, 0, len(b.Fields))
	for k := range b.Fields {
		keys = append(keys, k)
	}
	sort.Strings(keys)
	for _, k := range keys {
		v := b.Fields[k]
		i := find(k)
		if i < 0 || v == nil {
			return false, nil
		}
		if used[i] {
			return false, nil
		}
		if reflect.TypeOf(v) != t.Field(i).Type {
			return false, nil
		}
		used[i] = true
		vals[i] = v
	}
	return true, vals
}

func streamBindSeq(ctx *Ctx) *Result {
	res := NewResult("bindseq", "sequences of Bind calls in one process over a small universe of struct types (function-local types sharing one name with different layouts, tagged and untagged fields) and blocks whose keys differ only in case, underscores or tag spelling; every call is compared with a reference binder written from the matching rule, so an outcome that depends on calls made earlier shows; non-trivial = a call whose key set contains a spelling variant used earlier on the same type name; distinct by (type, block)")
	keyPool := []string{"a", "A", "b", "B", "c", "log_level", "LogLevel", "loglevel", "LOG_LEVEL", "lvl", "foobar", "foo_bar", "FooBar", "foobar2",
		"foo_bar2", "max_conn", "maxconn", "MaxConn", "max_size", "maxsize", "MaxSize", "flag", "name", "Name", "nosuch"}
	typeNames := []string{"conf", "Conf", "seq_tagged", "seqtagged", "SeqPlain", "seq_plain", "other"}
	// one long sequence per worker; calls are made in order
	nseq := 8 * ctx.Scale
	for sidx := 0; sidx < nseq; sidx++ {
		r := rand.New(rand.NewSource(ctx.Seed*7919 + int64(sidx)))
		seen := map[string]bool{}
		for call := 0; call < 1500; call++ {
			t := seqTypes[r.Intn(len(seqTypes))]
			blk := bcl.Block{Type: typeNames[r.Intn(len(typeNames))], Fields: map[string]any{}}
			if t.Name() != "" && r.Intn(4) != 0 {
				blk.Type = strings.ToLower(t.Name())
			}
			if r.Intn(4) == 0 {
				blk.Name = "nm"
			}
			for n := r.Intn(4); n > 0; n-- {
				k := keyPool[r.Intn(len(keyPool))]
				var v any
				switch r.Intn(5) {
				case 0:
					v = "s" + k
				case 1:
					v = 2.5
				case 2:
					v = true
				default:
					v = r.Intn(100)
				}
				// mostly the right type for the field the rule selects
				if ok, _ := seqExpect(t, bcl.Block{Type: blk.Type, Fields: map[string]any{k: 0}}); r.Intn(3) != 0 || ok {
					for i := 0; i < t.NumField(); i++ {
						f := t.Field(i)
						if f.Tag.Get("bcl") == k || seqFold(f.Name) == seqFold(k) {
							switch f.Type.Kind() {
							case reflect.Int:
								v = r.Intn(100)
							case reflect.String:
								v = "s" + k
							case reflect.Float64:
								v = 2.5
							case reflect.Bool:
								v = true
							}
							if f.Tag.Get("bcl") == k {
								break
							}
						}
					}
				}
				blk.Fields[k] = v
			}
			wantOK, wantVals := seqExpect(t, blk)
			target := reflect.New(t)
			verdict := guarded(opTimeout, func() string {
				err := bcl.Bind(target.Interface(), bcl.StructBinding{Value: blk})
				if (err == nil) != wantOK {
					return fmt.Sprintf("FAIL Bind returned %v", err)
				}
				if err == nil {
					for i := 0; i < t.NumField(); i++ {
						got := target.Elem().Field(i).Interface()
						want, set := wantVals[i]
						if !set {
							want = reflect.Zero(t.Field(i).Type).Interface()
						}
						if !reflect.DeepEqual(got, want) {
							return fmt.Sprintf("FAIL field %s holds %#v, expected %#v", t.Field(i).Name, got, want)
						}
					}
				}
				return "ok"
			})
			res.Eval(1)
			key := fmt.Sprintf("%s|%s", t.String(), fmtBlock(blk))
			variant := false
			for k := range blk.Fields {
				id := t.Name() + "|" + seqFold(k)
				if seen[id] {
					variant = true
				}
				seen[id] = true
			}
			if variant {
				res.Nontrivial(key)
			}
			if wantOK {
				res.Count("expected.ok", 1)
			} else {
				res.Count("expected.error", 1)
			}
			if verdict != "ok" {
				exp := "an error (missing counterpart, type mismatch, collision, nil or type-name mismatch)"
				if wantOK {
					exp = fmt.Sprintf("nil, with the fields %v", wantVals)
				}
				res.Fail(Failure{Kind: "oracle", Input: fmt.Sprintf("call %d of sequence %d (seed %d): Bind(&%s{}, StructBinding{%s}) after the earlier calls of the sequence; type layout: %s",
					call, sidx, ctx.Seed, t.String(), fmtBlock(blk), describeType(t)), Impl: verdict, Expected: exp + " — as the same call gives when made first in a process"})
				break
			}
			if sidx == 0 && call < 3 {
				res.Sample(key)
			}
		}
	}
	return res
}

func describeType(t reflect.Type) string {
	var parts []string
	for i := 0; i < t.NumField(); i++ {
		f := t.Field(i)
		s := f.Name + " " + f.Type.String()
		if tag := f.Tag.Get("bcl"); tag != "" {
			s += " `bcl:\"" + tag + "\"`"
		}
		parts = append(parts, s)
	}
	return "struct{ " + strings.Join(parts, "; ") + " }"
}
