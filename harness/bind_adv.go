package main

// Stream "bindadv" (C15): Bind on hand-built bindings against a zoo of targets.

import (
	"fmt"
	"math"
	"math/rand"
	"reflect"
	"sort"
	"strings"
	"unsafe"

	"github.com/wkhere/bcl"
)

// ---------- the zoo of declared target types ----------

type AdvInner struct {
	Name string
	X    int
	S    string
}

type advHidden struct {
	Q  int
	Hs string
}

type AdvEmb struct {
	E1 int
	E2 string
}

type AdvEmbP struct {
	P1 float64
	P2 bool
}

type advEmbUP struct {
	U1 int
}

type AdvMyInt int
type AdvMyString string

type AdvStringer interface{ String() string }

type AdvPlain struct {
	Name string
	A    int
	B    float64
	C    string
	D    bool
	Any  any
	Tag  int `bcl:"tagged_one"`
}

type AdvZoo struct {
	Name     string
	I        int
	F        float64
	S        string
	B        bool
	Any      any
	Err      error
	Str      AdvStringer
	PI       *int
	PS       *string
	PInner   *AdvInner
	Inner    AdvInner `bcl:"adv_inner"`
	Anon     struct{ V int }
	I64      int64
	I32      int32
	U        uint
	F32      float32
	My       AdvMyInt
	MyS      AdvMyString
	Bytes    []byte
	Ints     []int
	Arr      [2]int
	Map      map[string]any
	Fn       func()
	Ch       chan int
	hidden   int
	hiddenS  string
	Blk      bcl.Block
	Block    bcl.Block
	Two_Part string
	TwoPart2 int `bcl:"two"`
	Dup1     int `bcl:"dup"`
	Dup2     int `bcl:"dup"`
	AnyInner any `bcl:"any_inner"`
	Inners   []AdvInner
}

type AdvEmbeds struct {
	Name string
	AdvEmb
	*AdvEmbP
	advHidden
	*advEmbUP
	Top int
	E2  int // shadows AdvEmb.E2 (other type)
}

type AdvEmbedsNonNil struct {
	AdvEmb
	*AdvEmbP
	*advEmbUP
}

type advUnexportedOnly struct {
	name string
	a    int
}

type AdvAmbiguous struct {
	X_y int
	Xy  int
	FOO string
	Foo string
}

type AdvNameInt struct {
	Name int
	A    int
}

type AdvNameAny struct {
	Name any
	A    any
}

type AdvTagName struct {
	Label string `bcl:"Name"`
	A     int
}

type AdvRec struct {
	Name string
	V    int
	Next struct {
		V    int
		Next struct{ V int }
	}
}

var advStructTypes = []reflect.Type{
	reflect.TypeOf(AdvPlain{}), reflect.TypeOf(AdvPlain{}), reflect.TypeOf(AdvZoo{}), reflect.TypeOf(AdvZoo{}),
	reflect.TypeOf(AdvEmbeds{}), reflect.TypeOf(AdvEmbedsNonNil{}), reflect.TypeOf(advUnexportedOnly{}),
	reflect.TypeOf(AdvAmbiguous{}), reflect.TypeOf(AdvNameInt{}), reflect.TypeOf(AdvNameAny{}), reflect.TypeOf(AdvTagName{}),
	reflect.TypeOf(AdvRec{}), reflect.TypeOf(AdvInner{}), reflect.TypeOf(bcl.Block{}), reflect.TypeOf(struct{}{}),
	reflect.TypeOf(Tunnel{}), reflect.TypeOf(HTTP_Server{}),
}

// field types for generated anonymous struct types
var advFieldTypes = []reflect.Type{
	reflect.TypeOf(0), reflect.TypeOf(0), reflect.TypeOf(0.0), reflect.TypeOf(0.0), reflect.TypeOf(""), reflect.TypeOf(""),
	reflect.TypeOf(false), reflect.TypeOf(false), reflect.TypeOf((*any)(nil)).Elem(), reflect.TypeOf((*any)(nil)).Elem(),
	reflect.TypeOf((*error)(nil)).Elem(), reflect.TypeOf((*AdvStringer)(nil)).Elem(),
	reflect.TypeOf((*int)(nil)), reflect.TypeOf((*string)(nil)), reflect.TypeOf((*AdvInner)(nil)),
	reflect.TypeOf(int64(0)), reflect.TypeOf(int8(0)), reflect.TypeOf(uint(0)), reflect.TypeOf(uint64(0)), reflect.TypeOf(float32(0)),
	reflect.TypeOf(complex128(0)), reflect.TypeOf(AdvMyInt(0)), reflect.TypeOf(AdvMyString("")),
	reflect.TypeOf([]byte(nil)), reflect.TypeOf([]int(nil)), reflect.TypeOf([]any(nil)), reflect.TypeOf([2]int{}),
	reflect.TypeOf(map[string]any(nil)), reflect.TypeOf(map[string]int(nil)), reflect.TypeOf((func())(nil)), reflect.TypeOf((chan int)(nil)),
	reflect.TypeOf(AdvInner{}), reflect.TypeOf(AdvInner{}), reflect.TypeOf(bcl.Block{}), reflect.TypeOf(struct{}{}),
	reflect.TypeOf([]AdvInner(nil)), reflect.TypeOf(uintptr(0)), reflect.TypeOf(unsafe.Pointer(nil)),
}

func advGenStructType(r *rand.Rand, depth int) reflect.Type {
	nf := r.Intn(7)
	var fs []reflect.StructField
	seen := map[string]bool{}
	for len(fs) < nf {
		n := genFieldName(r)
		if r.Intn(8) == 0 {
			n = "Name"
		}
		if seen[n] {
			continue
		}
		seen[n] = true
		f := reflect.StructField{Name: n}
		if depth > 0 && r.Intn(5) == 0 {
			f.Type = advGenStructType(r, depth-1)
		} else {
			f.Type = advFieldTypes[r.Intn(len(advFieldTypes))]
		}
		if n == "Name" && r.Intn(3) != 0 {
			f.Type = reflect.TypeOf("")
		}
		if r.Intn(5) == 0 {
			tag := tagWords[r.Intn(len(tagWords))]
			if r.Intn(4) == 0 {
				tag = "Name"
			}
			f.Tag = reflect.StructTag(fmt.Sprintf(`bcl:%q`, tag))
		}
		fs = append(fs, f)
	}
	return reflect.StructOf(fs)
}

// ---------- filling targets with previous contents ----------

// advFill sets v (settable) to a random value; it never creates funcs, chans or
// NaNs, so two fills from equal generators are reflect.DeepEqual.
func advFill(r *rand.Rand, v reflect.Value, depth int) {
	if !v.CanSet() {
		// unexported field: written through its address
		v = reflect.NewAt(v.Type(), unsafe.Pointer(v.UnsafeAddr())).Elem()
	}
	if r.Intn(4) == 0 {
		return // leave zero
	}
	switch v.Kind() {
	case reflect.Bool:
		v.SetBool(r.Intn(2) == 0)
	case reflect.Int, reflect.Int8, reflect.Int16, reflect.Int32, reflect.Int64:
		v.SetInt(int64(r.Intn(100)))
	case reflect.Uint, reflect.Uint8, reflect.Uint16, reflect.Uint32, reflect.Uint64, reflect.Uintptr:
		v.SetUint(uint64(r.Intn(100)))
	case reflect.Float32, reflect.Float64:
		v.SetFloat(float64(r.Intn(100)) / 4)
	case reflect.Complex64, reflect.Complex128:
		v.SetComplex(complex(float64(r.Intn(9)), 1))
	case reflect.String:
		v.SetString([]string{"old", "prev", "x"}[r.Intn(3)])
	case reflect.Pointer:
		if depth > 0 {
			p := reflect.New(v.Type().Elem())
			advFill(r, p.Elem(), depth-1)
			v.Set(p)
		}
	case reflect.Struct:
		for i := 0; i < v.NumField(); i++ {
			advFill(r, v.Field(i), depth-1)
		}
	case reflect.Slice:
		if depth > 0 {
			n := r.Intn(3)
			s := reflect.MakeSlice(v.Type(), n, n+r.Intn(2))
			for i := 0; i < n; i++ {
				advFill(r, s.Index(i), depth-1)
			}
			v.Set(s)
		}
	case reflect.Array:
		for i := 0; i < v.Len(); i++ {
			advFill(r, v.Index(i), depth-1)
		}
	case reflect.Map:
		if depth > 0 && v.Type().Key().Kind() == reflect.String {
			m := reflect.MakeMap(v.Type())
			e := reflect.New(v.Type().Elem()).Elem()
			advFill(r, e, 0)
			m.SetMapIndex(reflect.ValueOf("k").Convert(v.Type().Key()), e)
			v.Set(m)
		}
	case reflect.Interface:
		if v.NumMethod() == 0 {
			v.Set(reflect.ValueOf([]any{1, "s", 2.5, true, AdvInner{X: 1}, &AdvInner{X: 2}}[r.Intn(6)]))
		}
	}
}

// ---------- targets ----------

type advTarget struct {
	val   any          // what is passed to Bind
	class string       // for the distribution
	styp  string       // for the distribution: which struct type
	strct reflect.Type // non-nil: val is a non-nil pointer to this struct type
	elem  reflect.Type // non-nil: val is a non-nil pointer to a slice of this struct type
}

var advPtrKinds = []func() any{
	func() any { return new(bool) }, func() any { return new(int) }, func() any { return new(int8) },
	func() any { return new(int16) }, func() any { return new(int32) }, func() any { return new(int64) },
	func() any { return new(uint) }, func() any { return new(uint8) }, func() any { return new(uint16) },
	func() any { return new(uint32) }, func() any { return new(uint64) }, func() any { return new(uintptr) },
	func() any { return new(float32) }, func() any { return new(float64) }, func() any { return new(complex64) },
	func() any { return new(complex128) }, func() any { return new([3]int) }, func() any { return new([2]AdvPlain) },
	func() any { return new(chan int) }, func() any { return new(func()) }, func() any { return new(any) },
	func() any { var x any = AdvPlain{}; return &x }, func() any { var x any = &AdvPlain{}; return &x },
	func() any { var x any = []AdvPlain{}; return &x },
	func() any { return new(map[string]any) }, func() any { m := map[string]any{}; return &m },
	func() any { return new(*AdvPlain) }, func() any { p := &AdvPlain{}; return &p },
	func() any { return new(*[]AdvPlain) }, func() any { return new(string) }, func() any { return new(unsafe.Pointer) },
	func() any { return new(error) }, func() any { return new(AdvMyInt) },
}

var advNonPointers = []func() any{
	func() any { return AdvPlain{} }, func() any { return 0 }, func() any { return "s" }, func() any { return []AdvPlain{{}} },
	func() any { return map[string]any{} }, func() any { return func() {} }, func() any { return make(chan int) },
	func() any { return bcl.Block{} }, func() any { return 1.5 }, func() any { return [1]AdvPlain{} }, func() any { return true },
	func() any { return struct{}{} }, func() any { return uintptr(0) }, func() any { return unsafe.Pointer(nil) },
	func() any { return bcl.StructBinding{} }, func() any { return reflect.ValueOf(&AdvPlain{}) },
}

var advNilPointers = []func() any{
	func() any { return (*AdvPlain)(nil) }, func() any { return (*[]AdvPlain)(nil) }, func() any { return (*int)(nil) },
	func() any { return (*any)(nil) }, func() any { return (**AdvPlain)(nil) }, func() any { return (*struct{})(nil) },
}

var advBadSlices = []func() any{
	func() any { return new([]int) }, func() any { return &[]int{1, 2} }, func() any { return new([]*AdvPlain) },
	func() any { return &[]*AdvPlain{{}} }, func() any { return new([]any) }, func() any { return &[]any{AdvPlain{}} },
	func() any { return new([]string) }, func() any { return new([][]AdvPlain) }, func() any { return new([]map[string]any) },
	func() any { return new([]bcl.Binding) }, func() any { return new([][1]AdvPlain) }, func() any { return new([]func()) },
}

func advPickStructType(r *rand.Rand, base int64) (reflect.Type, string) {
	if r.Intn(3) == 0 {
		// from a bounded pool of generated types (reflect keeps every StructOf type forever)
		tr := rand.New(rand.NewSource(base*7907 + int64(r.Intn(shapePool))<<20))
		return advGenStructType(tr, 2), "generated"
	}
	t := advStructTypes[r.Intn(len(advStructTypes))]
	n := t.Name()
	if n == "" {
		n = "struct{}"
	}
	return t, n
}

// advMakeTarget builds the target from its own generator, so that calling it
// twice with equally seeded generators gives two deep-equal, unshared values.
func advMakeTarget(r *rand.Rand, base int64) advTarget {
	switch k := r.Intn(100); {
	case k < 2:
		return advTarget{val: nil, class: "nil"}
	case k < 7:
		return advTarget{val: advNonPointers[r.Intn(len(advNonPointers))](), class: "non-pointer"}
	case k < 11:
		return advTarget{val: advNilPointers[r.Intn(len(advNilPointers))](), class: "nil-pointer"}
	case k < 19:
		return advTarget{val: advPtrKinds[r.Intn(len(advPtrKinds))](), class: "pointer-to-non-struct-non-slice"}
	case k < 24:
		return advTarget{val: advBadSlices[r.Intn(len(advBadSlices))](), class: "pointer-to-slice-of-non-struct"}
	case k < 62:
		t, n := advPickStructType(r, base)
		p := reflect.New(t)
		if r.Intn(2) == 0 {
			advFill(r, p.Elem(), 3)
		}
		return advTarget{val: p.Interface(), class: "pointer-to-struct", styp: n, strct: t}
	default:
		t, n := advPickStructType(r, base)
		p := reflect.New(reflect.SliceOf(t))
		switch r.Intn(4) {
		case 0: // nil slice
		case 1:
			p.Elem().Set(reflect.MakeSlice(reflect.SliceOf(t), 0, 2))
		default:
			k := 1 + r.Intn(3)
			s := reflect.MakeSlice(reflect.SliceOf(t), k, k+r.Intn(2))
			for i := 0; i < k; i++ {
				advFill(r, s.Index(i), 3)
			}
			p.Elem().Set(s)
		}
		return advTarget{val: p.Interface(), class: "pointer-to-slice-of-struct", styp: n, elem: t}
	}
}

// ---------- blocks aimed at a struct type ----------

type advFieldInfo struct {
	name     string
	tag      string
	typ      reflect.Type
	exported bool
}

// advMenu lists the fields of t, including those of embedded structs.
func advMenu(t reflect.Type, depth int) []advFieldInfo {
	var out []advFieldInfo
	for i := 0; i < t.NumField(); i++ {
		f := t.Field(i)
		out = append(out, advFieldInfo{f.Name, f.Tag.Get("bcl"), f.Type, f.IsExported()})
		if f.Anonymous && depth < 3 {
			et := f.Type
			if et.Kind() == reflect.Pointer {
				et = et.Elem()
			}
			if et.Kind() == reflect.Struct {
				for _, e := range advMenu(et, depth+1) {
					e.tag = ""
					out = append(out, e)
				}
			}
		}
	}
	return out
}

var advScalars = []any{0, 1, -7, 42, math.MaxInt64, 0.0, 2.5, -1e300, math.Inf(1), "", "s", "x\ny", "é", true, false}

func advScalar(r *rand.Rand) any { return advScalars[r.Intn(len(advScalars))] }

func advScalarOf(r *rand.Rand, k reflect.Kind) any {
	for {
		v := advScalar(r)
		if reflect.TypeOf(v).Kind() == k {
			return v
		}
	}
}

var advMissKeys = []string{"nosuch", "zz_top", "a.b", "", "é", "name2", "x-y", " ", "Name ", "hidden", "Hidden"}

type advBlockGen struct {
	r  *rand.Rand
	st map[string]int
}

// block builds a block aimed at struct type t: mostly fitting, with injected faults.
func (g *advBlockGen) block(t reflect.Type, faulty bool, depth int) bcl.Block {
	r := g.r
	b := bcl.Block{Type: "t", Fields: map[string]any{}}
	if t != nil && t.Kind() == reflect.Struct && t.Name() != "" && r.Intn(10) != 0 {
		b.Type, _ = spellKey(r, t.Name())
	} else if r.Intn(3) == 0 {
		b.Type = topTypeNames[r.Intn(len(topTypeNames))]
	}
	var menu []advFieldInfo
	if t != nil && t.Kind() == reflect.Struct {
		menu = advMenu(t, 0)
	}
	hasName := false
	for _, f := range menu {
		if f.name == "Name" || f.tag == "Name" {
			hasName = true
		}
	}
	if hasName && r.Intn(2) == 0 || faulty && r.Intn(12) == 0 {
		b.Name = uBlockNames[r.Intn(len(uBlockNames))]
	}
	if r.Intn(40) == 0 {
		b.Fields = nil
		return b
	}
	for _, f := range menu {
		if r.Intn(3) == 0 {
			continue
		}
		if !f.exported && !(faulty && r.Intn(3) == 0) {
			continue
		}
		if !f.exported {
			g.st["fault.unexported-field-key"]++
		}
		// key
		var key string
		switch {
		case f.tag != "" && r.Intn(3) != 0:
			key = f.tag
		default:
			if _, ok := asciiLetters(f.name); ok {
				key, _ = spellKey(r, f.name)
			} else {
				key = f.name
			}
			if r.Intn(4) == 0 {
				key = f.name
			}
		}
		if key == "Name" && b.Name != "" && !faulty {
			continue
		}
		// value
		var val any
		ft := f.typ
		switch ft.Kind() {
		case reflect.Int, reflect.Float64, reflect.String, reflect.Bool:
			if ft.PkgPath() == "" {
				val = advScalarOf(r, ft.Kind())
			} else {
				val = advScalar(r) // named scalar types take nothing
			}
		case reflect.Interface:
			val = advScalar(r)
		case reflect.Struct:
			if depth < 3 {
				nb := g.block(ft, faulty, depth+1)
				if ft.Name() == "" {
					nb.Type = key
				}
				if nb.Name != "" && r.Intn(2) == 0 {
					key += "." + nb.Name
				}
				val = nb
			} else {
				val = advScalar(r)
			}
		default:
			if !faulty && r.Intn(4) != 0 {
				continue // anything stored here is a mismatch
			}
			val = advScalar(r)
			if r.Intn(3) == 0 {
				val = g.block(nil, false, 3)
			}
		}
		if faulty {
			switch r.Intn(14) {
			case 0:
				val = nil
				g.st["fault.nil-value"]++
			case 1:
				val = advScalar(r)
				g.st["fault.random-scalar"]++
			case 2:
				if _, isBlock := val.(bcl.Block); !isBlock {
					val = g.block(nil, false, 3)
					g.st["fault.block-for-scalar"]++
				}
			case 3:
				// numeric or string coercion that must not happen
				switch x := val.(type) {
				case int:
					val = float64(x)
				case float64:
					val = int(math.Mod(x, 1000))
				case string:
					val = len(x)
				case bool:
					val = "true"
				}
				g.st["fault.would-need-coercion"]++
			case 4:
				val = []any{int64(1), int32(1), uint(1), float32(1), []int{1}, map[string]any{}, &AdvInner{}, AdvMyInt(1), struct{}{}, []byte("x"), AdvInner{}, (*int)(nil)}[r.Intn(12)]
				g.st["fault.foreign-value-type"]++
			}
		}
		b.Fields[key] = val
		// a second key landing on the same field
		if faulty && r.Intn(10) == 0 && f.exported {
			if _, ok := asciiLetters(f.name); ok {
				k2, _ := spellKey(r, f.name)
				if _, dup := b.Fields[k2]; !dup {
					b.Fields[k2] = val
					if r.Intn(2) == 0 {
						b.Fields[k2] = advScalar(r)
					}
					g.st["fault.second-key-on-same-field"]++
				}
			}
		}
	}
	if faulty && r.Intn(6) == 0 || len(menu) == 0 && r.Intn(2) == 0 {
		b.Fields[advMissKeys[r.Intn(len(advMissKeys))]] = advScalar(r)
		g.st["fault.key-without-field"]++
	}
	return b
}

// ---------- the independent oracle ----------

type advCand struct {
	index    []int
	typ      reflect.Type
	exported bool
}

// advAllFields lists every field of t together with the fields of embedded
// structs (through pointers too), at any depth, with full index paths.
func advAllFields(t reflect.Type, prefix []int, depth int) []advCand {
	var out []advCand
	for i := 0; i < t.NumField(); i++ {
		f := t.Field(i)
		idx := append(append([]int(nil), prefix...), i)
		out = append(out, advCand{idx, f.Type, f.IsExported()})
		if f.Anonymous && depth < 6 {
			et := f.Type
			if et.Kind() == reflect.Pointer {
				et = et.Elem()
			}
			if et.Kind() == reflect.Struct {
				out = append(out, advAllFields(et, idx, depth+1)...)
			}
		}
	}
	return out
}

func advFieldByPath(t reflect.Type, idx []int) reflect.StructField {
	var f reflect.StructField
	for k, i := range idx {
		if k > 0 && t.Kind() == reflect.Pointer {
			t = t.Elem()
		}
		f = t.Field(i)
		t = f.Type
	}
	return f
}

// advCandidates: the fields the matching rule admits for a key: top-level
// fields whose bcl tag equals the key; if there is none, fields (promoted ones
// included) whose name equals the key, cut at the first '.', ignoring case and underscores.
func advCandidates(t reflect.Type, key string) []advCand {
	var tagged []advCand
	for i := 0; i < t.NumField(); i++ {
		f := t.Field(i)
		if tv := f.Tag.Get("bcl"); tv != "" && tv == key {
			tagged = append(tagged, advCand{[]int{i}, f.Type, f.IsExported()})
		}
	}
	if len(tagged) > 0 {
		return tagged
	}
	cut, _, _ := strings.Cut(key, ".")
	var out []advCand
	for _, c := range advAllFields(t, nil, 0) {
		if foldEq(advFieldByPath(t, c.index).Name, cut) {
			out = append(out, c)
		}
	}
	return out
}

type advItem struct {
	key string
	val any
}

func advItems(b bcl.Block) []advItem {
	var items []advItem
	if b.Name != "" {
		items = append(items, advItem{"Name", b.Name})
	}
	keys := make([]string, 0, len(b.Fields))
	for k := range b.Fields {
		keys = append(keys, k)
	}
	sort.Strings(keys)
	for _, k := range keys {
		items = append(items, advItem{k, b.Fields[k]})
	}
	return items
}

// advMustErr tells, from the types alone, that binding block b to struct type
// t has to fail, and why (one of the error classes of C15).
func advMustErr(t reflect.Type, b bcl.Block) string {
	if t.Kind() != reflect.Struct {
		return "non-struct destination for a block"
	}
	if t.Name() != "" && !foldEq(t.Name(), b.Type) {
		return "struct type name does not match block type"
	}
	for _, it := range advItems(b) {
		if it.val == nil {
			return fmt.Sprintf("nil value of %q", it.key)
		}
		cands := advCandidates(t, it.key)
		if len(cands) == 0 {
			return fmt.Sprintf("missing counterpart of %q", it.key)
		}
		anyExported := false
		why := ""
		ok := false
		for _, c := range cands {
			if !c.exported {
				continue
			}
			anyExported = true
			if nb, isBlock := it.val.(bcl.Block); isBlock {
				if w := advMustErr(c.typ, nb); w != "" {
					why = fmt.Sprintf("nested block %q: %s", it.key, w)
					continue
				}
				ok = true
				continue
			}
			if !reflect.TypeOf(it.val).AssignableTo(c.typ) {
				why = fmt.Sprintf("type mismatch for %q: %T into %s", it.key, it.val, c.typ)
				continue
			}
			ok = true
		}
		if !anyExported {
			return fmt.Sprintf("unexported counterpart of %q", it.key)
		}
		if !ok {
			return why
		}
	}
	return ""
}

// advReach follows an index path without allocating; ok is false at a nil embedded pointer.
func advReach(v reflect.Value, idx []int) (reflect.Value, bool) {
	for k, i := range idx {
		if k > 0 && v.Kind() == reflect.Pointer {
			if v.IsNil() {
				return reflect.Value{}, false
			}
			v = v.Elem()
		}
		v = v.Field(i)
	}
	return v, true
}

func advSameScalar(fv reflect.Value, val any) bool {
	if fv.Kind() == reflect.Interface {
		if fv.IsNil() {
			return false
		}
		fv = fv.Elem()
	}
	if fv.Type() != reflect.TypeOf(val) || !fv.CanInterface() {
		return false
	}
	if f, ok := val.(float64); ok {
		return math.Float64bits(fv.Float()) == math.Float64bits(f)
	}
	if !fv.Type().Comparable() {
		return reflect.DeepEqual(fv.Interface(), val)
	}
	return fv.Interface() == val
}

// advStored checks that every item of the block sits unchanged in a field the
// matching rule admits, no two items in the same field; "" when it does.
func advStored(v reflect.Value, b bcl.Block) string {
	t := v.Type()
	if t.Kind() != reflect.Struct {
		return fmt.Sprintf("block %s was bound to a %s", b.Type, t.Kind())
	}
	if t.Name() != "" && !foldEq(t.Name(), b.Type) {
		return fmt.Sprintf("struct type %s does not match block type %s", t.Name(), b.Type)
	}
	items := advItems(b)
	// holders[i]: paths of admissible fields that hold item i
	holders := make([][]string, len(items))
	for i, it := range items {
		if it.val == nil {
			return fmt.Sprintf("nil value of %q cannot have been stored", it.key)
		}
		for _, c := range advCandidates(t, it.key) {
			if !c.exported {
				continue
			}
			fv, ok := advReach(v, c.index)
			if !ok {
				continue
			}
			if nb, isBlock := it.val.(bcl.Block); isBlock {
				if fv.Kind() != reflect.Struct || advStored(fv, nb) != "" {
					continue
				}
			} else if !advSameScalar(fv, it.val) {
				continue
			}
			holders[i] = append(holders[i], fmt.Sprint(c.index))
		}
		if len(holders[i]) == 0 {
			why := ""
			if nb, isBlock := it.val.(bcl.Block); isBlock {
				for _, c := range advCandidates(t, it.key) {
					if fv, ok := advReach(v, c.index); ok && c.exported && fv.Kind() == reflect.Struct {
						why = " (inside: " + advStored(fv, nb) + ")"
					}
				}
			}
			return fmt.Sprintf("block %s: %q = %s is not in any admissible exported field%s", b.Type, it.key, advDump(it.val), why)
		}
	}
	// distinct fields: a matching of items to holders
	used := map[string]bool{}
	var match func(i int) bool
	match = func(i int) bool {
		if i == len(items) {
			return true
		}
		for _, h := range holders[i] {
			if !used[h] {
				used[h] = true
				if match(i + 1) {
					return true
				}
				used[h] = false
			}
		}
		return false
	}
	if !match(0) {
		var ks []string
		for _, it := range items {
			ks = append(ks, it.key)
		}
		return fmt.Sprintf("block %s: keys %q do not sit in distinct fields", b.Type, ks)
	}
	return ""
}

func advDescribe(v any) string {
	if v == nil {
		return "nil"
	}
	s := fmt.Sprintf("(%T) %s", v, advDump(v))
	if len(s) > 3000 {
		s = s[:3000] + "…"
	}
	return s
}

func advBindingGo(b bcl.Binding) string {
	if b == nil {
		return "nil"
	}
	return advDump(b)
}

// advDump prints a value without addresses (pointers are followed), maps in key
// order, interface contents with their dynamic type; it reads unexported fields too.
func advDump(v any) string {
	var b strings.Builder
	advDumpV(&b, reflect.ValueOf(v), 0, false)
	return b.String()
}

func advDumpV(b *strings.Builder, v reflect.Value, depth int, typed bool) {
	if !v.IsValid() {
		b.WriteString("nil")
		return
	}
	if depth > 24 {
		b.WriteString("…")
		return
	}
	t := v.Type()
	tn := t.String()
	if t.Kind() == reflect.Struct && t.Name() == "" {
		tn = "struct"
	}
	scalar := func(s string) {
		if typed || t.PkgPath() != "" {
			b.WriteString(tn + "(" + s + ")")
		} else {
			b.WriteString(s)
		}
	}
	switch v.Kind() {
	case reflect.Bool:
		scalar(fmt.Sprint(v.Bool()))
	case reflect.Int, reflect.Int8, reflect.Int16, reflect.Int32, reflect.Int64:
		scalar(fmt.Sprint(v.Int()))
	case reflect.Uint, reflect.Uint8, reflect.Uint16, reflect.Uint32, reflect.Uint64, reflect.Uintptr:
		scalar(fmt.Sprint(v.Uint()))
	case reflect.Float32, reflect.Float64:
		scalar(fmt.Sprint(v.Float()))
	case reflect.Complex64, reflect.Complex128:
		scalar(fmt.Sprint(v.Complex()))
	case reflect.String:
		if t.PkgPath() != "" {
			b.WriteString(tn + "(" + fmt.Sprintf("%q", v.String()) + ")")
		} else {
			fmt.Fprintf(b, "%q", v.String())
		}
	case reflect.Pointer:
		if v.IsNil() {
			b.WriteString("(" + tn + ")(nil)")
			return
		}
		b.WriteString("&")
		advDumpV(b, v.Elem(), depth+1, false)
	case reflect.Interface:
		if v.IsNil() {
			b.WriteString("nil")
			return
		}
		advDumpV(b, v.Elem(), depth+1, true)
	case reflect.Struct:
		b.WriteString(tn + "{")
		for i := 0; i < v.NumField(); i++ {
			if i > 0 {
				b.WriteString(", ")
			}
			b.WriteString(t.Field(i).Name + ":")
			advDumpV(b, v.Field(i), depth+1, false)
		}
		b.WriteString("}")
	case reflect.Slice, reflect.Array:
		if v.Kind() == reflect.Slice && v.IsNil() {
			b.WriteString(tn + "(nil)")
			return
		}
		b.WriteString(tn + "{")
		for i := 0; i < v.Len(); i++ {
			if i > 0 {
				b.WriteString(", ")
			}
			advDumpV(b, v.Index(i), depth+1, false)
		}
		b.WriteString("}")
	case reflect.Map:
		if v.IsNil() {
			b.WriteString(tn + "(nil)")
			return
		}
		keys := v.MapKeys()
		sort.Slice(keys, func(i, j int) bool { return fmt.Sprint(keys[i]) < fmt.Sprint(keys[j]) })
		b.WriteString(tn + "{")
		for i, k := range keys {
			if i > 0 {
				b.WriteString(", ")
			}
			advDumpV(b, k, depth+1, false)
			b.WriteString(":")
			advDumpV(b, v.MapIndex(k), depth+1, false)
		}
		b.WriteString("}")
	case reflect.Func, reflect.Chan, reflect.UnsafePointer:
		if v.IsZero() {
			b.WriteString("(" + tn + ")(nil)")
		} else {
			b.WriteString("(" + tn + ")(non-nil)")
		}
	default:
		b.WriteString("?" + tn)
	}
}

func streamBindAdv(ctx *Ctx) *Result {
	res := NewResult("bindadv", "hand-built bindings (nil, struct, slice; fields int/float64/string/bool/nil/nested blocks/foreign values; "+
		"fitting blocks and blocks with injected faults) crossed with nil, non-pointer, nil-pointer, pointer-to-every-kind, "+
		"declared and generated struct and slice targets; non-trivial = a struct or slice binding with at least one field met a "+
		"struct or slice-of-struct target; distinct by target type, previous contents and binding")
	parallelCPU(ctx.Seed, 0x15, ctx.N(400000), func(i int, r *rand.Rand) {
		st := map[string]int{}
		tseed := r.Int63()
		tg := advMakeTarget(rand.New(rand.NewSource(tseed)), ctx.Seed)
		twin := advMakeTarget(rand.New(rand.NewSource(tseed)), ctx.Seed) // equal, unshared copy of the previous contents
		st["target."+tg.class]++
		if tg.styp != "" {
			st["target.struct-type."+tg.styp]++
		}
		twinOK := reflect.DeepEqual(tg.val, twin.val)
		if tg.elem != nil && !twinOK {
			st["generator.twin-mismatch"]++
		}

		// binding
		g := &advBlockGen{r: r, st: st}
		aim := tg.strct
		if aim == nil {
			aim = tg.elem
		}
		if aim == nil && r.Intn(2) == 0 {
			aim = reflect.TypeOf(AdvPlain{})
		}
		faulty := r.Intn(3) == 0
		var binding bcl.Binding
		var blocks []bcl.Block
		kind := r.Intn(20)
		switch {
		case kind == 0:
			binding = nil
			st["binding.nil"]++
		case tg.elem != nil && kind < 17 || tg.elem == nil && kind < 4:
			n := r.Intn(4)
			for k := 0; k < n; k++ {
				blocks = append(blocks, g.block(aim, faulty && r.Intn(2) == 0, 0))
			}
			if n == 0 && r.Intn(2) == 0 {
				binding = bcl.SliceBinding{} // nil slice of blocks
			} else {
				if blocks == nil {
					blocks = []bcl.Block{}
				}
				binding = bcl.SliceBinding{Value: blocks}
			}
			st[fmt.Sprintf("binding.slice.blocks=%d", n)]++
		default:
			blocks = []bcl.Block{g.block(aim, faulty, 0)}
			binding = bcl.StructBinding{Value: blocks[0]}
			st["binding.struct"]++
		}

		input := fmt.Sprintf("target: %s\nbinding: %s", advDescribe(tg.val), advBindingGo(binding))
		var err error
		p := guardedCall(func() { err = bcl.Bind(tg.val, binding) })
		res.Eval(1)
		fail := func(impl, expected string) {
			res.Fail(Failure{Kind: "oracle", Op: "Bind", Input: input, Impl: impl, Expected: expected})
		}
		nfields := 0
		for _, b := range blocks {
			nfields += len(b.Fields)
		}
		if (tg.strct != nil || tg.elem != nil) && nfields > 0 {
			res.Nontrivial(input)
		}
		if i < 4 {
			res.Sample(input)
		}
		defer res.Merge(st)

		// (a) never panics
		if p != "" {
			st["outcome.panic"]++
			fail(p, "nil or an error, no panic")
			return
		}
		if err == nil {
			st["outcome.nil"]++
		} else {
			st["outcome.error"]++
		}

		// (c) error classes
		must := ""
		_, isStruct := binding.(bcl.StructBinding)
		_, isSlice := binding.(bcl.SliceBinding)
		switch {
		case binding == nil:
			must = "nil binding"
		case tg.val == nil:
			must = "nil target"
		case reflect.TypeOf(tg.val).Kind() != reflect.Pointer:
			must = "non-pointer target"
		case reflect.ValueOf(tg.val).IsNil():
			must = "nil pointer target"
		case isStruct && tg.strct == nil:
			must = "target of the wrong kind for a struct binding"
		case isSlice && tg.elem == nil:
			must = "target of the wrong kind for a slice binding"
		default:
			dt := tg.strct
			if isSlice {
				dt = tg.elem
			}
			for _, b := range blocks {
				if w := advMustErr(dt, b); w != "" {
					must = w
					break
				}
			}
		}
		if must != "" {
			cls := must
			if k := strings.IndexAny(cls, ":\""); k > 0 {
				cls = strings.TrimSpace(cls[:k])
			}
			st["must-fail."+cls]++
			if err == nil {
				fail("err=nil, target now: "+advDescribe(tg.val), "an error: "+must)
				return
			}
		}

		// (d) on error a slice target keeps its previous contents
		if err != nil && tg.elem != nil && twinOK {
			if !reflect.DeepEqual(tg.val, twin.val) {
				fail(fmt.Sprintf("err=%v, target now: %s", err, advDescribe(tg.val)),
					"on error the slice target keeps its previous contents: "+advDescribe(twin.val))
				return
			}
			st["checked.slice-unchanged-on-error"]++
		}
		if err != nil {
			msg := err.Error()
			if k := strings.IndexAny(msg, ":\"'"); k > 0 {
				msg = msg[:k]
			}
			if strings.Contains(err.Error(), "is mapped from both") {
				msg = "struct.F is mapped from both block.K1 and block.K2"
			}
			if strings.HasSuffix(err.Error(), "has nil value") {
				msg = "block.K has nil value"
			}
			if strings.HasPrefix(msg, "block ") {
				msg = "block T: expected struct"
			}
			if len(msg) > 40 {
				msg = msg[:40]
			}
			st["error."+strings.TrimSpace(msg)]++
			return
		}

		// (b) nil means everything was stored
		switch {
		case isStruct && tg.strct != nil:
			if w := advStored(reflect.ValueOf(tg.val).Elem(), blocks[0]); w != "" {
				fail("err=nil, target now: "+advDescribe(tg.val), "every field stored unchanged in its own exported field; but "+w)
				return
			}
			st["checked.stored.struct"]++
		case isSlice && tg.elem != nil:
			sv := reflect.ValueOf(tg.val).Elem()
			if sv.Len() != len(blocks) {
				fail("err=nil, target now: "+advDescribe(tg.val), fmt.Sprintf("a slice of %d elements", len(blocks)))
				return
			}
			for k, b := range blocks {
				if w := advStored(sv.Index(k), b); w != "" {
					fail("err=nil, target now: "+advDescribe(tg.val), fmt.Sprintf("element %d holds block %d; but %s", k, k, w))
					return
				}
			}
			st["checked.stored.slice"]++
		default:
			fail("err=nil", "an error (no struct or slice destination)")
		}
	})
	return res
}
