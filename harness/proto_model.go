package main

// Model side of stream "proto": for every scripted call, the observation of the
// implementation (value class returned, number of Reads, number of Closes) must
// be one of the observations the transition system of lean/Bclv/Model/Proto.lean
// allows for that script — the driver explores every interleaving of the model
// (op PROTO) with the lexer's and parser's side of the script computed by the
// lexer and parser models from the bytes.  The theorems of Props/C11.lean are
// about that transition system.

import (
	"fmt"
	"math/rand"
	"strings"
	"sync"
)

type protoObs struct {
	api    string
	items  string // the Reads the script will answer, in order
	nReads int
	ret    string // readerr | parseerr | ok | other (run-time/bind error after a successful parse)
	reads  int
	closes int
	input  func() string
}

var (
	protoObsMu  sync.Mutex
	protoObsAll []protoObs
)

const protoModelMaxReads = 300

// protoItems plays the script against a 4096-byte buffer the way scriptFile.Read
// does and renders each Read for the model: d<hex> data, e<hex> data+EOF, z (0,nil),
// E (0,EOF), X error (its bytes are dropped by the reader).  It stops after the
// first E or X: the reader never reads past them.
func protoItems(src []byte, steps []rstep) (string, int) {
	var items []string
	off := 0
	steps = append([]rstep(nil), steps...)
	for si := 0; si < len(steps); {
		st := &steps[si]
		n := st.n
		if n > 4096 {
			n = 4096
		}
		if n > len(src)-off {
			n = len(src) - off
		}
		data := src[off : off+n]
		off += n
		if n < st.n && off < len(src) {
			st.n -= n
			items = append(items, "d"+hx(data))
			continue
		}
		si++
		switch {
		case st.fail:
			items = append(items, "X")
			return strings.Join(items, ","), len(items)
		case st.eof && n == 0:
			items = append(items, "E")
			return strings.Join(items, ","), len(items)
		case st.eof:
			items = append(items, "e"+hx(data))
			items = append(items, "E")
			return strings.Join(items, ","), len(items)
		case n == 0:
			items = append(items, "z")
		default:
			items = append(items, "d"+hx(data))
		}
	}
	items = append(items, "E")
	return strings.Join(items, ","), len(items)
}

func protoRecord(o protoObs) {
	protoObsMu.Lock()
	protoObsAll = append(protoObsAll, o)
	protoObsMu.Unlock()
}

// protoModelCheck runs after the scheduling-sensitive part of the stream.
func protoModelCheck(ctx *Ctx, res *Result) {
	protoObsMu.Lock()
	all := protoObsAll
	protoObsAll = nil
	protoObsMu.Unlock()
	parallel(ctx.Pool, ctx.Seed, len(all), func(i int, _ *rand.Rand, d *Driver) {
		o := all[i]
		if o.nReads > protoModelMaxReads {
			res.Count("model.skipped(long script)", 1)
			return
		}
		ans := ask(d, "PROTO 10 "+hxs("input")+" "+o.items)
		res.Count("model.compared", 1)
		fields := map[string]string{}
		rest := ans
		if k := strings.Index(ans, " obs="); k >= 0 {
			fields["obs"] = ans[k+5:]
			rest = ans[:k]
		}
		for _, f := range strings.Fields(rest) {
			if k := strings.IndexByte(f, '='); k > 0 {
				fields[f[:k]] = f[k+1:]
			}
		}
		if fields["final"] != "1" {
			res.Fail(Failure{Kind: "model-diff", Op: "PROTO", Input: o.input(), Impl: "-", Model: ans,
				Expected: "every terminal state of the model is final (theorem maximal_is_final)"})
			return
		}
		res.Count("model.lexfail."+fields["lexfail"], 1)
		okObs := false
		for _, ob := range strings.Fields(fields["obs"]) {
			p := strings.Split(ob, "/")
			if len(p) != 4 {
				continue
			}
			retOK := p[0] == o.ret || (o.ret == "other" && p[0] == "ok")
			if retOK && p[1] == fmt.Sprint(o.reads) && p[2] == fmt.Sprint(o.closes) {
				okObs = true
				res.Count("model.reads-after-fail."+p[3], 1)
			}
		}
		if !okObs {
			res.Fail(Failure{Kind: "model-diff", Op: "PROTO", Input: o.input(),
				Impl:     fmt.Sprintf("%s returned class %s after %d Reads and %d Closes", o.api, o.ret, o.reads, o.closes),
				Model:    ans,
				Expected: "the implementation's observation is one the protocol model allows (class/reads/closes/reads-after-failure)"})
		}
	})
}
