package main

import (
	"bufio"
	"fmt"
	"io"
	"os"
	"os/exec"
	"sync"
	"syscall"
)

// Driver is a running instance of the Lean model driver (line protocol).
type Driver struct {
	cmd *exec.Cmd
	in  io.WriteCloser
	out *bufio.Reader
	mu  sync.Mutex
}

func driverPath() string {
	if p := os.Getenv("BCLV_DRIVER"); p != "" {
		return p
	}
	return "/verif/lean/.lake/build/bin/bclv-driver"
}

var stackOnce sync.Once

func NewDriver() (*Driver, error) {
	// the model is written with plain structural recursion; give it a deep stack
	stackOnce.Do(func() {
		var lim syscall.Rlimit
		if syscall.Getrlimit(syscall.RLIMIT_STACK, &lim) == nil {
			lim.Cur = lim.Max
			syscall.Setrlimit(syscall.RLIMIT_STACK, &lim)
		}
	})
	cmd := exec.Command(driverPath())
	in, err := cmd.StdinPipe()
	if err != nil {
		return nil, err
	}
	out, err := cmd.StdoutPipe()
	if err != nil {
		return nil, err
	}
	cmd.Stderr = os.Stderr
	if err := cmd.Start(); err != nil {
		return nil, err
	}
	return &Driver{cmd: cmd, in: in, out: bufio.NewReaderSize(out, 1<<20)}, nil
}

// Ask sends one operation line and returns the model's result line.
func (d *Driver) Ask(op string) (string, error) {
	d.mu.Lock()
	defer d.mu.Unlock()
	if _, err := io.WriteString(d.in, op+"\n"); err != nil {
		return "", err
	}
	line, err := d.out.ReadString('\n')
	if err != nil {
		return "", fmt.Errorf("model driver died: %w", err)
	}
	return line[:len(line)-1], nil
}

func (d *Driver) Close() {
	d.in.Close()
	d.cmd.Wait()
}

// Pool of drivers for parallel streams.
type Pool struct {
	ds []*Driver
}

func NewPool(n int) (*Pool, error) {
	p := &Pool{}
	for i := 0; i < n; i++ {
		d, err := NewDriver()
		if err != nil {
			return nil, err
		}
		p.ds = append(p.ds, d)
	}
	return p, nil
}

func (p *Pool) Close() {
	for _, d := range p.ds {
		d.Close()
	}
}
